/-
  C11 — encoding emits exactly the modelled content in the documented CBOR shape, and decoding it returns the original value.

  `Header.WF` / `CoseKey.WF` / … are the well-formedness conditions (explicit, field by field); for each type: (a) `to_cbor_value`
  succeeds and *is* the prescribed structure, written out; (b) `from_cbor_value` of it returns the value, protected headers now carrying
  the bytes the encoder assigned (`erase` forgets exactly those).  (c) The byte level is the serializer: `to_vec = enc ∘ to_cbor_value`
  and `enc` is inverted by the independent parser model on every value it represents faithfully.
-/
import CosetProofs.Roundtrip.BuiltOther
import CosetProofs.Roundtrip.EmitNormal
namespace Coset.Props.C11
open Coset Coset.Cbor Coset.Spec

/-! ### (a) shape of the emitted value -/

/-- header map: the populated typed fields once each under labels 1–6 in this order (`typedL`), then the counter-signature entry under 7
    (`csValue`: absent for none, the signature itself for one, an array for several), then the extra parameters in their given order. -/
theorem header_emits (alg crit ct kid iv piv cs rest) (ov : Option Value) (hcs : csValue cs = .ok ov) (hr : RestGood rest) :
    Header.toValue (.mk alg crit ct kid iv piv cs rest) = .ok (.map (pairsToValue (typedL alg crit ct kid iv piv ++ csL ov ++ rest))) :=
  Header.toValue_entries alg crit ct kid iv piv cs rest ov hcs hr

/-- the typed entries: one per populated field, under its registered label, with exactly its value; empty fields contribute nothing. -/
theorem typed_entries (alg : Option RegLabelPriv) (crit : List RegLabel) (ct : Option RegLabel) (kid iv piv : Bytes) (e : Label × Value) :
    e ∈ typedL alg crit ct kid iv piv ↔
      (∃ a, alg = some a ∧ e = (.int 1, RegLabelPriv.value Reg.algorithm a)) ∨
      (crit ≠ [] ∧ e = (.int 2, .array (crit.map (RegLabel.value Reg.headerParameter)))) ∨
      (∃ c, ct = some c ∧ e = (.int 3, RegLabel.value Reg.coapContentFormat c)) ∨
      (kid ≠ [] ∧ e = (.int 4, .bytes kid)) ∨ (iv ≠ [] ∧ e = (.int 5, .bytes iv)) ∨ (piv ≠ [] ∧ e = (.int 6, .bytes piv)) := by
  unfold typedL
  cases alg <;> cases ct <;> by_cases h2 : crit = [] <;> by_cases h4 : kid = [] <;> by_cases h5 : iv = [] <;> by_cases h6 : piv = [] <;>
    simp [h2, h4, h5, h6]

/-- no label is emitted twice among the typed entries, and they come in ascending label order. -/
theorem typed_labels_once (alg crit ct kid iv piv) :
    List.Sublist ((typedL alg crit ct kid iv piv).map (·.1)) [.int 1, .int 2, .int 3, .int 4, .int 5, .int 6] := typedL_labels alg crit ct kid iv piv

/-- a single counter-signature is inlined, several are an array, none is no entry. -/
theorem counter_signature_forms (s s2 : CoseSignature) (ss : List CoseSignature) (v : Value) (vs : List Value)
    (h1 : CoseSignature.toValue s = .ok v) (hs : sigsToValues (s :: s2 :: ss) = .ok vs) :
    csValue [] = .ok none ∧ csValue [s] = .ok (some v) ∧ csValue (s :: s2 :: ss) = .ok (some (.array vs)) := by
  simp [csValue, h1, hs]

/-- the emptiness test: a header is "empty" only if *every* field is — counter-signatures only or extra parameters only is not empty. -/
theorem isEmpty_iff (h : Header) : h.isEmpty = true ↔ h = Header.default :=
  ⟨isEmpty_default h, fun e => by subst e; rfl⟩

/-- protected header: stored bytes verbatim; a built empty header is the zero-length string; any other is the string wrapping its encoded map. -/
theorem protected_emits (h : Header) (data : Bytes) (x : Value) (hx : Header.toValue h = .ok x) :
    ProtectedHeader.cborBstr (.mk (some data) h) = .ok (.bytes data) ∧
    (h.isEmpty = true → ProtectedHeader.cborBstr (.mk none h) = .ok (.bytes [])) ∧
    (h.isEmpty = false → ProtectedHeader.cborBstr (.mk none h) = .ok (.bytes (enc x))) := by
  refine ⟨rfl, ?_, ?_⟩
  · intro he; simp [ProtectedHeader.cborBstr, he]
  · intro he; simp [ProtectedHeader.cborBstr, he, hx]

/-! ### (a)+(b) per type: the emitted structure and its decoding -/

theorem header (h : Header) (hw : Header.WF maxNest h) :
    ∃ x h', Header.toValue h = .ok x ∧ hdrFromValue x = .ok h' ∧ Header.erase h' = Header.erase h := hdr_api_rt h hw
theorem header_any_budget (d : Nat) : HdrRT d ∧ PhRT d ∧ SigRT d := built_rt d
theorem protected_header (p : ProtectedHeader) (hw : ProtectedHeader.WF maxNest p) :
    ∃ b p', ProtectedHeader.cborBstr p = .ok (.bytes b) ∧ phFromBstr (.bytes b) = .ok p' ∧ ProtectedHeader.erase p' = ProtectedHeader.erase p ∧
      p'.originalData = some b := ph_api_rt p hw
theorem signature (s : CoseSignature) (hw : CoseSignature.WF maxNest s) :
    ∃ x s', CoseSignature.toValue s = .ok x ∧ sigFromValue x = .ok s' ∧ CoseSignature.erase s' = CoseSignature.erase s ∧ SigSame s' s := sig_api_rt s hw

/-- COSE_Sign1 = [protected bstr, unprotected map, payload or nil, signature bstr]. -/
theorem sign1 (m : CoseSign1) (hp : ProtectedHeader.WF maxNest m.protected_) (hu : Header.WF maxNest m.unprotected) :
    ∃ b y m', m.toValue = .ok (.array [.bytes b, y, optBytesToValue m.payload, .bytes m.signature]) ∧
      CoseSign1.fromValue (.array [.bytes b, y, optBytesToValue m.payload, .bytes m.signature]) = .ok m' ∧
      ProtectedHeader.erase m'.protected_ = ProtectedHeader.erase m.protected_ ∧ Header.erase m'.unprotected = Header.erase m.unprotected ∧
      m'.payload = m.payload ∧ m'.signature = m.signature ∧ m'.protected_.originalData = some b := sign1_rt m hp hu
/-- COSE_Sign = [protected, unprotected, payload or nil, [signatures]]. -/
theorem sign (m : CoseSign) (hp : ProtectedHeader.WF maxNest m.protected_) (hu : Header.WF maxNest m.unprotected) (hs : sigsWF maxNest m.signatures) :
    ∃ b y vs m', m.toValue = .ok (.array [.bytes b, y, optBytesToValue m.payload, .array vs]) ∧
      CoseSign.fromValue (.array [.bytes b, y, optBytesToValue m.payload, .array vs]) = .ok m' ∧
      ProtectedHeader.erase m'.protected_ = ProtectedHeader.erase m.protected_ ∧ Header.erase m'.unprotected = Header.erase m.unprotected ∧
      m'.payload = m.payload ∧ eraseSigs m'.signatures = eraseSigs m.signatures ∧ m'.protected_.originalData = some b ∧
      sigsSame m'.signatures m.signatures := sign_rt m hp hu hs
/-- COSE_Mac0 = [protected, unprotected, payload or nil, tag]. -/
theorem mac0 (m : CoseMac0) (hp : ProtectedHeader.WF maxNest m.protected_) (hu : Header.WF maxNest m.unprotected) :
    ∃ b y m', m.toValue = .ok (.array [.bytes b, y, optBytesToValue m.payload, .bytes m.tag]) ∧
      CoseMac0.fromValue (.array [.bytes b, y, optBytesToValue m.payload, .bytes m.tag]) = .ok m' ∧
      ProtectedHeader.erase m'.protected_ = ProtectedHeader.erase m.protected_ ∧ Header.erase m'.unprotected = Header.erase m.unprotected ∧
      m'.payload = m.payload ∧ m'.tag = m.tag ∧ m'.protected_.originalData = some b := mac0_rt m hp hu
/-- COSE_Mac = [protected, unprotected, payload or nil, tag, [recipients]]. -/
theorem mac (m : CoseMac) (hp : ProtectedHeader.WF maxNest m.protected_) (hu : Header.WF maxNest m.unprotected) (hr : rcpsWF m.recipients) :
    ∃ b y ys m', m.toValue = .ok (.array [.bytes b, y, optBytesToValue m.payload, .bytes m.tag, .array ys]) ∧
      CoseMac.fromValue (.array [.bytes b, y, optBytesToValue m.payload, .bytes m.tag, .array ys]) = .ok m' ∧
      ProtectedHeader.erase m'.protected_ = ProtectedHeader.erase m.protected_ ∧ Header.erase m'.unprotected = Header.erase m.unprotected ∧
      m'.payload = m.payload ∧ m'.tag = m.tag ∧ eraseRcps m'.recipients = eraseRcps m.recipients ∧ m'.protected_.originalData = some b :=
  mac_rt m hp hu hr
/-- COSE_Encrypt0 = [protected, unprotected, ciphertext or nil]. -/
theorem encrypt0 (m : CoseEncrypt0) (hp : ProtectedHeader.WF maxNest m.protected_) (hu : Header.WF maxNest m.unprotected) :
    ∃ b y m', m.toValue = .ok (.array [.bytes b, y, optBytesToValue m.ciphertext]) ∧
      CoseEncrypt0.fromValue (.array [.bytes b, y, optBytesToValue m.ciphertext]) = .ok m' ∧
      ProtectedHeader.erase m'.protected_ = ProtectedHeader.erase m.protected_ ∧ Header.erase m'.unprotected = Header.erase m.unprotected ∧
      m'.ciphertext = m.ciphertext ∧ m'.protected_.originalData = some b := encrypt0_rt m hp hu
/-- COSE_Encrypt = [protected, unprotected, ciphertext or nil, [recipients]]. -/
theorem encrypt (m : CoseEncrypt) (hp : ProtectedHeader.WF maxNest m.protected_) (hu : Header.WF maxNest m.unprotected) (hr : rcpsWF m.recipients) :
    ∃ b y ys m', m.toValue = .ok (.array [.bytes b, y, optBytesToValue m.ciphertext, .array ys]) ∧
      CoseEncrypt.fromValue (.array [.bytes b, y, optBytesToValue m.ciphertext, .array ys]) = .ok m' ∧
      ProtectedHeader.erase m'.protected_ = ProtectedHeader.erase m.protected_ ∧ Header.erase m'.unprotected = Header.erase m.unprotected ∧
      m'.ciphertext = m.ciphertext ∧ eraseRcps m'.recipients = eraseRcps m.recipients ∧ m'.protected_.originalData = some b := encrypt_rt m hp hu hr

/-- COSE_recipient: three elements when it has no nested recipients, four otherwise — and decoding gives it back, at every nesting. -/
theorem recipient (r : CoseRecipient) (hw : r.WF) : ∃ x r', r.toValue = .ok x ∧ rcpFromValue x = .ok r' ∧ r'.erase = r.erase := rcp_rt r hw
theorem recipient_slot_omitted (p u ct) (hs : List Value) (h : headerSlots p u = .ok hs) :
    CoseRecipient.toValue (.mk p u ct []) = .ok (.array (hs ++ [optBytesToValue ct])) := by simp [CoseRecipient.toValue, h]

/-- COSE_Key: kty always, kid / alg / key_ops / Base IV when populated (labels 1–5), then the other parameters in order; decodes to the same key. -/
theorem key (k : CoseKey) (hw : k.WF) :
    k.toValue = .ok (.map (pairsToValue (keyL k.kty k.keyId k.alg k.keyOps k.baseIv ++ k.params))) ∧
    CoseKey.fromValue (.map (pairsToValue (keyL k.kty k.keyId k.alg k.keyOps k.baseIv ++ k.params))) = .ok k := key_rt k hw
theorem keyset (ks : List CoseKey) (hw : ∀ k ∈ ks, k.WF) : ∃ vs, CoseKeySet.toValue ks = .ok (.array vs) ∧ CoseKeySet.fromValue (.array vs) = .ok ks :=
  keyset_rt ks hw
/-- claims set: the populated typed claims under 1–7 in order, then the others; decodes to the same set. -/
theorem claims (c : ClaimsSet) (hw : c.WF) :
    c.toValue = .ok (.map (namePairs (claimL c.issuer c.subject c.audience c.expirationTime c.notBefore c.issuedAt c.cwtId ++ c.rest))) ∧
    ClaimsSet.fromValue (.map (namePairs (claimL c.issuer c.subject c.audience c.expirationTime c.notBefore c.issuedAt c.cwtId ++ c.rest))) = .ok c :=
  claims_rt c hw
theorem party_info (p : PartyInfo) (hw : p.WF) : ∃ x, p.toValue = .ok x ∧ PartyInfo.fromValue x = .ok p := party_rt p hw
theorem supp_pub_info (s : SuppPubInfo) (hw : s.WF) :
    ∃ x s', s.toValue = .ok x ∧ SuppPubInfo.fromValue x = .ok s' ∧ s'.keyDataLength = s.keyDataLength ∧ s'.other = s.other ∧
      ProtectedHeader.erase s'.protected_ = ProtectedHeader.erase s.protected_ := supp_rt s hw
theorem kdf_context (k : CoseKdfContext) (hw : k.WF) :
    ∃ x k', k.toValue = .ok x ∧ CoseKdfContext.fromValue x = .ok k' ∧ k'.algorithmId = k.algorithmId ∧ k'.partyUInfo = k.partyUInfo ∧
      k'.partyVInfo = k.partyVInfo ∧ k'.suppPrivInfo = k.suppPrivInfo ∧ k'.suppPubInfo.keyDataLength = k.suppPubInfo.keyDataLength ∧
      k'.suppPubInfo.other = k.suppPubInfo.other ∧
      ProtectedHeader.erase k'.suppPubInfo.protected_ = ProtectedHeader.erase k.suppPubInfo.protected_ := kdf_rt k hw
/-- labels. -/
theorem label (l : Label) (h : LabelGood l) : Label.toValue l = .ok (labelValue l) ∧ Label.fromValue (labelValue l) = .ok l :=
  ⟨Label.toValue_eq l, Label.roundtrip l h⟩

/-! ### (c) through the serializer -/

/-- `to_vec` is the serializer applied to the emitted value; an independent reading of those bytes gives that value back, and then the
    type's decoder gives the original (whatever `conv` yields on the emitted value). -/
theorem bytes {α : Type} (conv : Value → Res α) (toV : α → Res Value) (t : α) (x : Value) (hx : toV t = .ok x)
    (hn : Normal x) (hd : depthOf x ≤ recursionLimit) :
    toVec toV t = .ok (enc x) ∧ readToValue (enc x) = .ok x ∧ fromSlice conv (enc x) = conv x := by
  have hr := readToValue_enc x hn hd
  exact ⟨by simp [toVec, hx], hr, by simp [fromSlice, hr]⟩

theorem tagged_bytes {α : Type} (tag : Nat) (conv : Value → Res α) (toV : α → Res Value) (t : α) (x : Value) (hx : toV t = .ok x)
    (hn : Normal (.tag tag x)) (hd : depthOf (.tag tag x) ≤ recursionLimit) :
    toTaggedVec tag toV t = .ok (enc (.tag tag x)) ∧ readToValue (enc (.tag tag x)) = .ok (.tag tag x) ∧
      fromTaggedSlice tag conv (enc (.tag tag x)) = conv x := by
  have hr := readToValue_enc _ hn hd
  exact ⟨by simp [toTaggedVec, hx], hr, by simp [fromTaggedSlice, hr, tryAsTag]⟩


/-! ### (d) the byte level from conditions on the fields alone

  `bytes` / `tagged_bytes` above take "the emitted value is one the serializer represents faithfully" as a hypothesis.  For headers,
  signatures, COSE_Sign1 and COSE_Key that hypothesis is *derived* here from conditions on the fields (`…NF`): texts are valid UTF-8
  and lengths fit `u64` (what Rust's `String` / `Vec` guarantee), integers are `i64`s, and the uninterpreted `Value`s placed in extra
  parameters are themselves `Normal` and nest at most `k` levels. -/

theorem header_emits_normal (h : Header) (k : Nat) (hw : Header.WF maxNest h) (hn : Header.NF k h) :
    ∃ x, Header.toValue h = .ok x ∧ Cbor.Normal x ∧ Cbor.depthOf x ≤ k + 1 := header_emit_normal h k hw hn

theorem signature_emits_normal (s : CoseSignature) (j : Nat) (hw : CoseSignature.WF maxNest s) (hn : CoseSignature.NF j s) :
    ∃ x, CoseSignature.toValue s = .ok x ∧ Cbor.Normal x ∧ Cbor.depthOf x ≤ j := signature_emit_normal s j hw hn

/-- COSE_Sign1: `from_slice (to_vec m)` returns `m` (its protected header now carrying the bytes encoding assigned it). -/
theorem sign1_bytes_from_fields (m : CoseSign1) (k : Nat) (hk : k + 2 ≤ Cbor.recursionLimit)
    (hp : ProtectedHeader.WF maxNest m.protected_) (hu : Header.WF maxNest m.unprotected)
    (hpn : ProtectedHeader.NF m.protected_) (hun : Header.NF k m.unprotected)
    (hpl : ∀ b, m.payload = some b → b.length < 2 ^ 64) (hsg : m.signature.length < 2 ^ 64) :
    ∃ bs m', toVec CoseSign1.toValue m = .ok bs ∧ fromSlice CoseSign1.fromValue bs = .ok m' ∧
      ProtectedHeader.erase m'.protected_ = ProtectedHeader.erase m.protected_ ∧ Header.erase m'.unprotected = Header.erase m.unprotected ∧
      m'.payload = m.payload ∧ m'.signature = m.signature := sign1_built_bytes m k hk hp hu hpn hun hpl hsg

/-- COSE_Key: `from_slice (to_vec key) = key`. -/
theorem key_bytes_from_fields (key : CoseKey) (k : Nat) (hk : k + 1 ≤ Cbor.recursionLimit) (hw : key.WF) (hn : CoseKey.NF k key) :
    ∃ bs, toVec CoseKey.toValue key = .ok bs ∧ fromSlice CoseKey.fromValue bs = .ok key := key_built_bytes key k hk hw hn

/-- COSE_Mac0, COSE_Encrypt0 and COSE_Sign (any number of signers), and CWT claims sets, likewise. -/
theorem mac0_bytes_from_fields (m : CoseMac0) (k : Nat) (hk : k + 2 ≤ Cbor.recursionLimit)
    (hp : ProtectedHeader.WF maxNest m.protected_) (hu : Header.WF maxNest m.unprotected)
    (hpn : ProtectedHeader.NF m.protected_) (hun : Header.NF k m.unprotected)
    (hpl : ∀ b, m.payload = some b → b.length < 2 ^ 64) (htg : m.tag.length < 2 ^ 64) :
    ∃ bs m', toVec CoseMac0.toValue m = .ok bs ∧ fromSlice CoseMac0.fromValue bs = .ok m' ∧
      ProtectedHeader.erase m'.protected_ = ProtectedHeader.erase m.protected_ ∧ Header.erase m'.unprotected = Header.erase m.unprotected ∧
      m'.payload = m.payload ∧ m'.tag = m.tag := mac0_built_bytes m k hk hp hu hpn hun hpl htg

theorem encrypt0_bytes_from_fields (m : CoseEncrypt0) (k : Nat) (hk : k + 2 ≤ Cbor.recursionLimit)
    (hp : ProtectedHeader.WF maxNest m.protected_) (hu : Header.WF maxNest m.unprotected)
    (hpn : ProtectedHeader.NF m.protected_) (hun : Header.NF k m.unprotected)
    (hct : ∀ b, m.ciphertext = some b → b.length < 2 ^ 64) :
    ∃ bs m', toVec CoseEncrypt0.toValue m = .ok bs ∧ fromSlice CoseEncrypt0.fromValue bs = .ok m' ∧
      ProtectedHeader.erase m'.protected_ = ProtectedHeader.erase m.protected_ ∧ Header.erase m'.unprotected = Header.erase m.unprotected ∧
      m'.ciphertext = m.ciphertext := encrypt0_built_bytes m k hk hp hu hpn hun hct

theorem sign_bytes_from_fields (m : CoseSign) (k j : Nat) (hk : k + 2 ≤ Cbor.recursionLimit) (hj : j + 2 ≤ Cbor.recursionLimit)
    (hp : ProtectedHeader.WF maxNest m.protected_) (hu : Header.WF maxNest m.unprotected) (hs : sigsWF maxNest m.signatures)
    (hpn : ProtectedHeader.NF m.protected_) (hun : Header.NF k m.unprotected) (hsn : sigsNF j m.signatures)
    (hsl : m.signatures.length < 2 ^ 64) (hpl : ∀ b, m.payload = some b → b.length < 2 ^ 64) :
    ∃ bs m', toVec CoseSign.toValue m = .ok bs ∧ fromSlice CoseSign.fromValue bs = .ok m' ∧
      ProtectedHeader.erase m'.protected_ = ProtectedHeader.erase m.protected_ ∧ Header.erase m'.unprotected = Header.erase m.unprotected ∧
      m'.payload = m.payload ∧ eraseSigs m'.signatures = eraseSigs m.signatures := sign_built_bytes m k j hk hj hp hu hs hpn hun hsn hsl hpl

theorem encrypt_bytes_from_fields (m : CoseEncrypt) (k j : Nat) (hk : k + 2 ≤ Cbor.recursionLimit) (hj : j + 2 ≤ Cbor.recursionLimit)
    (hp : ProtectedHeader.WF maxNest m.protected_) (hu : Header.WF maxNest m.unprotected) (hr : rcpsWF m.recipients)
    (hpn : ProtectedHeader.NF m.protected_) (hun : Header.NF k m.unprotected) (hrn : rcpsNF j m.recipients)
    (hrl : m.recipients.length < 2 ^ 64) (hct : ∀ b, m.ciphertext = some b → b.length < 2 ^ 64) :
    ∃ bs m', toVec CoseEncrypt.toValue m = .ok bs ∧ fromSlice CoseEncrypt.fromValue bs = .ok m' ∧
      ProtectedHeader.erase m'.protected_ = ProtectedHeader.erase m.protected_ ∧ Header.erase m'.unprotected = Header.erase m.unprotected ∧
      m'.ciphertext = m.ciphertext ∧ eraseRcps m'.recipients = eraseRcps m.recipients :=
  encrypt_built_bytes m k j hk hj hp hu hr hpn hun hrn hrl hct

theorem mac_bytes_from_fields (m : CoseMac) (k j : Nat) (hk : k + 2 ≤ Cbor.recursionLimit) (hj : j + 2 ≤ Cbor.recursionLimit)
    (hp : ProtectedHeader.WF maxNest m.protected_) (hu : Header.WF maxNest m.unprotected) (hr : rcpsWF m.recipients)
    (hpn : ProtectedHeader.NF m.protected_) (hun : Header.NF k m.unprotected) (hrn : rcpsNF j m.recipients)
    (hrl : m.recipients.length < 2 ^ 64) (hpl : ∀ b, m.payload = some b → b.length < 2 ^ 64) (htg : m.tag.length < 2 ^ 64) :
    ∃ bs m', toVec CoseMac.toValue m = .ok bs ∧ fromSlice CoseMac.fromValue bs = .ok m' ∧
      ProtectedHeader.erase m'.protected_ = ProtectedHeader.erase m.protected_ ∧ Header.erase m'.unprotected = Header.erase m.unprotected ∧
      m'.payload = m.payload ∧ m'.tag = m.tag ∧ eraseRcps m'.recipients = eraseRcps m.recipients :=
  mac_built_bytes m k j hk hj hp hu hr hpn hun hrn hrl hpl htg

/-- non-vacuity: a recipient holding one nested recipient meets the field-level conditions with budget 4. -/
example : CoseRecipient.NF 4 (.mk (.mk none Header.default) Header.default (some [1]) [.mk (.mk none Header.default) Header.default none []]) := by
  have t : ∀ k, TypedN k none [] none [] [] [] := fun k => ⟨by simp, by simp, by simp, by simp⟩
  simp [CoseRecipient.NF, rcpsNF, ProtectedHeader.NF, Header.NF, Header.default, Header.isEmpty, RestN, csNF, t]

/-- KDF context: byte-level round trip from field-level conditions. -/
theorem kdf_bytes_from_fields (k : CoseKdfContext) (hw : k.WF) (hn : CoseKdfContext.NF k) :
    ∃ bs k', toVec CoseKdfContext.toValue k = .ok bs ∧ fromSlice CoseKdfContext.fromValue bs = .ok k' ∧
      k'.algorithmId = k.algorithmId ∧ k'.partyUInfo = k.partyUInfo ∧ k'.partyVInfo = k.partyVInfo ∧ k'.suppPrivInfo = k.suppPrivInfo ∧
      k'.suppPubInfo.keyDataLength = k.suppPubInfo.keyDataLength ∧ k'.suppPubInfo.other = k.suppPubInfo.other ∧
      ProtectedHeader.erase k'.suppPubInfo.protected_ = ProtectedHeader.erase k.suppPubInfo.protected_ := kdf_built_bytes k hw hn

theorem claims_bytes_from_fields (c : ClaimsSet) (k : Nat) (hk : k + 1 ≤ Cbor.recursionLimit) (hw : c.WF) (hn : ClaimsSet.NF k c) :
    ∃ bs, toVec ClaimsSet.toValue c = .ok bs ∧ fromSlice ClaimsSet.fromValue bs = .ok c := claims_built_bytes c k hk hw hn

/-- non-vacuity: the header of the earlier example (algorithm, key id, one extra parameter) satisfies the field-level conditions. -/
example : Header.NF 0 (.mk (some (.assigned Gen.idx_Algorithm_ES256)) [] none [1, 2] [] [] [] [(.int 100, .int 1)]) := by
  refine ⟨⟨?_, by simp, by simp, by simp⟩, ⟨by simp, ?_⟩, by simp [csNF]⟩
  · intro a ha; cases ha; simp only [RegPrivN]; decide +kernel
  · intro p hp; simp at hp; subst hp
    exact ⟨by simp [LabelN, i64Min, i64Max], by simp [Cbor.Normal], by simp [Cbor.depthOf]⟩

/-! ### non-vacuity -/

/-- a header with an algorithm, a key id and an extra parameter is well-formed at the API's nesting budget. -/
example : Header.WF maxNest (.mk (some (.assigned Gen.idx_Algorithm_ES256)) [] none [1, 2] [] [] [] [(.int 100, .int 1)]) := by
  refine ⟨⟨?_, by simp, by simp, by simp⟩, ⟨by simp, ?_, ?_⟩, by simp, by simp [sigsWF]⟩
  · intro a ha; cases ha; simp only [GoodRegPriv]; decide +kernel
  · intro l hl; simp at hl; subst hl; decide
  · intro l hl; simp at hl; subst hl; simp [LabelGood, i64Min, i64Max]

/-- a protected header holding only an extra parameter is *not* encoded as the empty string. -/
example : (match ProtectedHeader.cborBstr (.mk none (.mk none [] none [] [] [] [] [(.int 100, .int 1)])) with
    | .ok (.bytes b) => b == [0xa1, 0x18, 0x64, 0x01]
    | _ => false) = true := by decide +kernel


#print axioms header_emits
#print axioms typed_entries
#print axioms typed_labels_once
#print axioms counter_signature_forms
#print axioms isEmpty_iff
#print axioms protected_emits
#print axioms header
#print axioms header_any_budget
#print axioms protected_header
#print axioms signature
#print axioms sign1
#print axioms sign
#print axioms mac0
#print axioms mac
#print axioms encrypt0
#print axioms encrypt
#print axioms recipient
#print axioms recipient_slot_omitted
#print axioms key
#print axioms keyset
#print axioms claims
#print axioms party_info
#print axioms supp_pub_info
#print axioms kdf_context
#print axioms label
#print axioms bytes
#print axioms tagged_bytes
#print axioms header_emits_normal
#print axioms signature_emits_normal
#print axioms sign1_bytes_from_fields
#print axioms key_bytes_from_fields
#print axioms mac0_bytes_from_fields
#print axioms encrypt0_bytes_from_fields
#print axioms sign_bytes_from_fields
#print axioms encrypt_bytes_from_fields
#print axioms mac_bytes_from_fields
#print axioms kdf_bytes_from_fields
#print axioms claims_bytes_from_fields

end Coset.Props.C11
