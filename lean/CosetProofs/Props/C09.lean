/-
  C09 — message structures: accepted iff they match their CDDL, slots map to fields.
  (Both directions, for all eight structures; the per-slot rules for headers are C08's.)
-/
import CosetProofs.Shapes
import CosetProofs.Cbor.Encodings
namespace Coset.Props.C09
open Coset

theorem CoseSign1 (v : Value) (m : CoseSign1) :
    CoseSign1.fromValue v = .ok m ↔
      ∃ x0 x1 x2, v = .array [x0, x1, x2, .bytes m.signature] ∧ phFromBstr x0 = .ok m.protected_ ∧
        hdrFromValue x1 = .ok m.unprotected ∧ optBytes x2 = .ok m.payload := sign1_ok_iff v m

theorem CoseMac0 (v : Value) (m : CoseMac0) :
    CoseMac0.fromValue v = .ok m ↔
      ∃ x0 x1 x2, v = .array [x0, x1, x2, .bytes m.tag] ∧ phFromBstr x0 = .ok m.protected_ ∧
        hdrFromValue x1 = .ok m.unprotected ∧ optBytes x2 = .ok m.payload := mac0_ok_iff v m

theorem CoseEncrypt0 (v : Value) (m : CoseEncrypt0) :
    CoseEncrypt0.fromValue v = .ok m ↔
      ∃ x0 x1 x2, v = .array [x0, x1, x2] ∧ phFromBstr x0 = .ok m.protected_ ∧
        hdrFromValue x1 = .ok m.unprotected ∧ optBytes x2 = .ok m.ciphertext := encrypt0_ok_iff v m

theorem CoseSignature (fuel d : Nat) (v : Value) (s : CoseSignature) :
    CoseSignature.fromValue (fuel + 1) d v = .ok s ↔
      ∃ x0 x1, v = .array [x0, x1, .bytes s.signature] ∧ ProtectedHeader.fromBstr fuel d x0 = .ok s.protected_ ∧
        Header.fromValue fuel d x1 = .ok s.unprotected := signature_ok_iff fuel d v s

theorem CoseSign (v : Value) (m : CoseSign) :
    CoseSign.fromValue v = .ok m ↔
      ∃ x0 x1 x2 sigs, v = .array [x0, x1, x2, .array sigs] ∧ phFromBstr x0 = .ok m.protected_ ∧ hdrFromValue x1 = .ok m.unprotected ∧
        optBytes x2 = .ok m.payload ∧ mapRes (fun s => (sigFromValue s).mapErr .unexpectedItem) sigs = .ok m.signatures := sign_ok_iff v m

theorem CoseMac (v : Value) (m : CoseMac) :
    CoseMac.fromValue v = .ok m ↔
      ∃ x0 x1 x2 rs, v = .array [x0, x1, x2, .bytes m.tag, .array rs] ∧ phFromBstr x0 = .ok m.protected_ ∧ hdrFromValue x1 = .ok m.unprotected ∧
        optBytes x2 = .ok m.payload ∧ mapRes rcpFromValue rs = .ok m.recipients := mac_ok_iff v m

theorem CoseEncrypt (v : Value) (m : CoseEncrypt) :
    CoseEncrypt.fromValue v = .ok m ↔
      ∃ x0 x1 x2 rs, v = .array [x0, x1, x2, .array rs] ∧ phFromBstr x0 = .ok m.protected_ ∧ hdrFromValue x1 = .ok m.unprotected ∧
        optBytes x2 = .ok m.ciphertext ∧ mapRes rcpFromValue rs = .ok m.recipients := encrypt_ok_iff v m

theorem CoseRecipient (fuel : Nat) (v : Value) (p : ProtectedHeader) (u : Header) (ct : Option Bytes) (rcps : List CoseRecipient) :
    CoseRecipient.fromValue (fuel + 1) v = .ok (.mk p u ct rcps) ↔
      (∃ x0 x1 x2, v = .array [x0, x1, x2] ∧ phFromBstr x0 = .ok p ∧ hdrFromValue x1 = .ok u ∧ optBytes x2 = .ok ct ∧ rcps = []) ∨
      (∃ x0 x1 x2 rs, v = .array [x0, x1, x2, .array rs] ∧ phFromBstr x0 = .ok p ∧ hdrFromValue x1 = .ok u ∧ optBytes x2 = .ok ct ∧
        mapRes (CoseRecipient.fromValue fuel) rs = .ok rcps) := recipient_ok_iff fuel v p u ct rcps

/-- the payload / ciphertext slot: a byte string or nil, nil giving an absent value; everything else is rejected. -/
theorem payload_slot (x : Value) (o : Option Bytes) :
    optBytes x = .ok o ↔ ((∃ b, x = .bytes b ∧ o = some b) ∨ (x = .null ∧ o = none)) := by
  cases x <;> simp [optBytes, typeError] <;> exact eq_comm

/-- the protected slot: a byte string that is empty or exactly one encoded well-formed header map (no trailing bytes). -/
theorem protected_slot (fuel d : Nat) (x : Value) (p : ProtectedHeader) :
    ProtectedHeader.fromBstr (fuel + 1) d x = .ok p ↔
      ∃ data, x = .bytes data ∧
        ((data = [] ∧ p = .mk (some []) Header.default) ∨
         (data ≠ [] ∧ ∃ v h, readToValue data = .ok v ∧ Header.fromValue fuel d v = .ok h ∧ p = .mk (some data) h)) :=
  protected_ok_iff fuel d x p

/-- several types share a shape: the same 4-element array is a COSE_Sign1 and a COSE_Mac0, each putting slot i in *its* field i. -/
example : (fromSlice CoseSign1.fromValue [0x84, 0x40, 0xa0, 0x41, 0x01, 0x41, 0x02]).isOk = true ∧
    (fromSlice CoseMac0.fromValue [0x84, 0x40, 0xa0, 0x41, 0x01, 0x41, 0x02]).isOk = true ∧
    (fromSlice CoseEncrypt.fromValue [0x84, 0x40, 0xa0, 0x41, 0x01, 0x41, 0x02]).isOk = false := by decide +kernel


/-! ### "all encodings": the byte-level decoders on any well-formed encoding of an item -/

/-- For every well-formed encoding `b` of an item `v` (any head widths, definite or indefinite lengths, any chunking, bignum forms:
    `Spec.Encodes`), `from_slice` of each of the eight structures gives exactly what the Value-level conversion gives on `v` — so the
    accepted-iff theorems above, stated on items, hold for the bytes of every encoding. -/
theorem bytes_any_encoding (v : Value) (b : Bytes) (h : Spec.Encodes v b) (hd : Cbor.depthOf v ≤ Cbor.recursionLimit) :
    fromSlice CoseSign1.fromValue b = CoseSign1.fromValue v ∧ fromSlice CoseSign.fromValue b = CoseSign.fromValue v ∧
    fromSlice sigFromValue b = sigFromValue v ∧ fromSlice CoseMac.fromValue b = CoseMac.fromValue v ∧
    fromSlice CoseMac0.fromValue b = CoseMac0.fromValue v ∧ fromSlice CoseEncrypt.fromValue b = CoseEncrypt.fromValue v ∧
    fromSlice CoseEncrypt0.fromValue b = CoseEncrypt0.fromValue v ∧ fromSlice rcpFromValue b = rcpFromValue v :=
  ⟨fromSlice_of_encodes _ v b h hd, fromSlice_of_encodes _ v b h hd, fromSlice_of_encodes _ v b h hd, fromSlice_of_encodes _ v b h hd,
   fromSlice_of_encodes _ v b h hd, fromSlice_of_encodes _ v b h hd, fromSlice_of_encodes _ v b h hd, fromSlice_of_encodes _ v b h hd⟩

/-- two encodings of one item are accepted or rejected alike, with the same result, by every structure's decoder
    (several types share a shape: the same bytes decoded as each type). -/
theorem any_two_encodings (v : Value) (b1 b2 : Bytes) (h1 : Spec.Encodes v b1) (h2 : Spec.Encodes v b2) (hd : Cbor.depthOf v ≤ Cbor.recursionLimit) :
    fromSlice CoseSign1.fromValue b1 = fromSlice CoseSign1.fromValue b2 ∧ fromSlice CoseMac0.fromValue b1 = fromSlice CoseMac0.fromValue b2 ∧
    fromSlice CoseEncrypt.fromValue b1 = fromSlice CoseEncrypt.fromValue b2 ∧ fromSlice CoseSign.fromValue b1 = fromSlice CoseSign.fromValue b2 ∧
    fromSlice CoseMac.fromValue b1 = fromSlice CoseMac.fromValue b2 ∧ fromSlice CoseEncrypt0.fromValue b1 = fromSlice CoseEncrypt0.fromValue b2 ∧
    fromSlice sigFromValue b1 = fromSlice sigFromValue b2 ∧ fromSlice rcpFromValue b1 = fromSlice rcpFromValue b2 :=
  ⟨fromSlice_encoding_independent _ v b1 b2 h1 h2 hd, fromSlice_encoding_independent _ v b1 b2 h1 h2 hd, fromSlice_encoding_independent _ v b1 b2 h1 h2 hd,
   fromSlice_encoding_independent _ v b1 b2 h1 h2 hd, fromSlice_encoding_independent _ v b1 b2 h1 h2 hd, fromSlice_encoding_independent _ v b1 b2 h1 h2 hd,
   fromSlice_encoding_independent _ v b1 b2 h1 h2 hd, fromSlice_encoding_independent _ v b1 b2 h1 h2 hd⟩

#print axioms bytes_any_encoding
#print axioms any_two_encodings
#print axioms CoseSign1
#print axioms CoseMac0
#print axioms CoseEncrypt0
#print axioms CoseSignature
#print axioms CoseSign
#print axioms CoseMac
#print axioms CoseEncrypt
#print axioms CoseRecipient
#print axioms payload_slot
#print axioms protected_slot

end Coset.Props.C09
