import CosetModel.Api
namespace Coset.Props.C09

end Coset.Props.C09
