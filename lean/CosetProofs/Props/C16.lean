/-
  C16 — label ordering is a total order equal to CBOR's deterministic key ordering.
-/
import CosetProofs.Order
namespace Coset.Props.C16
open Coset Coset.Cbor

/-- the deterministic encoding of a label. -/
def encLabel (l : Label) : Bytes :=
  match l with
  | .int i => enc (.int i)
  | .text t => enc (.text t)

theorem toVec_eq (l : Label) : Label.toVec l = .ok (encLabel l) := by cases l <;> rfl

/-- length-first-then-bytewise comparison (RFC 7049 §3.9). -/
def lenLex (a b : Bytes) : Ordering := if a.length != b.length then compare a.length b.length else lexCmp a b

def I64 (i : Int) : Prop := i64Min ≤ i ∧ i ≤ i64Max
def ValidLabel : Label → Prop
  | .int i => I64 i
  | .text t => t.length < 2 ^ 64

theorem compare_lt {a b : Int} (h : a < b) : compare a b = .lt := by simp [compare, compareOfLessAndEq, h]
theorem compare_gt {a b : Int} (h : b < a) : compare a b = .gt := by
  have h1 : ¬ a < b := by omega
  have h2 : ¬ a = b := by omega
  simp [compare, compareOfLessAndEq, h1, h2]
theorem compare_self (a : Int) : compare a a = .eq := by simp [compare, compareOfLessAndEq]
theorem compare_nat_lt {a b : Nat} (h : a < b) : compare a b = .lt := Nat.compare_eq_lt.mpr h
theorem compare_nat_gt {a b : Nat} (h : b < a) : compare a b = .gt := Nat.compare_eq_gt.mpr h

theorem lex_gt_of_lt (a b : Bytes) (h : lexCmp b a = .lt) : lexCmp a b = .gt := by
  rw [lexCmp_swap b a, h]; rfl

theorem head_lt (mj n m : Nat) (hmj : mj < 8) (hm : m < 2 ^ 64) (h : n < m) : lexCmp (encHead mj n) (encHead mj m) = .lt := by
  simpa using lexCmp_encHead_lt mj n m hmj hm h [] []
theorem head_major (m1 m2 n1 n2 : Nat) (h : m1 < m2) (h2 : m2 < 8) (y : Bytes) : lexCmp (encHead m1 n1) (encHead m2 n2 ++ y) = .lt := by
  simpa using lexCmp_encHead_major m1 m2 n1 n2 h h2 [] y

/-- the order `Label::cmp` computes on integers, written out. -/
def intOrd (i1 i2 : Int) : Ordering :=
  if i1 < 0 then (if i2 < 0 then compare i2 i1 else .gt) else (if i2 < 0 then .lt else compare i1 i2)

theorem cmp_int (i1 i2 : Int) : Label.cmp (.int i1) (.int i2) = .ok (intOrd i1 i2) := by
  simp only [Label.cmp, signum, intOrd]
  by_cases n1 : i1 < 0 <;> by_cases n2 : i2 < 0 <;> by_cases z1 : i1 = 0 <;> by_cases z2 : i2 = 0 <;>
    simp [n1, n2, z1, z2] <;> (try omega)
  · exact (compare_lt (by omega)).symm
  · exact (compare_gt (by omega)).symm

theorem lex_int (i1 i2 : Int) (h1 : I64 i1) (h2 : I64 i2) : lexCmp (enc (.int i1)) (enc (.int i2)) = intOrd i1 i2 := by
  simp only [I64, i64Min, i64Max] at h1 h2
  simp only [enc, intOrd]
  by_cases n1 : i1 < 0
  · have e1 : ¬ (0 ≤ i1) := by omega
    by_cases n2 : i2 < 0
    · have e2 : ¬ (0 ≤ i2) := by omega
      simp only [n1, n2, e1, e2, if_true, if_false]
      by_cases hlt : i2 < i1
      · rw [compare_lt hlt, head_lt 1 _ _ (by decide) (by omega) (by omega)]
      · by_cases hgt : i1 < i2
        · rw [compare_gt hgt, lex_gt_of_lt _ _ (head_lt 1 _ _ (by decide) (by omega) (by omega))]
        · have : i1 = i2 := by omega
          subst this; rw [compare_self, lexCmp_refl]
    · have e2 : 0 ≤ i2 := by omega
      simp only [n1, n2, e1, e2, if_true, if_false]
      exact lex_gt_of_lt _ _ (by simpa using head_major 0 1 i2.toNat (-1 - i1).toNat (by decide) (by decide) [])
  · have e1 : 0 ≤ i1 := by omega
    by_cases n2 : i2 < 0
    · have e2 : ¬ (0 ≤ i2) := by omega
      simp only [n1, n2, e1, e2, if_true, if_false]
      simpa using head_major 0 1 i1.toNat (-1 - i2).toNat (by decide) (by decide) []
    · have e2 : 0 ≤ i2 := by omega
      simp only [n1, n2, e1, e2, if_true, if_false]
      by_cases hlt : i1 < i2
      · rw [compare_lt hlt, head_lt 0 _ _ (by decide) (by omega) (by omega)]
      · by_cases hgt : i2 < i1
        · rw [compare_gt hgt, lex_gt_of_lt _ _ (head_lt 0 _ _ (by decide) (by omega) (by omega))]
        · have : i1 = i2 := by omega
          subst this; rw [compare_self, lexCmp_refl]

/-- C16: `Label::cmp` is bytewise lexicographic comparison of the deterministic encodings (and never panics). -/
theorem cmp_is_lex (a b : Label) (ha : ValidLabel a) (hb : ValidLabel b) :
    Label.cmp a b = .ok (lexCmp (encLabel a) (encLabel b)) := by
  cases a with
  | int i1 =>
    cases b with
    | int i2 => rw [cmp_int]; simp only [encLabel]; rw [lex_int i1 i2 ha hb]
    | text t2 =>
      simp only [Label.cmp, encLabel, enc]
      by_cases e1 : 0 ≤ i1
      · simp only [e1, if_true]; rw [head_major 0 3 _ _ (by decide) (by decide)]
      · simp only [e1, if_false]; rw [head_major 1 3 _ _ (by decide) (by decide)]
  | text t1 =>
    cases b with
    | int i2 =>
      simp only [Label.cmp, encLabel, enc]
      by_cases e2 : 0 ≤ i2
      · simp only [e2, if_true]; rw [lex_gt_of_lt _ _ (head_major 0 3 _ _ (by decide) (by decide) t1)]
      · simp only [e2, if_false]; rw [lex_gt_of_lt _ _ (head_major 1 3 _ _ (by decide) (by decide) t1)]
    | text t2 =>
      simp only [ValidLabel] at ha hb
      simp only [Label.cmp, textCmp, encLabel, enc]
      by_cases hlt : t1.length < t2.length
      · rw [compare_nat_lt hlt, lexCmp_encHead_lt 3 _ _ (by decide) hb hlt]; rfl
      · by_cases hgt : t2.length < t1.length
        · rw [compare_nat_gt hgt, lex_gt_of_lt _ _ (lexCmp_encHead_lt 3 _ _ (by decide) ha hgt t2 t1)]; rfl
        · have : t1.length = t2.length := by omega
          rw [this, lexCmp_append_left]; simp [Ordering.then]

/-- the deterministic encoding determines the label (injectivity), so `cmp = Equal` exactly for equal labels. -/
theorem encLabel_injective (a b : Label) (ha : ValidLabel a) (hb : ValidLabel b) (h : encLabel a = encLabel b) : a = b := by
  have h := (lexCmp_eq_iff _ _).mpr h
  rw [← Res.ok.injEq, ← cmp_is_lex a b ha hb] at h
  cases a with
  | int i1 =>
    cases b with
    | int i2 =>
      rw [cmp_int] at h
      simp only [Res.ok.injEq, intOrd] at h
      have key : i1 = i2 := by
        by_cases n1 : i1 < 0 <;> by_cases n2 : i2 < 0 <;> simp [n1, n2] at h
        · exact h.symm
        · exact h
      rw [key]
    | text t2 => simp [Label.cmp] at h
  | text t1 =>
    cases b with
    | int i2 => simp [Label.cmp] at h
    | text t2 =>
      simp only [Label.cmp, textCmp, Res.ok.injEq] at h
      by_cases hl : t1.length = t2.length
      · simp [hl, Ordering.then] at h
        rw [(lexCmp_eq_iff _ _).mp h]
      · have : compare t1.length t2.length ≠ .eq := by simpa [Nat.compare_eq_eq] using hl
        cases hc : compare t1.length t2.length <;> simp_all [Ordering.then]

/-- C16 (total order consistent with equality): reflexive-equal, equal only when identical, antisymmetric, transitive. -/
theorem cmp_eq_iff (a b : Label) (ha : ValidLabel a) (hb : ValidLabel b) : Label.cmp a b = .ok .eq ↔ a = b := by
  rw [cmp_is_lex a b ha hb]
  constructor
  · intro h; simp only [Res.ok.injEq] at h
    exact encLabel_injective a b ha hb ((lexCmp_eq_iff _ _).mp h)
  · intro h; subst h; simp [lexCmp_refl]

theorem cmp_swap (a b : Label) (ha : ValidLabel a) (hb : ValidLabel b) (o : Ordering) (h : Label.cmp a b = .ok o) :
    Label.cmp b a = .ok o.swap := by
  rw [cmp_is_lex a b ha hb] at h; rw [cmp_is_lex b a hb ha]
  simp only [Res.ok.injEq] at h ⊢
  rw [lexCmp_swap, h]

theorem lexCmp_trans (a b c : Bytes) (h1 : lexCmp a b = .lt) (h2 : lexCmp b c = .lt) : lexCmp a c = .lt := by
  induction a generalizing b c with
  | nil => cases b <;> cases c <;> simp_all [lexCmp]
  | cons x xs ih =>
    cases b with
    | nil => simp [lexCmp] at h1
    | cons y ys =>
      cases c with
      | nil => simp [lexCmp] at h2
      | cons z zs =>
        simp only [lexCmp] at h1 h2 ⊢
        by_cases xy : x < y
        · by_cases yz : y < z
          · simp [UInt8.lt_trans xy yz]
          · by_cases zy : z < y
            · simp [yz, zy] at h2
            · have : y = z := UInt8.le_antisymm (UInt8.not_lt.mp zy) (UInt8.not_lt.mp yz)
              subst this; simp [xy]
        · by_cases yx : y < x
          · simp [xy, yx] at h1
          · have : x = y := UInt8.le_antisymm (UInt8.not_lt.mp yx) (UInt8.not_lt.mp xy)
            subst this
            simp only [xy, if_false] at h1
            by_cases yz : x < z
            · simp [yz]
            · by_cases zy : z < x
              · simp [yz, zy] at h2
              · simp only [yz, zy, if_false] at h2 ⊢
                exact ih ys zs h1 h2

theorem cmp_trans (a b c : Label) (ha : ValidLabel a) (hb : ValidLabel b) (hc : ValidLabel c)
    (h1 : Label.cmp a b = .ok .lt) (h2 : Label.cmp b c = .ok .lt) : Label.cmp a c = .ok .lt := by
  rw [cmp_is_lex a b ha hb] at h1; rw [cmp_is_lex b c hb hc] at h2; rw [cmp_is_lex a c ha hc]
  simp only [Res.ok.injEq] at h1 h2 ⊢
  exact lexCmp_trans _ _ _ h1 h2

/-- C16 (canonical order): `cmp_canonical` is length-first-then-bytewise comparison of the encodings, and never panics. -/
theorem cmp_canonical_is_lenlex (a b : Label) : Label.cmpCanonical a b = .ok (lenLex (encLabel a) (encLabel b)) := by
  simp only [Label.cmpCanonical, toVec_eq, lenLex]
  split <;> rfl

theorem cmp_canonical_eq_iff (a b : Label) (ha : ValidLabel a) (hb : ValidLabel b) :
    Label.cmpCanonical a b = .ok .eq ↔ a = b := by
  rw [cmp_canonical_is_lenlex]
  constructor
  · intro h
    simp only [lenLex, Res.ok.injEq] at h
    by_cases hl : (encLabel a).length = (encLabel b).length
    · simp [hl] at h; exact encLabel_injective a b ha hb ((lexCmp_eq_iff _ _).mp h)
    · simp [hl, Nat.compare_eq_eq] at h
  · intro h; subst h; simp [lenLex, lexCmp_refl]

/-! ### registry-restricted labels: the same comparison through the registered integer -/
def regEnc (R : Registry) : RegLabel → Label
  | .assigned k => .int (R.toI64 k)
  | .text t => .text t
def regPrivEnc (R : Registry) : RegLabelPriv → Label
  | .assigned k => .int (R.toI64 k)
  | .privateUse i => .int i
  | .text t => .text t

/-! ### `cmp_canonical` is a lawful strict total order too (swap and transitivity; `cmp_canonical_eq_iff` is its equality law) -/
theorem lenLex_swap (a b : Bytes) : lenLex b a = (lenLex a b).swap := by
  unfold lenLex
  by_cases hl : a.length < b.length
  · have h1 : (a.length != b.length) = true := by simp; omega
    have h2 : (b.length != a.length) = true := by simp; omega
    simp only [h1, h2, if_true, compare_nat_lt hl, compare_nat_gt hl, Ordering.swap]
  · by_cases hg : b.length < a.length
    · have h1 : (a.length != b.length) = true := by simp; omega
      have h2 : (b.length != a.length) = true := by simp; omega
      simp only [h1, h2, if_true, compare_nat_lt hg, compare_nat_gt hg, Ordering.swap]
    · have he : a.length = b.length := by omega
      simp only [he, bne_self_eq_false, Bool.false_eq_true, if_false]
      exact lexCmp_swap a b

theorem lenLex_lt_iff (a b : Bytes) : lenLex a b = .lt ↔ (a.length < b.length ∨ (a.length = b.length ∧ lexCmp a b = .lt)) := by
  unfold lenLex
  by_cases hl : a.length < b.length
  · have h1 : (a.length != b.length) = true := by simp; omega
    simp [h1, compare_nat_lt hl, hl]
  · by_cases hg : b.length < a.length
    · have h1 : (a.length != b.length) = true := by simp; omega
      simp only [h1, if_true, compare_nat_gt hg]
      constructor
      · intro h; cases h
      · intro h; omega
    · have he : a.length = b.length := by omega
      simp [he]

theorem lenLex_trans (a b c : Bytes) (h1 : lenLex a b = .lt) (h2 : lenLex b c = .lt) : lenLex a c = .lt := by
  rw [lenLex_lt_iff] at h1 h2 ⊢
  rcases h1 with h1 | ⟨e1, l1⟩ <;> rcases h2 with h2 | ⟨e2, l2⟩
  · left; omega
  · left; omega
  · left; omega
  · right; exact ⟨by omega, lexCmp_trans _ _ _ l1 l2⟩

theorem cmp_canonical_swap (a b : Label) (o : Ordering) (h : Label.cmpCanonical a b = .ok o) :
    Label.cmpCanonical b a = .ok o.swap := by
  rw [cmp_canonical_is_lenlex] at h ⊢
  simp only [Res.ok.injEq] at h ⊢
  rw [lenLex_swap, h]

theorem cmp_canonical_trans (a b c : Label)
    (h1 : Label.cmpCanonical a b = .ok .lt) (h2 : Label.cmpCanonical b c = .ok .lt) : Label.cmpCanonical a c = .ok .lt := by
  rw [cmp_canonical_is_lenlex] at h1 h2 ⊢
  simp only [Res.ok.injEq] at h1 h2 ⊢
  exact lenLex_trans _ _ _ h1 h2

/-- trichotomy, both orders: two serialisable labels are equal or strictly ordered one way — never incomparable. -/
theorem cmp_trichotomy (a b : Label) (ha : ValidLabel a) (hb : ValidLabel b) :
    Label.cmp a b = .ok .lt ∨ a = b ∨ Label.cmp b a = .ok .lt := by
  have hs := cmp_swap a b ha hb
  have he := cmp_eq_iff a b ha hb
  rw [cmp_is_lex a b ha hb] at hs he ⊢
  cases h : lexCmp (encLabel a) (encLabel b)
  · left; rfl
  · right; left; exact he.mp (by rw [h])
  · right; right; have := hs .gt (by rw [h]); simpa [Ordering.swap] using this

theorem cmp_canonical_trichotomy (a b : Label) (ha : ValidLabel a) (hb : ValidLabel b) :
    Label.cmpCanonical a b = .ok .lt ∨ a = b ∨ Label.cmpCanonical b a = .ok .lt := by
  have hs := cmp_canonical_swap a b
  have he := cmp_canonical_eq_iff a b ha hb
  rw [cmp_canonical_is_lenlex] at hs he ⊢
  cases h : lenLex (encLabel a) (encLabel b)
  · left; rfl
  · right; left; exact he.mp (by rw [h])
  · right; right; have := hs .gt (by rw [h]); simpa [Ordering.swap] using this

theorem registered_cmp (R : Registry) (a b : RegLabel) (ha : ValidLabel (regEnc R a)) (hb : ValidLabel (regEnc R b)) :
    RegLabel.cmp R a b = .ok (lexCmp (encLabel (regEnc R a)) (encLabel (regEnc R b))) := by
  cases a <;> cases b <;> simp only [RegLabel.cmp, regEnc] at *
  · exact cmp_is_lex _ _ ha hb
  · simpa [Label.cmp] using cmp_is_lex (.int _) (.text _) ha hb
  · simpa [Label.cmp] using cmp_is_lex (.text _) (.int _) ha hb
  · simpa [Label.cmp] using cmp_is_lex (.text _) (.text _) ha hb

theorem registered_private_cmp (R : Registry) (a b : RegLabelPriv) (ha : ValidLabel (regPrivEnc R a)) (hb : ValidLabel (regPrivEnc R b)) :
    RegLabelPriv.cmp R a b = .ok (lexCmp (encLabel (regPrivEnc R a)) (encLabel (regPrivEnc R b))) := by
  cases a <;> cases b <;> simp only [RegLabelPriv.cmp, regPrivEnc] at * <;>
    first
    | exact cmp_is_lex _ _ ha hb
    | (simpa [Label.cmp] using cmp_is_lex _ _ ha hb)

/-- without the "as produced by decoding or the builders" side condition equality and comparison can disagree:
    `Assigned(RS1)` and `PrivateUse(-65535)` compare equal but are different values. -/
example : RegLabelPriv.cmp Reg.algorithm (.assigned Gen.idx_Algorithm_RS1) (.privateUse (-65535)) = .ok .eq ∧
    (RegLabelPriv.assigned Gen.idx_Algorithm_RS1 ≠ .privateUse (-65535)) := by decide

/-- non-vacuity: the boundary pairs of the 0.3.7 bug — 23 < 24 < 255 < 256, -24 < -25 in encoded order, ints before text. -/
example : Label.cmp (.int 23) (.int 24) = .ok .lt ∧ Label.cmp (.int 255) (.int 256) = .ok .lt ∧ Label.cmp (.int (-24)) (.int (-25)) = .ok .lt ∧
    Label.cmp (.int (-1)) (.int 1000000) = .ok .gt ∧ Label.cmp (.int 5) (.text []) = .ok .lt ∧
    Label.cmpCanonical (.int 256) (.int (-1)) = .ok .gt ∧ Label.cmp (.int 256) (.int (-1)) = .ok .lt := by decide

#print axioms cmp_is_lex
#print axioms encLabel_injective
#print axioms cmp_eq_iff
#print axioms cmp_swap
#print axioms cmp_trans
#print axioms cmp_canonical_is_lenlex
#print axioms cmp_canonical_eq_iff
#print axioms cmp_canonical_swap
#print axioms cmp_canonical_trans
#print axioms cmp_trichotomy
#print axioms cmp_canonical_trichotomy
#print axioms registered_cmp
#print axioms registered_private_cmp

end Coset.Props.C16
