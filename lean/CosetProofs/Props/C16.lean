import CosetModel.Api
namespace Coset.Props.C16

end Coset.Props.C16
