/- C13: ties to the source text.  Built and audited together with Props/C13.lean by check.py, but in a module of its own, so that a
   changed textual fact breaks the obligations of the properties that own it and not those of every module that imports their lemmas. -/
import CosetProofs.Ties.Serializable
import CosetProofs.Ties.Compare.Common
namespace Coset.Props.C13

/-! ### ties to the source text (regenerated on every run, compared in the kernel with the transcribed tree) -/
/-- no type overrides a provided method of `CborSerializable` / `TaggedCborSerializable`. -/
theorem tie_serializable_impls : Coset.Gen.serializableImpls = Coset.Pinned.serializableImpls := Coset.Ties.serializable_impls
/-- the bodies of `from_slice`, `to_vec`, `from_tagged_slice`, `to_tagged_vec` and `read_to_value` are the ones the model transcribes. -/
theorem tie_default_bodies : Coset.Gen.defaultBodies = Coset.Pinned.defaultBodies := Coset.Ties.default_bodies

#print axioms tie_serializable_impls
#print axioms tie_default_bodies

/-! comparisons and integer literals of the modules this property is anchored in (properties.jsonl): none beyond the transcribed tree's -/
theorem tie_compare_common : Coset.Ties.compareCovered "common" Coset.Gen.decisionBudget Coset.Pinned.decisionBudget = true := Coset.Ties.compare_common

#print axioms tie_compare_common

end Coset.Props.C13
