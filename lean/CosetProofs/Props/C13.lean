/-
  C13 — an accepted input is exactly one CBOR item; byte and Value APIs agree.
  Property statements only (helper lemmas: CosetProofs/Cbor/*).
-/
import CosetProofs.Cbor.ParseAppend
import CosetModel.Api
namespace Coset.Props.C13
open Coset Coset.Cbor

/-- the parser consumed exactly the accepted input. -/
theorem readToValue_ok_iff (bs : Bytes) (v : Value) : readToValue bs = .ok v ↔ fromReader bs = .ok (v, []) := by
  unfold readToValue
  cases h : fromReader bs with
  | ok p =>
    obtain ⟨w, r⟩ := p
    cases r with
    | nil => simp
    | cons a t => simp
  | err => simp
  | oof => simp

/-- appending any non-empty suffix to an accepted input: `ExtraneousData`, before any conversion is attempted. -/
theorem suffix_value (bs s : Bytes) (v : Value) (h : readToValue bs = .ok v) (hs : s ≠ []) :
    readToValue (bs ++ s) = .err .extraneousData := by
  rw [readToValue_ok_iff] at h
  have := fromReader_append bs s v [] h
  unfold readToValue
  rw [this]
  cases s with
  | nil => exact absurd rfl hs
  | cons a t => simp

/-- C13 (suffix), for every type's `from_slice` (`conv` is that type's `from_cbor_value`). -/
theorem suffix {α : Type} (conv : Value → Res α) (bs s : Bytes) (x : α)
    (h : fromSlice conv bs = .ok x) (hs : s ≠ []) : fromSlice conv (bs ++ s) = .err .extraneousData := by
  unfold fromSlice at h ⊢
  cases hr : readToValue bs with
  | ok v => rw [suffix_value bs s v hr hs]
  | err e => simp [hr] at h
  | panic p => simp [hr] at h

theorem suffix_of_isOk {α : Type} (conv : Value → Res α) (bs s : Bytes)
    (h : (fromSlice conv bs).isOk = true) (hs : s ≠ []) : fromSlice conv (bs ++ s) = .err .extraneousData := by
  cases hx : fromSlice conv bs with
  | ok x => exact suffix conv bs s x hx hs
  | err e => simp [hx, Res.isOk] at h
  | panic p => simp [hx, Res.isOk] at h

/-- the same through `from_tagged_slice`. -/
theorem suffix_tagged {α : Type} (tag : Nat) (conv : Value → Res α) (bs s : Bytes) (x : α)
    (h : fromTaggedSlice tag conv bs = .ok x) (hs : s ≠ []) : fromTaggedSlice tag conv (bs ++ s) = .err .extraneousData := by
  unfold fromTaggedSlice at h ⊢
  cases hr : readToValue bs with
  | ok v => rw [suffix_value bs s v hr hs]
  | err e => simp [hr] at h
  | panic p => simp [hr] at h

/-- no proper prefix of an accepted input parses as a complete item. -/
theorem prefix_value (bs : Bytes) (v : Value) (k : Nat) (h : readToValue bs = .ok v) (hk : k < bs.length) :
    ∀ w, readToValue (bs.take k) ≠ .ok w := by
  intro w hw
  rw [readToValue_ok_iff] at h hw
  have := fromReader_append (bs.take k) (bs.drop k) w [] hw
  rw [List.take_append_drop] at this
  rw [h] at this
  simp at this
  omega

/-- C13 (prefix), for every type's `from_slice`: a proper prefix of an accepted input is never accepted. -/
theorem prefix_rejected {α : Type} (conv : Value → Res α) (bs : Bytes) (x : α) (k : Nat)
    (h : fromSlice conv bs = .ok x) (hk : k < bs.length) : ∀ y, fromSlice conv (bs.take k) ≠ .ok y := by
  intro y hy
  unfold fromSlice at h hy
  cases hr : readToValue bs with
  | ok v =>
    cases hr2 : readToValue (bs.take k) with
    | ok w => exact prefix_value bs v k hr hk w hr2
    | err e => simp [hr2] at hy
    | panic p => simp [hr2] at hy
  | err e => simp [hr] at h
  | panic p => simp [hr] at h

theorem prefix_rejected_tagged {α : Type} (tag : Nat) (conv : Value → Res α) (bs : Bytes) (x : α) (k : Nat)
    (h : fromTaggedSlice tag conv bs = .ok x) (hk : k < bs.length) : ∀ y, fromTaggedSlice tag conv (bs.take k) ≠ .ok y := by
  intro y hy
  unfold fromTaggedSlice at h hy
  cases hr : readToValue bs with
  | ok v =>
    cases hr2 : readToValue (bs.take k) with
    | ok w => exact prefix_value bs v k hr hk w hr2
    | err e => simp [hr2] at hy
    | panic p => simp [hr2] at hy
  | err e => simp [hr] at h
  | panic p => simp [hr] at h

/-- layering: byte-level decoding is CBOR-parsing then converting; byte-level encoding is converting then serialising. -/
theorem layering_decode {α : Type} (conv : Value → Res α) (bs : Bytes) :
    fromSlice conv bs = (readToValue bs >>= conv) := by
  unfold fromSlice; cases readToValue bs <;> rfl

theorem layering_encode {α : Type} (toV : α → Res Value) (x : α) :
    toVec toV x = (toV x >>= fun v => .ok (enc v)) := by
  unfold toVec; cases toV x <;> rfl

theorem layering_decode_tagged {α : Type} (tag : Nat) (conv : Value → Res α) (bs : Bytes) :
    fromTaggedSlice tag conv bs =
      (readToValue bs >>= fun v => tryAsTag v >>= fun p => if p.1 != tag then .err .unexpectedItem else conv p.2) := by
  unfold fromTaggedSlice
  cases readToValue bs with
  | ok v => simp only [Res.bind_ok]; cases tryAsTag v <;> rfl
  | err e => rfl
  | panic p => rfl

theorem layering_encode_tagged {α : Type} (tag : Nat) (toV : α → Res Value) (x : α) :
    toTaggedVec tag toV x = (toV x >>= fun v => .ok (enc (.tag tag v))) := by
  unfold toTaggedVec; cases toV x <;> rfl

/-- instances for the message types (the statements above hold for every `conv`; these pin the ones the crate has). -/
theorem suffix_CoseSign1 (bs s : Bytes) (x : CoseSign1) (h : fromSlice CoseSign1.fromValue bs = .ok x) (hs : s ≠ []) :
    fromSlice CoseSign1.fromValue (bs ++ s) = .err .extraneousData := suffix _ bs s x h hs
theorem suffix_Header (bs s : Bytes) (x : Header) (h : fromSlice hdrFromValue bs = .ok x) (hs : s ≠ []) :
    fromSlice hdrFromValue (bs ++ s) = .err .extraneousData := suffix _ bs s x h hs
theorem suffix_tagged_CoseSign1 (bs s : Bytes) (x : CoseSign1) (h : fromTaggedSlice Gen.TAG_CoseSign1 CoseSign1.fromValue bs = .ok x)
    (hs : s ≠ []) : fromTaggedSlice Gen.TAG_CoseSign1 CoseSign1.fromValue (bs ++ s) = .err .extraneousData :=
  suffix_tagged _ _ bs s x h hs

/-- non-vacuity: an accepted COSE_Sign1 (`84 40 a0 f6 40`), a one-byte suffix, and each proper prefix. -/
example : (fromSlice CoseSign1.fromValue [0x84, 0x40, 0xa0, 0xf6, 0x40]).isOk = true := by decide +kernel
example : fromSlice CoseSign1.fromValue ([0x84, 0x40, 0xa0, 0xf6, 0x40] ++ [0x00]) = .err .extraneousData :=
  suffix_of_isOk _ _ [0x00] (by decide +kernel) (by simp)
example : (fromSlice CoseSign1.fromValue ([0x84, 0x40, 0xa0, 0xf6, 0x40].take 4)).isOk = false := by decide +kernel


#print axioms suffix
#print axioms suffix_tagged
#print axioms suffix_of_isOk
#print axioms prefix_rejected
#print axioms prefix_rejected_tagged
#print axioms layering_decode
#print axioms layering_encode
#print axioms layering_decode_tagged
#print axioms layering_encode_tagged
#print axioms suffix_CoseSign1
#print axioms suffix_Header
#print axioms suffix_tagged_CoseSign1

end Coset.Props.C13
