import CosetModel.Api
namespace Coset.Props.C13

end Coset.Props.C13
