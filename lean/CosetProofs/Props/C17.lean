import CosetModel.Api
namespace Coset.Props.C17

end Coset.Props.C17
