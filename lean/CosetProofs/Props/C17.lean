/-
  C17 — registry names and integers correspond one-to-one with the IANA assignments.
  The tables `Coset.Gen.*` are regenerated from /repo/src/iana/mod.rs on every run; every statement below is
  re-proved against them.
-/
import CosetModel.Label
import CosetRef.Iana
namespace Coset.Props.C17
open Coset

/-! ### the source's tables equal the pinned reference (name by name, value by value) -/
theorem matches_reference_HeaderParameter : Gen.HeaderParameter = Ref.HeaderParameter := by decide
theorem matches_reference_HeaderAlgorithmParameter : Gen.HeaderAlgorithmParameter = Ref.HeaderAlgorithmParameter := by decide
theorem matches_reference_Algorithm : Gen.Algorithm = Ref.Algorithm := by decide +kernel
theorem matches_reference_KeyParameter : Gen.KeyParameter = Ref.KeyParameter := by decide
theorem matches_reference_KeyType : Gen.KeyType = Ref.KeyType := by decide
theorem matches_reference_Ec2KeyParameter : Gen.Ec2KeyParameter = Ref.Ec2KeyParameter := by decide
theorem matches_reference_OkpKeyParameter : Gen.OkpKeyParameter = Ref.OkpKeyParameter := by decide
theorem matches_reference_RsaKeyParameter : Gen.RsaKeyParameter = Ref.RsaKeyParameter := by decide
theorem matches_reference_SymmetricKeyParameter : Gen.SymmetricKeyParameter = Ref.SymmetricKeyParameter := by decide
theorem matches_reference_HssLmsKeyParameter : Gen.HssLmsKeyParameter = Ref.HssLmsKeyParameter := by decide
theorem matches_reference_WalnutDsaKeyParameter : Gen.WalnutDsaKeyParameter = Ref.WalnutDsaKeyParameter := by decide
theorem matches_reference_EllipticCurve : Gen.EllipticCurve = Ref.EllipticCurve := by decide
theorem matches_reference_KeyOperation : Gen.KeyOperation = Ref.KeyOperation := by decide
theorem matches_reference_CborTag : Gen.CborTag = Ref.CborTag := by decide
theorem matches_reference_CoapContentFormat : Gen.CoapContentFormat = Ref.CoapContentFormat := by decide +kernel
theorem matches_reference_CwtClaimName : Gen.CwtClaimName = Ref.CwtClaimName := by decide

/-- the sixteen registries, and only they. -/
theorem registries_complete : Gen.registries.map (·.1) =
    ["HeaderParameter", "HeaderAlgorithmParameter", "Algorithm", "KeyParameter", "OkpKeyParameter", "Ec2KeyParameter",
     "RsaKeyParameter", "SymmetricKeyParameter", "HssLmsKeyParameter", "WalnutDsaKeyParameter", "KeyType", "EllipticCurve",
     "KeyOperation", "CborTag", "CoapContentFormat", "CwtClaimName"] := by decide

/-! ### no two names share an integer; no name occurs twice -/
def valuesNodup (R : Registry) : Bool := decide ((R.rows.map (·.2)).Nodup)
def namesNodup (R : Registry) : Bool := decide ((R.rows.map (·.1)).Nodup)
theorem values_nodup : Reg.all.all valuesNodup = true := by decide +kernel
theorem names_nodup : Reg.all.all namesNodup = true := by decide +kernel

/-! ### conversions are mutually inverse (generic lemmas, then instantiated with `values_nodup`) -/
theorem findIdx?_eq_some_iff_getElem {α : Type} (p : α → Bool) (l : List α) (k : Nat) (h : l.findIdx? p = some k) :
    ∃ hk : k < l.length, p l[k] = true := by
  rw [List.findIdx?_eq_some_iff_getElem] at h
  exact ⟨h.1, h.2.1⟩

/-- `from_i64 i = Some x → x.to_i64() = i` -/
theorem to_from (R : Registry) (i : Int) (k : Nat) (h : R.fromI64 i = some k) : R.toI64 k = i := by
  unfold Registry.fromI64 at h
  obtain ⟨hk, hp⟩ := findIdx?_eq_some_iff_getElem _ _ _ h
  unfold Registry.toI64
  simp [List.getElem?_eq_getElem hk]
  simpa using hp

/-- `from_i64 (x.to_i64()) = Some x`, for every variant `x` of a registry whose values are pairwise distinct. -/
theorem from_to (R : Registry) (hnd : (R.rows.map (·.2)).Nodup) (k : Nat) (hk : k < R.rows.length) :
    R.fromI64 (R.toI64 k) = some k := by
  unfold Registry.fromI64 Registry.toI64
  simp only [List.getElem?_eq_getElem hk, Option.map_some, Option.getD_some]
  rw [List.findIdx?_eq_some_iff_getElem]
  refine ⟨hk, by simp, ?_⟩
  intro j hj
  simp only [beq_iff_eq]
  intro heq
  have hjk : j < R.rows.length := by omega
  have h1 : (R.rows.map (·.2))[j]'(by simpa using hjk) = (R.rows.map (·.2))[k]'(by simpa using hk) := by simpa using heq
  have := (List.getElem_inj hnd).mp h1
  omega

theorem all_values_nodup (R : Registry) (hR : R ∈ Reg.all) : (R.rows.map (·.2)).Nodup := by
  have h := values_nodup
  rw [List.all_eq_true] at h
  simpa [valuesNodup] using h R hR

/-- C17 (inverse), every registry, every variant, every integer. -/
theorem inverse (R : Registry) (hR : R ∈ Reg.all) :
    (∀ k, k < R.rows.length → R.fromI64 (R.toI64 k) = some k) ∧ (∀ i k, R.fromI64 i = some k → R.toI64 k = i) :=
  ⟨fun k hk => from_to R (all_values_nodup R hR) k hk, fun i k h => to_from R i k h⟩

/-- integer-to-name is injective: two integers mapping to the same name are equal. -/
theorem fromI64_injective (R : Registry) (i j : Int) (k : Nat) (hi : R.fromI64 i = some k) (hj : R.fromI64 j = some k) : i = j := by
  rw [← to_from R i k hi, ← to_from R j k hj]

/-! ### private use: exactly the integers below -65536, in exactly the four registries; no registered value is private -/
theorem private_registries :
    (Reg.all.filter (·.isPrivate.isSome)).map (·.name) = Ref.privateRegistries := by decide

theorem is_private_iff (i : Int) :
    (Reg.headerParameter.private? i = true ↔ i < -65536) ∧ (Reg.algorithm.private? i = true ↔ i < -65536) ∧
    (Reg.ellipticCurve.private? i = true ↔ i < -65536) ∧ (Reg.cwtClaimName.private? i = true ↔ i < -65536) := by
  simp [Registry.private?, Reg.headerParameter, Reg.algorithm, Reg.ellipticCurve, Reg.cwtClaimName,
    Gen.HeaderParameter_isPrivate, Gen.Algorithm_isPrivate, Gen.EllipticCurve_isPrivate, Gen.CwtClaimName_isPrivate]

def noRegisteredPrivate (R : Registry) : Bool := R.rows.all fun p => !(R.private? p.2)
theorem no_registered_value_is_private : Reg.all.all noRegisteredPrivate = true := by decide +kernel

/-! ### classification of label integers (decoding `RegisteredLabel` / `RegisteredLabelWithPrivate`) -/
theorem classify_registered (R : Registry) (i : Int) (hi : i64Min ≤ i ∧ i ≤ i64Max) :
    (∀ k, R.fromI64 i = some k → RegLabel.fromValue R (.int i) = .ok (.assigned k)) ∧
    (R.fromI64 i = none → RegLabel.fromValue R (.int i) = .err .unregisteredIana) := by
  constructor
  · intro k hk; simp [RegLabel.fromValue, narrowI64, hi, hk]
  · intro hk; simp [RegLabel.fromValue, narrowI64, hi, hk]

theorem classify_with_private (R : Registry) (i : Int) (hi : i64Min ≤ i ∧ i ≤ i64Max) :
    (∀ k, R.fromI64 i = some k → RegLabelPriv.fromValue R (.int i) = .ok (.assigned k)) ∧
    (R.fromI64 i = none → R.private? i = true → RegLabelPriv.fromValue R (.int i) = .ok (.privateUse i)) ∧
    (R.fromI64 i = none → R.private? i = false → RegLabelPriv.fromValue R (.int i) = .err .unregisteredIanaNonPrivate) := by
  refine ⟨?_, ?_, ?_⟩
  · intro k hk; simp [RegLabelPriv.fromValue, narrowI64, hi, hk]
  · intro hk hp; simp [RegLabelPriv.fromValue, narrowI64, hi, hk, hp]
  · intro hk hp; simp [RegLabelPriv.fromValue, narrowI64, hi, hk, hp]

/-- out of i64 range: rejected as out of range before any registry lookup (see also C15). -/
theorem classify_out_of_range (R : Registry) (i : Int) (hi : ¬ (i64Min ≤ i ∧ i ≤ i64Max)) :
    RegLabel.fromValue R (.int i) = .err .outOfRange ∧ RegLabelPriv.fromValue R (.int i) = .err .outOfRange := by
  simp [RegLabel.fromValue, RegLabelPriv.fromValue, narrowI64, hi]

theorem classify_text (R : Registry) (t : Bytes) :
    RegLabel.fromValue R (.text t) = .ok (.text t) ∧ RegLabelPriv.fromValue R (.text t) = .ok (.text t) := ⟨rfl, rfl⟩

/-- a decoded `Assigned` label re-encodes to the integer it was decoded from. -/
theorem classify_roundtrip (R : Registry) (i : Int) (k : Nat) (h : RegLabel.fromValue R (.int i) = .ok (.assigned k)) :
    RegLabel.toValue R (.assigned k) = .ok (.int i) := by
  unfold RegLabel.fromValue at h
  cases hn : narrowI64 i with
  | ok n =>
    simp only [hn] at h
    have hni : n = i := by unfold narrowI64 at hn; split at hn <;> simp_all
    cases hf : R.fromI64 n with
    | none => simp [hf] at h
    | some k' =>
      simp [hf] at h; subst h; subst hni
      simp [RegLabel.toValue, to_from R n k' hf]
  | err e => simp [hn] at h
  | panic p => simp [hn] at h

/-- non-vacuity: ES256 is -7 both ways; -65537 is private for algorithms and not registered; -65536 is neither. -/
example : Reg.algorithm.fromI64 (-7) = some Gen.idx_Algorithm_ES256 ∧ Reg.algorithm.toI64 Gen.idx_Algorithm_ES256 = -7 := by decide
example : RegLabelPriv.fromValue Reg.algorithm (.int (-65537)) = .ok (.privateUse (-65537)) := by decide
example : RegLabelPriv.fromValue Reg.algorithm (.int (-65536)) = .err .unregisteredIanaNonPrivate := by decide


#print axioms matches_reference_Algorithm
#print axioms matches_reference_HeaderParameter
#print axioms matches_reference_HeaderAlgorithmParameter
#print axioms matches_reference_KeyParameter
#print axioms matches_reference_KeyType
#print axioms matches_reference_Ec2KeyParameter
#print axioms matches_reference_OkpKeyParameter
#print axioms matches_reference_RsaKeyParameter
#print axioms matches_reference_SymmetricKeyParameter
#print axioms matches_reference_HssLmsKeyParameter
#print axioms matches_reference_WalnutDsaKeyParameter
#print axioms matches_reference_EllipticCurve
#print axioms matches_reference_KeyOperation
#print axioms matches_reference_CborTag
#print axioms matches_reference_CoapContentFormat
#print axioms matches_reference_CwtClaimName
#print axioms registries_complete
#print axioms values_nodup
#print axioms names_nodup
#print axioms inverse
#print axioms fromI64_injective
#print axioms private_registries
#print axioms is_private_iff
#print axioms no_registered_value_is_private
#print axioms classify_registered
#print axioms classify_with_private
#print axioms classify_out_of_range
#print axioms classify_text
#print axioms classify_roundtrip

end Coset.Props.C17
