/-
  C18 — CWT claims sets and KDF contexts decode and encode per their definitions.
  Claims set: accepted ⇔ well-formed (both directions, any wire order), every field = wire value, others kept in order, duplicate ⇒
  DuplicateMapKey.  KDF context, PartyInfo, SuppPubInfo: accepted ⇔ the stated array shape; the emitted value of a decode result is the
  decoded value.  Encoding a well-formed value emits exactly its populated fields and decoding returns it (with C11).
  (`ClaimsSpec.lean` holds the declarative reading `ClaimsOf` and the ⇒ proofs; this file adds the converses and the encode side.)
-/
import CosetProofs.ClaimsSpec
import CosetProofs.Roundtrip.BuiltOther
import CosetProofs.Cbor.Encodings
namespace Coset.Props.C18
open Coset

/-! ### claims set: converse -/

/-- the type rule for one claim (RFC 8392 §3.1). -/
structure ClaimOk (n : RegLabelPriv) (v : Value) : Prop where
  text : (n = cISS ∨ n = cSUB ∨ n = cAUD) → ∃ t, v = .text t
  time : (n = cEXP ∨ n = cNBF ∨ n = cIAT) → ∃ t, Timestamp.fromValue v = .ok t
  cti : n = cCTI → ∃ b, v = .bytes b

theorem claimStep_ok (n : RegLabelPriv) (v : Value) (c : ClaimsSet) (he : ClaimOk n v) : ∃ c1, claimStep c (n, v) = .ok c1 := by
  by_cases h1 : n = cISS
  · obtain ⟨t, rfl⟩ := he.text (Or.inl h1); subst h1; simp [claimStep, claimDispatch, tryAsString]
  by_cases h2 : n = cSUB
  · obtain ⟨t, rfl⟩ := he.text (Or.inr (Or.inl h2)); subst h2; simp [claimStep, claimDispatch, h1, tryAsString]
  by_cases h3 : n = cAUD
  · obtain ⟨t, rfl⟩ := he.text (Or.inr (Or.inr h3)); subst h3; simp [claimStep, claimDispatch, h1, h2, tryAsString]
  by_cases h4 : n = cEXP
  · obtain ⟨t, ht⟩ := he.time (Or.inl h4); subst h4; simp [claimStep, claimDispatch, h1, h2, h3, ht]
  by_cases h5 : n = cNBF
  · obtain ⟨t, ht⟩ := he.time (Or.inr (Or.inl h5)); subst h5; simp [claimStep, claimDispatch, h1, h2, h3, h4, ht]
  by_cases h6 : n = cIAT
  · obtain ⟨t, ht⟩ := he.time (Or.inr (Or.inr h6)); subst h6; simp [claimStep, claimDispatch, h1, h2, h3, h4, h5, ht]
  by_cases h7 : n = cCTI
  · obtain ⟨b, rfl⟩ := he.cti h7; subst h7; simp [claimStep, claimDispatch, h1, h2, h3, h4, h5, h6, tryAsBytes]
  simp [claimStep, claimDispatch, h1, h2, h3, h4, h5, h6, h7]

theorem claims_fold_ok : ∀ (ps : List (RegLabelPriv × Value)) (c0 : ClaimsSet), (∀ p ∈ ps, ClaimOk p.1 p.2) → ∃ c, foldRes claimStep ps c0 = .ok c := by
  intro ps
  induction ps with
  | nil => intro c0 _; exact ⟨c0, rfl⟩
  | cons p ps ih =>
    intro c0 hall
    obtain ⟨c1, h1⟩ := claimStep_ok p.1 p.2 c0 (hall p (by simp))
    obtain ⟨c, h2⟩ := ih c1 (fun q hq => hall q (by simp [hq]))
    exact ⟨c, by simp only [foldRes]; rw [show claimStep c0 p = claimStep c0 (p.1, p.2) from rfl, h1]; exact h2⟩

/-- C18 (claims, ⇐): a map whose keys are registered / private-use integers or text, pairwise distinct, with each typed claim of its type,
    is accepted — in any wire order. -/
theorem claims_wellformed_is_accepted (m : List (Value × Value)) (ns : List RegLabelPriv)
    (hk : mapRes (RegLabelPriv.fromValue Reg.cwtClaimName) (m.map (·.1)) = .ok ns) (hnd : ns.Nodup)
    (hall : ∀ p ∈ ns.zip (m.map (·.2)), ClaimOk p.1 p.2) : ∃ c, ClaimsSet.fromValue (.map m) = .ok c := by
  obtain ⟨c, hf⟩ := claims_fold_ok (ns.zip (m.map (·.2))) ClaimsSet.default hall
  refine ⟨c, ?_⟩
  simp only [ClaimsSet.fromValue, claimsLoop_eq_gen]
  exact (genLoop_ok_iff _ _ claimStep (GoodName Reg.cwtClaimName) claims_loop_hyps.1 claims_loop_hyps.2 m ClaimsSet.default c [] (by simp)).mpr
    ⟨ns, hk, ⟨hnd, by simp⟩, hf⟩

theorem lookupN_of_mem (l : RegLabelPriv) (v : Value) : ∀ (ps : List (RegLabelPriv × Value)), (ps.map (·.1)).Nodup → (l, v) ∈ ps → lookupN l ps = some v := by
  intro ps
  induction ps with
  | nil => intro _ h; cases h
  | cons p ps ih =>
    intro hnd hm
    obtain ⟨l', v'⟩ := p
    simp only [List.map_cons, List.nodup_cons] at hnd
    rw [lookupN_cons]
    rcases List.mem_cons.mp hm with h | h
    · cases h; simp
    · have : l' ≠ l := by
        intro e; subst e
        exact hnd.1 (List.mem_map.mpr ⟨(l', v), h, rfl⟩)
      simp [this, ih hnd.2 h]

/-- claims set acceptance as an equivalence. -/
theorem claims_accepted_iff (v : Value) :
    (∃ c, ClaimsSet.fromValue v = .ok c) ↔
      ∃ m ns, v = .map m ∧ mapRes (RegLabelPriv.fromValue Reg.cwtClaimName) (m.map (·.1)) = .ok ns ∧ ns.Nodup ∧
        ∀ p ∈ ns.zip (m.map (·.2)), ClaimOk p.1 p.2 := by
  constructor
  · rintro ⟨c, hok⟩
    obtain ⟨m, ns, rfl, hk, hnd, co⟩ := claims_accepted_is_wellformed v c hok
    have hlen : ns.length = (m.map (·.2)).length := by simpa using mapResLen _ _ _ hk
    have hfst : (ns.zip (m.map (·.2))).map (·.1) = ns := by rw [List.map_fst_zip]; omega
    have hnd' : ((ns.zip (m.map (·.2))).map (·.1)).Nodup := by rw [hfst]; exact hnd
    refine ⟨m, ns, rfl, hk, hnd, ?_⟩
    intro p hp
    obtain ⟨n, x⟩ := p
    have hl := lookupN_of_mem n x _ hnd' hp
    refine ⟨?_, ?_, ?_⟩
    · rintro (e | e | e) <;> subst e
      · have := co.issuer; rw [hl] at this; obtain ⟨t, h1, _⟩ := this; exact ⟨t, h1⟩
      · have := co.subject; rw [hl] at this; obtain ⟨t, h1, _⟩ := this; exact ⟨t, h1⟩
      · have := co.audience; rw [hl] at this; obtain ⟨t, h1, _⟩ := this; exact ⟨t, h1⟩
    · rintro (e | e | e) <;> subst e
      · have := co.expirationTime; rw [hl] at this; obtain ⟨t, h1, _⟩ := this; exact ⟨t, h1⟩
      · have := co.notBefore; rw [hl] at this; obtain ⟨t, h1, _⟩ := this; exact ⟨t, h1⟩
      · have := co.issuedAt; rw [hl] at this; obtain ⟨t, h1, _⟩ := this; exact ⟨t, h1⟩
    · intro e; subst e; have := co.cwtId; rw [hl] at this; obtain ⟨b, h1, _⟩ := this; exact ⟨b, h1⟩
  · rintro ⟨m, ns, rfl, hk, hnd, hall⟩
    exact claims_wellformed_is_accepted m ns hk hnd hall

/-! ### KDF context and its parts: acceptance as equivalences -/

/-- a PartyInfo nonce slot. -/
def NonceOk (x : Value) : Prop := x = .null ∨ (∃ b, x = .bytes b) ∨ (∃ n, x = .int n ∧ i64Min ≤ n ∧ n ≤ i64Max)

theorem party_info_iff (v : Value) :
    (∃ p, PartyInfo.fromValue v = .ok p) ↔
      ∃ x0 x1 x2, v = .array [x0, x1, x2] ∧ (∃ o, nullOrBytes x0 = .ok o) ∧ NonceOk x1 ∧ (∃ o, nullOrBytes x2 = .ok o) := by
  constructor
  · rintro ⟨p, hp⟩
    obtain ⟨x0, x1, x2, rfl, h0, h2, h1⟩ := party_info v p hp
    refine ⟨x0, x1, x2, rfl, ⟨_, h0⟩, ?_, ⟨_, h2⟩⟩
    rcases h1 with ⟨e, _⟩ | ⟨b, e, _⟩ | ⟨n, e, a1, a2, _⟩
    · exact Or.inl e
    · exact Or.inr (Or.inl ⟨b, e⟩)
    · exact Or.inr (Or.inr ⟨n, e, a1, a2⟩)
  · rintro ⟨x0, x1, x2, rfl, ⟨o0, h0⟩, h1, ⟨o2, h2⟩⟩
    simp only [PartyInfo.fromValue, tryAsArray, Gen.PartyInfo_arityBad, Gen.PartyInfo_removes]
    rcases h1 with rfl | ⟨b, rfl⟩ | ⟨n, rfl, a1, a2⟩
    · exact ⟨⟨o0, none, o2⟩, by simp [vremove, h0, h2]⟩
    · exact ⟨⟨o0, some (.bytes b), o2⟩, by simp [vremove, h0, h2]⟩
    · exact ⟨⟨o0, some (.integer n), o2⟩, by simp [vremove, h0, h2, narrowI64, a1, a2]⟩

theorem supp_pub_info_iff (v : Value) :
    (∃ s, SuppPubInfo.fromValue v = .ok s) ↔
      ∃ n x1, 0 ≤ n ∧ n ≤ u64Max ∧ (∃ p, phFromBstr x1 = .ok p) ∧ (v = .array [.int n, x1] ∨ ∃ o, v = .array [.int n, x1, .bytes o]) := by
  constructor
  · rintro ⟨s, hs⟩
    have hem := supp_emit v s hs
    obtain ⟨len, p, other⟩ := s
    -- the emitted value is `v`; read the shape off the emission
    simp only [SuppPubInfo.toValue] at hem
    cases hc : ProtectedHeader.cborBstr p with
    | ok pv =>
      simp only [hc] at hem
      have hrange : 0 ≤ len ∧ len ≤ u64Max ∧ phFromBstr pv = .ok p := by
        cases other with
        | none =>
          simp at hem; subst hem
          simp [SuppPubInfo.fromValue, tryAsArray, Gen.SuppPubInfo_arityBad, Gen.SuppPubInfo_removes, vremove] at hs
          cases hp : phFromBstr pv with
          | ok p' =>
            simp [hp, tryAsInteger, narrowU64] at hs
            by_cases hr : 0 ≤ len ∧ len ≤ u64Max
            · simp [hr] at hs; exact ⟨hr.1, hr.2, by rw [hs]⟩
            · simp [hr] at hs
          | err e => simp [hp] at hs
          | panic q => simp [hp] at hs
        | some o =>
          simp at hem; subst hem
          simp [SuppPubInfo.fromValue, tryAsArray, Gen.SuppPubInfo_arityBad, Gen.SuppPubInfo_removes, vremove, tryAsBytes] at hs
          cases hp : phFromBstr pv with
          | ok p' =>
            simp [hp, tryAsInteger, narrowU64] at hs
            by_cases hr : 0 ≤ len ∧ len ≤ u64Max
            · simp [hr] at hs; exact ⟨hr.1, hr.2, by rw [hs]⟩
            · simp [hr] at hs
          | err e => simp [hp] at hs
          | panic q => simp [hp] at hs
      refine ⟨len, pv, hrange.1, hrange.2.1, ⟨p, hrange.2.2⟩, ?_⟩
      cases other with
      | none => simp at hem; exact Or.inl hem.symm
      | some o => simp at hem; exact Or.inr ⟨o, hem.symm⟩
    | err e => simp [hc] at hem
    | panic q => simp [hc] at hem
  · rintro ⟨n, x1, h0, h1, ⟨p, hp⟩, hv | ⟨o, hv⟩⟩ <;> subst hv
    · exact ⟨⟨n, p, none⟩, by
        simp [SuppPubInfo.fromValue, tryAsArray, Gen.SuppPubInfo_arityBad, Gen.SuppPubInfo_removes, vremove, hp, tryAsInteger, narrowU64, h0, h1]⟩
    · exact ⟨⟨n, p, some o⟩, by
        simp [SuppPubInfo.fromValue, tryAsArray, Gen.SuppPubInfo_arityBad, Gen.SuppPubInfo_removes, vremove, hp, tryAsInteger, narrowU64, h0, h1, tryAsBytes]⟩

/-- COSE_KDF_Context = [AlgorithmID, PartyUInfo, PartyVInfo, SuppPubInfo, *bstr]: accepted exactly in this shape. -/
theorem kdf_context_iff (v : Value) :
    (∃ k, CoseKdfContext.fromValue v = .ok k) ↔
      ∃ (x0 x1 x2 x3 : Value) (bs : List Bytes), v = .array ([x0, x1, x2, x3] ++ bs.map Value.bytes) ∧
        (∃ a, RegLabelPriv.fromValue Reg.algorithm x0 = .ok a) ∧ (∃ p, PartyInfo.fromValue x1 = .ok p) ∧ (∃ p, PartyInfo.fromValue x2 = .ok p) ∧
        (∃ s, SuppPubInfo.fromValue x3 = .ok s) := by
  constructor
  · rintro ⟨k, hk⟩
    obtain ⟨x0, x1, x2, x3, bs, hv, h0, h1, h2, h3, _⟩ := kdf_shape v k hk
    exact ⟨x0, x1, x2, x3, bs, hv, ⟨_, h0⟩, ⟨_, h1⟩, ⟨_, h2⟩, ⟨_, h3⟩⟩
  · rintro ⟨x0, x1, x2, x3, bs, rfl, ⟨a, ha⟩, ⟨p1, h1⟩, ⟨p2, h2⟩, ⟨s, hs⟩⟩
    refine ⟨⟨a, p1, p2, s, bs⟩, ?_⟩
    have hlen : ¬ ([x0, x1, x2, x3] ++ bs.map Value.bytes).length < 4 := by simp
    have hn : ([x0, x1, x2, x3] ++ bs.map Value.bytes).length - 4 = bs.length := by simp
    simp only [CoseKdfContext.fromValue, tryAsArray, Gen.CoseKdfContext_arityBad, hlen, decide_false, Bool.false_eq_true, if_false, hn,
      kdfTail_emit bs.length bs [x0, x1, x2, x3] [] rfl rfl]
    simp [Gen.CoseKdfContext_removes, vremove, hs, h2, h1, ha]

/-! ### encode side (with C11): well-formed values emit exactly their populated fields and decode to themselves -/

theorem claims_encode_decode (c : ClaimsSet) (hw : c.WF) :
    c.toValue = .ok (.map (namePairs (claimL c.issuer c.subject c.audience c.expirationTime c.notBefore c.issuedAt c.cwtId ++ c.rest))) ∧
    ClaimsSet.fromValue (.map (namePairs (claimL c.issuer c.subject c.audience c.expirationTime c.notBefore c.issuedAt c.cwtId ++ c.rest))) = .ok c :=
  claims_rt c hw

/-- the typed claims are emitted once each, only when populated, under labels 1–7 in order. -/
theorem claims_typed_entries (iss sub aud : Option Bytes) (exp nbf iat : Option Timestamp) (cti : Option Bytes) :
    List.Sublist ((claimL iss sub aud exp nbf iat cti).map (·.1)) typedClaims := claimL_names iss sub aud exp nbf iat cti

theorem kdf_encode_decode (k : CoseKdfContext) (hw : k.WF) :
    ∃ x k', k.toValue = .ok x ∧ CoseKdfContext.fromValue x = .ok k' ∧ k'.algorithmId = k.algorithmId ∧ k'.partyUInfo = k.partyUInfo ∧
      k'.partyVInfo = k.partyVInfo ∧ k'.suppPrivInfo = k.suppPrivInfo ∧ k'.suppPubInfo.keyDataLength = k.suppPubInfo.keyDataLength ∧
      k'.suppPubInfo.other = k.suppPubInfo.other ∧
      ProtectedHeader.erase k'.suppPubInfo.protected_ = ProtectedHeader.erase k.suppPubInfo.protected_ := kdf_rt k hw

theorem decode_emits_input (v : Value) (k : CoseKdfContext) (h : CoseKdfContext.fromValue v = .ok k) : k.toValue = .ok v := kdf_emit v k h

/-- non-vacuity: a claims set with every typed claim and a private one; a KDF context with and without private info. -/
example : (fromSlice ClaimsSet.fromValue [0xa3, 0x01, 0x61, 0x69, 0x04, 0x1a, 0x65, 0x53, 0xf1, 0x00, 0x3a, 0x00, 0x01, 0x00, 0x00, 0xf6]).isOk = true := by decide +kernel
example : (fromSlice CoseKdfContext.fromValue [0x84, 0x26, 0x83, 0xf6, 0xf6, 0xf6, 0x83, 0xf6, 0xf6, 0xf6, 0x82, 0x18, 0x80, 0x40]).isOk = true := by decide +kernel
example : (fromSlice CoseKdfContext.fromValue [0x83, 0x26, 0x83, 0xf6, 0xf6, 0xf6, 0x83, 0xf6, 0xf6, 0xf6]).errKind? = some .unexpectedItem := by decide +kernel

/-- claims sets and the KDF-context family on the bytes of *any* well-formed encoding of an item: the byte-level decoder gives what the
    Value-level conversion gives on the item, so the iff theorems above hold for every encoding. -/
theorem bytes_any_encoding (v : Value) (b : Bytes) (h : Spec.Encodes v b) (hd : Cbor.depthOf v ≤ Cbor.recursionLimit) :
    fromSlice ClaimsSet.fromValue b = ClaimsSet.fromValue v ∧ fromSlice CoseKdfContext.fromValue b = CoseKdfContext.fromValue v ∧
    fromSlice PartyInfo.fromValue b = PartyInfo.fromValue v ∧ fromSlice SuppPubInfo.fromValue b = SuppPubInfo.fromValue v :=
  ⟨fromSlice_of_encodes _ v b h hd, fromSlice_of_encodes _ v b h hd, fromSlice_of_encodes _ v b h hd, fromSlice_of_encodes _ v b h hd⟩

#print axioms bytes_any_encoding
#print axioms fold_claimsOf
#print axioms claims_accepted_is_wellformed
#print axioms claims_wellformed_is_accepted
#print axioms claims_accepted_iff
#print axioms claims_dup_error_kind
#print axioms timestamp
#print axioms party_info
#print axioms party_info_iff
#print axioms supp_pub_info_iff
#print axioms kdf_context_iff
#print axioms kdf_arity
#print axioms claims_encode_decode
#print axioms claims_typed_entries
#print axioms kdf_encode_decode
#print axioms decode_emits_input

end Coset.Props.C18
