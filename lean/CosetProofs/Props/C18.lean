import CosetModel.Api
namespace Coset.Props.C18

end Coset.Props.C18
