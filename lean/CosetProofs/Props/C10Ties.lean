/- C10: ties to the source text.  Built and audited together with Props/C10.lean by check.py, but in a module of its own, so that a
   changed textual fact breaks the obligations of the properties that own it and not those of every module that imports their lemmas. -/
import CosetProofs.Ties.Budget.Key
namespace Coset.Props.C10

/-! ### ties to the source text (regenerated on every run, compared in the kernel with the transcribed tree) -/

/-- decision budget of `src/key/mod.rs`: no branch, comparison or integer literal beyond the transcribed tree's (a needle no stream reaches still adds one). -/
theorem tie_budget_key : Coset.Ties.budgetCovered "key" Coset.Gen.decisionBudget Coset.Pinned.decisionBudget = true := Coset.Ties.budget_key

#print axioms tie_budget_key

end Coset.Props.C10
