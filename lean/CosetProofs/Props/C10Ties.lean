/- C10: ties to the source text.  Built and audited together with Props/C10.lean by check.py, but in a module of its own, so that a
   changed textual fact breaks the obligations of the properties that own it and not those of every module that imports their lemmas. -/
import CosetProofs.Ties.Budget.Key
import CosetProofs.Ties.Compare.Common
import CosetProofs.Ties.Compare.Iana
import CosetProofs.Ties.Compare.Key
import CosetProofs.Ties.IanaTables
namespace Coset.Props.C10

/-! ### ties to the source text (regenerated on every run, compared in the kernel with the transcribed tree) -/

/-- decision budget of `src/key/mod.rs`: no branch, comparison or integer literal beyond the transcribed tree's (a needle no stream reaches still adds one). -/
theorem tie_budget_key : Coset.Ties.budgetCovered "key" Coset.Gen.decisionBudget Coset.Pinned.decisionBudget = true := Coset.Ties.budget_key

#print axioms tie_budget_key

/-! comparisons and integer literals of the modules this property is anchored in (properties.jsonl): none beyond the transcribed tree's -/
theorem tie_compare_common : Coset.Ties.compareCovered "common" Coset.Gen.decisionBudget Coset.Pinned.decisionBudget = true := Coset.Ties.compare_common
theorem tie_compare_iana : Coset.Ties.compareCovered "iana" Coset.Gen.decisionBudget Coset.Pinned.decisionBudget = true := Coset.Ties.compare_iana
theorem tie_compare_key : Coset.Ties.compareCovered "key" Coset.Gen.decisionBudget Coset.Pinned.decisionBudget = true := Coset.Ties.compare_key

#print axioms tie_compare_common
#print axioms tie_compare_iana
#print axioms tie_compare_key

/-- the registry tables the streams of this property build values from (by name) are the IANA assignments. -/
theorem tie_iana_tables : Coset.Ties.IanaTablesOk := Coset.Ties.iana_tables

#print axioms tie_iana_tables

end Coset.Props.C10
