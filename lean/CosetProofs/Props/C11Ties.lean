/- C11: ties to the source text.  Built and audited together with Props/C11.lean by check.py, but in a module of its own, so that a
   changed textual fact breaks the obligations of the properties that own it and not those of every module that imports their lemmas. -/
import CosetProofs.Ties.EmitOrder
import CosetProofs.Ties.HeaderFields
namespace Coset.Props.C11

/-! ### ties to the source text (regenerated on every run, compared in the kernel with the transcribed tree) -/
/-- the order in which every array-shaped `to_cbor_value` emits its fields. -/
theorem tie_emit_order : Coset.Ties.genEmitOrders = Coset.Ties.pinnedEmitOrders := Coset.Ties.emit_order
/-- `Header::is_empty` tests every field of `struct Header`. -/
theorem tie_header_is_empty : Coset.Gen.headerFields = Coset.Pinned.headerFields ∧ Coset.Gen.headerIsEmptyTests = Coset.Pinned.headerIsEmptyTests := ⟨Coset.Ties.header_fields, Coset.Ties.header_is_empty_tests⟩

#print axioms tie_emit_order
#print axioms tie_header_is_empty

end Coset.Props.C11
