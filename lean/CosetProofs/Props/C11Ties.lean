/- C11: ties to the source text.  Built and audited together with Props/C11.lean by check.py, but in a module of its own, so that a
   changed textual fact breaks the obligations of the properties that own it and not those of every module that imports their lemmas. -/
import CosetProofs.Ties.EmitOrder
import CosetProofs.Ties.HeaderFields
import CosetProofs.Ties.Compare.Common
import CosetProofs.Ties.Compare.Context
import CosetProofs.Ties.Compare.Cwt
import CosetProofs.Ties.Compare.Encrypt
import CosetProofs.Ties.Compare.Header
import CosetProofs.Ties.Compare.Key
import CosetProofs.Ties.Compare.Mac
import CosetProofs.Ties.Compare.Sign
import CosetProofs.Ties.IanaTables
namespace Coset.Props.C11

/-! ### ties to the source text (regenerated on every run, compared in the kernel with the transcribed tree) -/
/-- the order in which every array-shaped `to_cbor_value` emits its fields. -/
theorem tie_emit_order : Coset.Ties.genEmitOrders = Coset.Ties.pinnedEmitOrders := Coset.Ties.emit_order
/-- `Header::is_empty` tests every field of `struct Header`. -/
theorem tie_header_is_empty : Coset.Gen.headerFields = Coset.Pinned.headerFields ∧ Coset.Gen.headerIsEmptyTests = Coset.Pinned.headerIsEmptyTests := ⟨Coset.Ties.header_fields, Coset.Ties.header_is_empty_tests⟩

#print axioms tie_emit_order
#print axioms tie_header_is_empty

/-! comparisons and integer literals of the modules this property is anchored in (properties.jsonl): none beyond the transcribed tree's -/
theorem tie_compare_common : Coset.Ties.compareCovered "common" Coset.Gen.decisionBudget Coset.Pinned.decisionBudget = true := Coset.Ties.compare_common
theorem tie_compare_context : Coset.Ties.compareCovered "context" Coset.Gen.decisionBudget Coset.Pinned.decisionBudget = true := Coset.Ties.compare_context
theorem tie_compare_cwt : Coset.Ties.compareCovered "cwt" Coset.Gen.decisionBudget Coset.Pinned.decisionBudget = true := Coset.Ties.compare_cwt
theorem tie_compare_encrypt : Coset.Ties.compareCovered "encrypt" Coset.Gen.decisionBudget Coset.Pinned.decisionBudget = true := Coset.Ties.compare_encrypt
theorem tie_compare_header : Coset.Ties.compareCovered "header" Coset.Gen.decisionBudget Coset.Pinned.decisionBudget = true := Coset.Ties.compare_header
theorem tie_compare_key : Coset.Ties.compareCovered "key" Coset.Gen.decisionBudget Coset.Pinned.decisionBudget = true := Coset.Ties.compare_key
theorem tie_compare_mac : Coset.Ties.compareCovered "mac" Coset.Gen.decisionBudget Coset.Pinned.decisionBudget = true := Coset.Ties.compare_mac
theorem tie_compare_sign : Coset.Ties.compareCovered "sign" Coset.Gen.decisionBudget Coset.Pinned.decisionBudget = true := Coset.Ties.compare_sign

#print axioms tie_compare_common
#print axioms tie_compare_context
#print axioms tie_compare_cwt
#print axioms tie_compare_encrypt
#print axioms tie_compare_header
#print axioms tie_compare_key
#print axioms tie_compare_mac
#print axioms tie_compare_sign

/-- the registry tables the streams of this property build values from (by name) are the IANA assignments. -/
theorem tie_iana_tables : Coset.Ties.IanaTablesOk := Coset.Ties.iana_tables

#print axioms tie_iana_tables

end Coset.Props.C11
