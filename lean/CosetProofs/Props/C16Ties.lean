/- C16: ties to the source text.  Built and audited together with Props/C16.lean by check.py, but in a module of its own, so that a
   changed textual fact breaks the obligations of the properties that own it and not those of every module that imports their lemmas. -/
import CosetProofs.Ties.Budget.Common
import CosetProofs.Ties.Compare.Common
namespace Coset.Props.C16

/-! ### ties to the source text (regenerated on every run, compared in the kernel with the transcribed tree) -/

/-- decision budget of `src/common/mod.rs`: no branch, comparison or integer literal beyond the transcribed tree's (a needle no stream reaches still adds one). -/
theorem tie_budget_common : Coset.Ties.budgetCovered "common" Coset.Gen.decisionBudget Coset.Pinned.decisionBudget = true := Coset.Ties.budget_common

#print axioms tie_budget_common

/-! comparisons and integer literals of the modules this property is anchored in (properties.jsonl): none beyond the transcribed tree's -/
theorem tie_compare_common : Coset.Ties.compareCovered "common" Coset.Gen.decisionBudget Coset.Pinned.decisionBudget = true := Coset.Ties.compare_common

#print axioms tie_compare_common

end Coset.Props.C16
