import CosetModel.Api
namespace Coset.Props.C03

end Coset.Props.C03
