/-
  C03 — to-be-signed bytes are exactly RFC 8152 Sig_structure.
-/
import CosetProofs.Structures
namespace Coset.Props.C03
open Coset Coset.Cbor Coset.Spec

/-- the three context strings are the RFC's (the model's strings are regenerated from the source each run). -/
theorem contexts : SignatureContext.text .coseSignature = ctxSignature ∧ SignatureContext.text .coseSign1 = ctxSignature1 ∧
    SignatureContext.text .counterSignature = ctxCounterSignature := by decide

theorem contexts_distinct : [ctxSignature, ctxSignature1, ctxCounterSignature].Nodup := by decide

/-- C03 core: the general structure function, `sign_protected` present exactly when supplied. -/
theorem sig_structure (ctx : SignatureContext) (body : ProtectedHeader) (aad payload b : Bytes)
    (hb : ProtectedHeader.cborBstr body = .ok (.bytes b)) :
    sigStructureData ctx body none aad payload = .ok (specStruct ctx.text [b, aad, payload]) ∧
    ∀ sp s, ProtectedHeader.cborBstr sp = .ok (.bytes s) →
      sigStructureData ctx body (some sp) aad payload = .ok (specStruct ctx.text [b, s, aad, payload]) :=
  ⟨(sigStructure_spec ctx body none aad payload b hb).1 rfl,
   fun sp s hs => (sigStructure_spec ctx body (some sp) aad payload b hb).2 sp s rfl hs⟩

/-- COSE_Sign1: context "Signature1", no signer slot, embedded payload (empty when absent). -/
theorem sign1_tbs (m : CoseSign1) (aad b : Bytes) (hb : ProtectedHeader.cborBstr m.protected_ = .ok (.bytes b)) :
    m.tbsData aad = .ok (specStruct ctxSignature1 [b, aad, m.payload.getD []]) := by
  have := (sig_structure .coseSign1 m.protected_ aad (m.payload.getD []) b hb).1
  simpa [CoseSign1.tbsData, contexts.2.1] using this

/-- COSE_Sign: context "Signature", the *given signer's* protected header in the third slot. -/
theorem sign_tbs (m : CoseSign) (sig : CoseSignature) (aad b s : Bytes)
    (hb : ProtectedHeader.cborBstr m.protected_ = .ok (.bytes b)) (hs : ProtectedHeader.cborBstr sig.protected_ = .ok (.bytes s)) :
    m.tbsData aad sig = .ok (specStruct ctxSignature [b, s, aad, m.payload.getD []]) := by
  have := (sig_structure .coseSignature m.protected_ aad (m.payload.getD []) b hb).2 sig.protected_ s hs
  simpa [CoseSign.tbsData, contexts.1] using this

/-- detached payload: refused (documented panic) iff a payload is embedded; otherwise it occupies the payload slot. -/
theorem sign1_tbs_detached (m : CoseSign1) (payload aad b : Bytes) (hb : ProtectedHeader.cborBstr m.protected_ = .ok (.bytes b)) :
    (m.payload.isSome = true → m.tbsDetachedData payload aad = .panic .assertFailed) ∧
    (m.payload = none → m.tbsDetachedData payload aad = .ok (specStruct ctxSignature1 [b, aad, payload])) := by
  constructor
  · intro h; simp [CoseSign1.tbsDetachedData, h]
  · intro h
    have := (sig_structure .coseSign1 m.protected_ aad payload b hb).1
    simpa [CoseSign1.tbsDetachedData, h, contexts.2.1] using this

theorem sign_tbs_detached (m : CoseSign) (sig : CoseSignature) (payload aad b s : Bytes)
    (hb : ProtectedHeader.cborBstr m.protected_ = .ok (.bytes b)) (hs : ProtectedHeader.cborBstr sig.protected_ = .ok (.bytes s)) :
    (m.payload.isSome = true → m.tbsDetachedData payload aad sig = .panic .assertFailed) ∧
    (m.payload = none → m.tbsDetachedData payload aad sig = .ok (specStruct ctxSignature [b, s, aad, payload])) := by
  constructor
  · intro h; simp [CoseSign.tbsDetachedData, h]
  · intro h
    have := (sig_structure .coseSignature m.protected_ aad payload b hb).2 sig.protected_ s hs
    simpa [CoseSign.tbsDetachedData, h, contexts.1] using this

/-- a detached payload occupies the slot exactly as the same bytes embedded would. -/
theorem detached_eq_embedded (m : CoseSign1) (p aad : Bytes) :
    ({ m with payload := none } : CoseSign1).tbsDetachedData p aad = ({ m with payload := some p } : CoseSign1).tbsData aad := by
  simp [CoseSign1.tbsDetachedData, CoseSign1.tbsData]

theorem detached_eq_embedded_sign (m : CoseSign) (sig : CoseSignature) (p aad : Bytes) :
    ({ m with payload := none } : CoseSign).tbsDetachedData p aad sig = ({ m with payload := some p } : CoseSign).tbsData aad sig := by
  simp [CoseSign.tbsDetachedData, CoseSign.tbsData]

/-- verification hands exactly (stored signature, to-be-signed bytes) to the caller's function and returns its result. -/
theorem verify_passes {ρ : Type} (m : CoseSign1) (aad : Bytes) (g : Bytes → Bytes → ρ) (t : Bytes) (ht : m.tbsData aad = .ok t) :
    m.verifySignature aad g = .ok (g m.signature t) := by simp [CoseSign1.verifySignature, ht]

theorem verify_passes_sign {ρ : Type} (m : CoseSign) (which : Nat) (aad : Bytes) (g : Bytes → Bytes → ρ) (sig : CoseSignature) (t : Bytes)
    (hw : m.signatures[which]? = some sig) (ht : m.tbsData aad sig = .ok t) :
    m.verifySignature which aad g = .ok (g sig.signature t) := by
  simp [CoseSign.verifySignature, vindex, hw, ht]

theorem verify_index_out_of_range {ρ : Type} (m : CoseSign) (which : Nat) (aad : Bytes) (g : Bytes → Bytes → ρ)
    (hw : m.signatures.length ≤ which) : m.verifySignature which aad g = .panic .indexOob := by
  have : m.signatures[which]? = none := by simp [hw]
  simp [CoseSign.verifySignature, vindex, this]

/-- the protected slot: stored bytes verbatim for a decoded header; for a built one a zero-length string iff empty, else the encoded map. -/
theorem protected_slot (orig : Option Bytes) (h : Header) :
    (∀ d, orig = some d → ProtectedHeader.cborBstr (.mk orig h) = .ok (.bytes d)) ∧
    (orig = none → h.isEmpty = true → ProtectedHeader.cborBstr (.mk orig h) = .ok (.bytes [])) ∧
    (orig = none → h.isEmpty = false →
      ProtectedHeader.cborBstr (.mk orig h) = (Header.toValue h).map (fun v => .bytes (enc v))) := by
  refine ⟨?_, ?_, ?_⟩
  · intro d hd; subst hd; exact cborBstr_stored d h
  · intro ho he; subst ho; exact cborBstr_built_empty h he
  · intro ho he; subst ho; exact cborBstr_built_nonempty h he

/-- `is_empty` holds exactly when all eight fields are empty / absent. -/
theorem isEmpty_iff (h : Header) : h.isEmpty = true ↔
    h.alg = none ∧ h.crit = [] ∧ h.contentType = none ∧ h.keyId = [] ∧ h.iv = [] ∧ h.partialIv = [] ∧ h.counterSignatures = [] ∧ h.rest = [] := by
  cases h with
  | mk a c ct k i p cs r =>
    simp [Header.isEmpty, Header.alg, Header.crit, Header.contentType, Header.keyId, Header.iv, Header.partialIv,
      Header.counterSignatures, Header.rest, List.isEmpty_iff, Option.isNone_iff_eq_none, and_assoc]

/-- inputs differing in context, either protected slot, AAD or payload — or in the presence of the signer slot — never share bytes. -/
theorem injective (c1 c2 : SignatureContext) (xs1 xs2 : List Bytes)
    (hx1 : xs1.length + 1 < 2 ^ 64 ∧ ∀ x ∈ xs1, x.length < 2 ^ 64) (hx2 : xs2.length + 1 < 2 ^ 64 ∧ ∀ x ∈ xs2, x.length < 2 ^ 64)
    (h : specStruct c1.text xs1 = specStruct c2.text xs2) : c1 = c2 ∧ xs1 = xs2 := by
  have v : ∀ c : SignatureContext, Utf8.valid c.text = true ∧ c.text.length < 2 ^ 64 := by intro c; cases c <;> decide
  obtain ⟨hc, hx⟩ := specStruct_injective _ _ _ _ (v c1) (v c2) hx1 hx2 h
  refine ⟨?_, hx⟩
  cases c1 <;> cases c2 <;> first | rfl | (exact absurd hc (by decide))

/-- non-vacuity: the tuple of the crate's `test_sig_structure_data` style — Signature1, protected {1: -7}, aad 0102, payload "a". -/
example : sigStructureData .coseSign1 (.mk (some [0xa1, 0x01, 0x26]) Header.default) none [1, 2] [0x61] =
    .ok [0x84, 0x6a, 83, 105, 103, 110, 97, 116, 117, 114, 101, 49, 0x43, 0xa1, 0x01, 0x26, 0x42, 1, 2, 0x41, 0x61] := by decide


#print axioms contexts
#print axioms contexts_distinct
#print axioms sig_structure
#print axioms sign1_tbs
#print axioms sign_tbs
#print axioms sign1_tbs_detached
#print axioms sign_tbs_detached
#print axioms detached_eq_embedded
#print axioms detached_eq_embedded_sign
#print axioms verify_passes
#print axioms verify_passes_sign
#print axioms verify_index_out_of_range
#print axioms protected_slot
#print axioms isEmpty_iff
#print axioms injective

end Coset.Props.C03
