/-
  C19 — builders apply exactly the documented effect of each call, in any order.
-/
import CosetModel.Builders
import CosetProofs.Roundtrip.SetOrder
namespace Coset.Props.C19
open Coset

/-! ### HeaderBuilder: effect of every call, field by field (frame + update) -/
@[simp] theorem hdr_fields (a c ct k i p cs r) :
    (Header.mk a c ct k i p cs r).alg = a ∧ (Header.mk a c ct k i p cs r).crit = c ∧ (Header.mk a c ct k i p cs r).contentType = ct ∧
    (Header.mk a c ct k i p cs r).keyId = k ∧ (Header.mk a c ct k i p cs r).iv = i ∧ (Header.mk a c ct k i p cs r).partialIv = p ∧
    (Header.mk a c ct k i p cs r).counterSignatures = cs ∧ (Header.mk a c ct k i p cs r).rest = r := ⟨rfl, rfl, rfl, rfl, rfl, rfl, rfl, rfl⟩

/-- the documented effect of each `HeaderBuilder` call on a header (`none` = refused with a panic). -/
def headerEffect (h : Header) : HeaderOp → Option Header
  | .keyId b => some (.mk h.alg h.crit h.contentType b h.iv h.partialIv h.counterSignatures h.rest)
  | .algorithm k => some (.mk (some (.assigned k)) h.crit h.contentType h.keyId h.iv h.partialIv h.counterSignatures h.rest)
  | .addCritical k => some (.mk h.alg (h.crit ++ [.assigned k]) h.contentType h.keyId h.iv h.partialIv h.counterSignatures h.rest)
  | .addCriticalLabel l => some (.mk h.alg (h.crit ++ [l]) h.contentType h.keyId h.iv h.partialIv h.counterSignatures h.rest)
  | .contentFormat k => some (.mk h.alg h.crit (some (.assigned k)) h.keyId h.iv h.partialIv h.counterSignatures h.rest)
  | .contentType t => some (.mk h.alg h.crit (some (.text t)) h.keyId h.iv h.partialIv h.counterSignatures h.rest)
  | .iv b => some (.mk h.alg h.crit h.contentType h.keyId b [] h.counterSignatures h.rest)
  | .partialIv b => some (.mk h.alg h.crit h.contentType h.keyId [] b h.counterSignatures h.rest)
  | .addCounterSignature s => some (.mk h.alg h.crit h.contentType h.keyId h.iv h.partialIv (h.counterSignatures ++ [s]) h.rest)
  | .value l v => if 1 ≤ l ∧ l ≤ 7 then none
                  else some (.mk h.alg h.crit h.contentType h.keyId h.iv h.partialIv h.counterSignatures (h.rest ++ [(.int l, v)]))
  | .textValue l v => some (.mk h.alg h.crit h.contentType h.keyId h.iv h.partialIv h.counterSignatures (h.rest ++ [(.text l, v)]))

theorem header_value_guard (l : Int) : headerValueReserved l = true ↔ (1 ≤ l ∧ l ≤ 7) := by
  simp [headerValueReserved, Registry.toI64, Reg.headerParameter, Gen.HeaderParameter, Gen.idx_HeaderParameter_Alg,
    Gen.idx_HeaderParameter_CounterSignature]

/-- every `HeaderBuilder` call has exactly its documented effect (and `value` panics exactly on labels 1..7). -/
theorem header_apply (h : Header) (op : HeaderOp) :
    (∀ h', headerEffect h op = some h' → HeaderOp.apply h op = .next h') ∧
    (headerEffect h op = none → ∃ s, HeaderOp.apply h op = .panic s) := by
  cases h with
  | mk a c ct k i p cs r =>
    cases op <;> simp [headerEffect, HeaderOp.apply, Header.setKeyId, Header.setAlg, Header.setCrit, Header.setContentType,
      Header.setIv, Header.setPartialIv, Header.setCounterSignatures, Header.setRest]
    case value l v =>
      by_cases hl : 1 ≤ l ∧ l ≤ 7
      · have := (header_value_guard l).mpr hl; simp [hl, this]
      · have : headerValueReserved l = false := by
          cases hg : headerValueReserved l
          · rfl
          · exact absurd ((header_value_guard l).mp hg) hl
        simp [this]
        intro h1; omega

/-- a built header never carries both an IV and a Partial IV, whatever the call sequence. -/
def IvExclusive (h : Header) : Prop := h.iv = [] ∨ h.partialIv = []

theorem iv_exclusive_step (h : Header) (op : HeaderOp) (h' : Header) (hi : IvExclusive h) (hs : HeaderOp.apply h op = .next h') :
    IvExclusive h' := by
  cases h with
  | mk a c ct k i p cs r =>
    cases op <;> simp [HeaderOp.apply, Header.setKeyId, Header.setAlg, Header.setCrit, Header.setContentType,
      Header.setIv, Header.setPartialIv, Header.setCounterSignatures, Header.setRest] at hs <;>
      (try (subst hs; simpa [IvExclusive] using hi)) <;> (try (subst hs; simp [IvExclusive]))
    case value l v =>
      split at hs
      · simp at hs
      · simp at hs; subst hs; simpa [IvExclusive] using hi

theorem iv_exclusive (ops : List HeaderOp) : ∀ (h : Header) (i : Nat), IvExclusive h →
    ∀ h', (runOps HeaderOp.apply ops h i).1 = .next h' → IvExclusive h' := by
  induction ops with
  | nil => intro h i hi h' hr; simp [runOps] at hr; subst hr; exact hi
  | cons op ops ih =>
    intro h i hi h' hr
    simp only [runOps] at hr
    cases hs : HeaderOp.apply h op with
    | next h1 => simp only [hs] at hr; exact ih h1 (i + 1) (iv_exclusive_step h op h1 hi hs) h' hr
    | fail n => simp [hs] at hr
    | panic s => simp [hs] at hr

theorem iv_exclusive_from_new (ops : List HeaderOp) (h' : Header) (hr : (runOps HeaderOp.apply ops Header.default 0).1 = .next h') :
    ¬ (h'.iv ≠ [] ∧ h'.partialIv ≠ []) := by
  have := iv_exclusive ops Header.default 0 (Or.inl rfl) h' hr
  unfold IvExclusive at this
  intro ⟨h1, h2⟩; cases this <;> contradiction

/-! ### setters: a later call overrides an earlier one; calls on different fields commute -/
theorem header_setter_overrides (h : Header) (b1 b2 : Bytes) :
    (runOps HeaderOp.apply [.keyId b1, .keyId b2] h 0).1 = (runOps HeaderOp.apply [.keyId b2] h 0).1 := by
  cases h; simp [runOps, HeaderOp.apply, Header.setKeyId]

theorem header_setters_commute (h : Header) (b : Bytes) (k : Nat) :
    (runOps HeaderOp.apply [.keyId b, .algorithm k] h 0).1 = (runOps HeaderOp.apply [.algorithm k, .keyId b] h 0).1 := by
  cases h; simp [runOps, HeaderOp.apply, Header.setKeyId, Header.setAlg]

theorem sign1_setter_frame (m : CoseSign1) (b : Bytes) :
    Sign1Op.apply m (.payload b) = .next { m with payload := some b } ∧ Sign1Op.apply m (.signature b) = .next { m with signature := b } := ⟨rfl, rfl⟩

/-- setting a protected header discards any previously retained wire bytes. -/
theorem protected_discards_original (m : CoseSign1) (h : Header) :
    Sign1Op.apply m (.protected_ h) = .next { m with protected_ := .mk none h } := rfl
theorem protected_discards_original_all (h : Header) (s : CoseSignature) (sg : CoseSign) (mc : CoseMac) (m0 : CoseMac0)
    (e : CoseEncrypt) (e0 : CoseEncrypt0) (r : CoseRecipient) (sp : SuppPubInfo) :
    SignatureOp.apply s (.protected_ h) = .next (.mk (.mk none h) s.unprotected s.signature) ∧
    SignOp.apply sg (.protected_ h) = .next { sg with protected_ := .mk none h } ∧
    MacOp.apply mc (.protected_ h) = .next { mc with protected_ := .mk none h } ∧
    Mac0Op.apply m0 (.protected_ h) = .next { m0 with protected_ := .mk none h } ∧
    EncryptOp.apply e (.protected_ h) = .next { e with protected_ := .mk none h } ∧
    Encrypt0Op.apply e0 (.protected_ h) = .next { e0 with protected_ := .mk none h } ∧
    RecipientOp.apply r (.protected_ h) = .next (.mk (.mk none h) r.unprotected r.ciphertext r.recipients) ∧
    SuppOp.apply sp (.protected_ h) = .next { sp with protected_ := .mk none h } := ⟨rfl, rfl, rfl, rfl, rfl, rfl, rfl, rfl⟩

/-- adders append in call order. -/
theorem adders_append (m : CoseSign) (s1 s2 : CoseSignature) :
    (runOps SignOp.apply [.addSignature s1, .addSignature s2] m 0).1 = .next { m with signatures := m.signatures ++ [s1, s2] } := by
  simp [runOps, SignOp.apply]

/-! ### guards -/
theorem key_param_guard (l : Int) : keyParamReserved l = true ↔ (0 ≤ l ∧ l ≤ 5) := by
  constructor
  · intro h
    simp only [keyParamReserved, Registry.fromI64, Reg.keyParameter, Gen.KeyParameter] at h
    rw [Option.isSome_iff_exists] at h
    obtain ⟨k, hk⟩ := h
    rw [List.findIdx?_eq_some_iff_getElem] at hk
    obtain ⟨hlt, hp, _⟩ := hk
    simp at hlt
    have : k = 0 ∨ k = 1 ∨ k = 2 ∨ k = 3 ∨ k = 4 ∨ k = 5 := by omega
    rcases this with h | h | h | h | h | h <;> subst h <;> simp at hp <;> omega
  · intro ⟨h0, h5⟩
    have : l = 0 ∨ l = 1 ∨ l = 2 ∨ l = 3 ∨ l = 4 ∨ l = 5 := by omega
    rcases this with h | h | h | h | h | h <;> subst h <;> decide

theorem key_param (k : CoseKey) (l : Int) (v : Value) :
    (keyParamReserved l = true → ∃ s, KeyOp.apply k (.param l v) = .panic s) ∧
    (keyParamReserved l = false → KeyOp.apply k (.param l v) = .next { k with params := k.params ++ [(.int l, v)] }) := by
  constructor <;> intro h <;> simp [KeyOp.apply, h]

theorem claim_guard (k : Nat) : claimReserved k = true ↔ (1 ≤ Reg.cwtClaimName.toI64 k ∧ Reg.cwtClaimName.toI64 k ≤ 7) := by
  simp [claimReserved, Registry.toI64, Reg.cwtClaimName, Gen.CwtClaimName, Gen.idx_CwtClaimName_Iss, Gen.idx_CwtClaimName_Cti]

theorem claims_guards (c : ClaimsSet) (k : Nat) (id : Int) (v : Value) :
    (claimReserved k = true → ∃ s, ClaimsOp.apply c (.claim k v) = .panic s) ∧
    (claimReserved k = false → ClaimsOp.apply c (.claim k v) = .next { c with rest := c.rest ++ [(.assigned k, v)] }) ∧
    (¬ id < -65536 → ∃ s, ClaimsOp.apply c (.privateClaim id v) = .panic s) ∧
    (id < -65536 → ClaimsOp.apply c (.privateClaim id v) = .next { c with rest := c.rest ++ [(.privateUse id, v)] }) := by
  refine ⟨?_, ?_, ?_, ?_⟩
  · intro h; simp [ClaimsOp.apply, h]
  · intro h; simp [ClaimsOp.apply, h]
  · intro h; simp [ClaimsOp.apply, Registry.private?, Reg.cwtClaimName, Gen.CwtClaimName_isPrivate, h]
  · intro h; simp [ClaimsOp.apply, Registry.private?, Reg.cwtClaimName, Gen.CwtClaimName_isPrivate, h]

/-! ### key constructors populate exactly the key type and parameters they name -/
theorem constructors (curve : Nat) (x y d kb : Bytes) (ys : Bool) :
    newEc2PubKey curve x y = ⟨.assigned Gen.idx_KeyType_EC2, [], none, [], [],
      [(.int (-1), .int (Reg.ellipticCurve.toI64 curve)), (.int (-2), .bytes x), (.int (-3), .bytes y)]⟩ ∧
    newEc2PubKeyYSign curve x ys = ⟨.assigned Gen.idx_KeyType_EC2, [], none, [], [],
      [(.int (-1), .int (Reg.ellipticCurve.toI64 curve)), (.int (-2), .bytes x), (.int (-3), .bool ys)]⟩ ∧
    newEc2PrivKey curve x y d = ⟨.assigned Gen.idx_KeyType_EC2, [], none, [], [],
      [(.int (-1), .int (Reg.ellipticCurve.toI64 curve)), (.int (-2), .bytes x), (.int (-3), .bytes y), (.int (-4), .bytes d)]⟩ ∧
    newSymmetricKey kb = ⟨.assigned Gen.idx_KeyType_Symmetric, [], none, [], [], [(.int (-1), .bytes kb)]⟩ ∧
    newOkpKey = ⟨.assigned Gen.idx_KeyType_OKP, [], none, [], [], []⟩ := by
  refine ⟨?_, ?_, ?_, ?_, ?_⟩ <;> simp [newEc2PubKey, newEc2PubKeyYSign, newEc2PrivKey, newSymmetricKey, newOkpKey, CoseKey.default,
    Registry.toI64, Reg.ec2KeyParameter, Reg.symmetricKeyParameter, Gen.Ec2KeyParameter, Gen.SymmetricKeyParameter,
    Gen.idx_Ec2KeyParameter_Crv, Gen.idx_Ec2KeyParameter_X, Gen.idx_Ec2KeyParameter_Y, Gen.idx_Ec2KeyParameter_D,
    Gen.idx_SymmetricKeyParameter_K, ktyReservedIdx]

theorem key_types_named : Reg.keyType.toI64 Gen.idx_KeyType_EC2 = 2 ∧ Reg.keyType.toI64 Gen.idx_KeyType_Symmetric = 4 ∧
    Reg.keyType.toI64 Gen.idx_KeyType_OKP = 1 := by decide

/-! ### invariants over every call sequence -/

/-- a property kept by every successful call is kept by every call sequence. -/
theorem runOps_inv {β ο : Type} (apply : β → ο → Step β) (Inv : β → Prop) (step : ∀ b o b', Inv b → apply b o = .next b' → Inv b') :
    ∀ (ops : List ο) (b : β) (i : Nat) (b' : β), Inv b → (runOps apply ops b i).1 = .next b' → Inv b' := by
  intro ops
  induction ops with
  | nil => intro b i b' hi hr; simp [runOps] at hr; subst hr; exact hi
  | cons op ops ih =>
    intro b i b' hi hr
    simp only [runOps] at hr
    cases hs : apply b op with
    | next b1 => simp only [hs] at hr; exact ih b1 (i + 1) b' (step b op b1 hi hs) hr
    | fail n => simp [hs] at hr
    | panic s => simp [hs] at hr

/-- a call sequence stops at the first call that panics or whose closure fails, and reports that call's index. -/
theorem runOps_stops {β ο : Type} (apply : β → ο → Step β) (pre : List ο) (o : ο) (post : List ο) (b b1 : β) (i : Nat)
    (hp : runOps apply pre b i = (.next b1, i + pre.length)) :
    (∀ s, apply b1 o = .panic s → runOps apply (pre ++ o :: post) b i = (.panic s, i + pre.length)) ∧
    (∀ n, apply b1 o = .fail n → runOps apply (pre ++ o :: post) b i = (.fail n, i + pre.length)) := by
  induction pre generalizing b i with
  | nil =>
    simp [runOps] at hp; subst hp
    exact ⟨fun s h => by simp [runOps, h], fun n h => by simp [runOps, h]⟩
  | cons p ps ih =>
    simp only [runOps] at hp
    cases hs : apply b p with
    | next b2 =>
      simp only [hs] at hp
      have := ih b2 (i + 1) (by rw [hp]; simp; omega)
      constructor
      · intro s h; simp only [List.cons_append, runOps, hs]; rw [this.1 s h]; simp; omega
      · intro n h; simp only [List.cons_append, runOps, hs]; rw [this.2 n h]; simp; omega
    | fail n => simp [hs] at hp
    | panic s => simp [hs] at hp

/-- the extra parameters of a built header never sit under a label reserved for a typed field (1..7), whatever the call sequence. -/
def RestClean (h : Header) : Prop := ∀ p ∈ h.rest, ∀ l, p.1 = .int l → ¬ (1 ≤ l ∧ l ≤ 7)

theorem header_rest_clean (ops : List HeaderOp) (h' : Header) (hr : (runOps HeaderOp.apply ops Header.default 0).1 = .next h') :
    RestClean h' := by
  refine runOps_inv HeaderOp.apply RestClean ?_ ops Header.default 0 h' (by simp [RestClean, Header.default]) hr
  intro h op h1 hi hs
  cases h with
  | mk a c ct k i p cs r =>
    cases op <;> simp [HeaderOp.apply, Header.setKeyId, Header.setAlg, Header.setCrit, Header.setContentType,
      Header.setIv, Header.setPartialIv, Header.setCounterSignatures, Header.setRest] at hs <;>
      (try (subst hs; simpa [RestClean] using hi))
    case value l v =>
      by_cases hg : headerValueReserved l = true
      · simp [hg] at hs
      · simp [hg] at hs; subst hs
        intro q hq l' hl'
        have hq' : q ∈ r ++ [(Label.int l, v)] := hq
        rcases List.mem_append.mp hq' with hq | hq
        · exact hi q hq l' hl'
        · simp at hq; subst hq; simp at hl'; subst hl'
          intro hc; exact hg ((header_value_guard l).mpr hc)
    case textValue t v =>
      subst hs
      intro q hq l' hl'
      have hq' : q ∈ r ++ [(Label.text t, v)] := hq
      rcases List.mem_append.mp hq' with hq | hq
      · exact hi q hq l' hl'
      · simp at hq; subst hq; simp at hl'

/-- `key_ops` is a set: after any call sequence it is strictly ascending (no repetition), and `add_key_op` inserts. -/
theorem setInsert_total {α : Type} {cmp : α → α → Res Ordering} (ho : StrictOrd cmp) : ∀ (s : List α) (x : α),
    (∃ r, setInsert cmp s x = .ok (some r)) ∨ (setInsert cmp s x = .ok none ∧ ∃ y ∈ s, cmp x y = .ok .eq) := by
  intro s
  induction s with
  | nil => intro x; exact Or.inl ⟨[x], rfl⟩
  | cons y ys ih =>
    intro x
    obtain ⟨o, hc⟩ := ho.total x y
    cases o with
    | lt => exact Or.inl ⟨x :: y :: ys, by simp [setInsert, hc]⟩
    | eq => exact Or.inr ⟨by simp [setInsert, hc], y, by simp, hc⟩
    | gt =>
      rcases ih x with ⟨r, hr⟩ | ⟨hn, z, hz, hz'⟩
      · exact Or.inl ⟨y :: r, by simp [setInsert, hc, hr]⟩
      · exact Or.inr ⟨by simp [setInsert, hc, hn], z, by simp [hz], hz'⟩

theorem key_add_op (k : CoseKey) (i : Nat) (hs : Asc (RegLabel.cmp Reg.keyOperation) k.keyOps) :
    (∃ s, KeyOp.apply k (.addKeyOp i) = .next { k with keyOps := s } ∧ Asc (RegLabel.cmp Reg.keyOperation) s ∧
      ∀ z, z ∈ s ↔ (z = .assigned i ∨ z ∈ k.keyOps)) ∨
    (KeyOp.apply k (.addKeyOp i) = .next k ∧ ∃ y ∈ k.keyOps, RegLabel.cmp Reg.keyOperation (.assigned i) y = .ok .eq) := by
  rcases setInsert_total (regLabel_strict Reg.keyOperation) k.keyOps (.assigned i) with ⟨r, hr⟩ | ⟨hn, hy⟩
  · obtain ⟨h1, h2⟩ := setInsert_asc (regLabel_strict Reg.keyOperation) k.keyOps (.assigned i) r hs hr
    exact Or.inl ⟨r, by simp [KeyOp.apply, hr], h1, h2⟩
  · exact Or.inr ⟨by simp [KeyOp.apply, hn], hy⟩

def KeyClean (k : CoseKey) : Prop :=
  Asc (RegLabel.cmp Reg.keyOperation) k.keyOps ∧ ∀ p ∈ k.params, ∀ l, p.1 = .int l → ¬ (0 ≤ l ∧ l ≤ 5)

theorem key_step_clean (k : CoseKey) (op : KeyOp) (k' : CoseKey) (hi : KeyClean k) (hs : KeyOp.apply k op = .next k') : KeyClean k' := by
  cases op with
  | kty t => simp [KeyOp.apply] at hs; subst hs; exact hi
  | keyId b => simp [KeyOp.apply] at hs; subst hs; exact hi
  | baseIv b => simp [KeyOp.apply] at hs; subst hs; exact hi
  | keyType t => simp [KeyOp.apply] at hs; subst hs; exact hi
  | algorithm a => simp [KeyOp.apply] at hs; subst hs; exact hi
  | addKeyOp i =>
    rcases key_add_op k i hi.1 with ⟨s, h1, h2, _⟩ | ⟨h1, _⟩
    · rw [h1] at hs; cases hs; exact ⟨h2, hi.2⟩
    · rw [h1] at hs; cases hs; exact hi
  | param l v =>
    by_cases hg : keyParamReserved l = true
    · simp [KeyOp.apply, hg] at hs
    · simp [KeyOp.apply, hg] at hs; subst hs
      refine ⟨hi.1, ?_⟩
      intro q hq l' hl'
      simp only [List.mem_append, List.mem_singleton] at hq
      rcases hq with hq | rfl
      · exact hi.2 q hq l' hl'
      · simp at hl'; subst hl'
        intro hc; exact hg ((key_param_guard l).mpr hc)

/-- every key built from a constructor by any call sequence: `key_ops` is a set and no extra parameter shadows a common parameter. -/
theorem key_clean (ops : List KeyOp) (k0 k' : CoseKey) (h0 : KeyClean k0) (hr : (runOps KeyOp.apply ops k0 0).1 = .next k') : KeyClean k' :=
  runOps_inv KeyOp.apply KeyClean key_step_clean ops k0 0 k' h0 hr

theorem constructors_clean (curve : Nat) (x y d kb : Bytes) (ys : Bool) :
    KeyClean (newEc2PubKey curve x y) ∧ KeyClean (newEc2PubKeyYSign curve x ys) ∧ KeyClean (newEc2PrivKey curve x y d) ∧
    KeyClean (newSymmetricKey kb) ∧ KeyClean newOkpKey := by
  obtain ⟨h1, h2, h3, h4, h5⟩ := constructors curve x y d kb ys
  rw [h1, h2, h3, h4, h5]
  refine ⟨?_, ?_, ?_, ?_, ?_⟩ <;> refine ⟨by simp [Asc], ?_⟩ <;> intro p hp l hl <;> simp at hp
  · rcases hp with rfl | rfl | rfl <;> simp at hl <;> omega
  · rcases hp with rfl | rfl | rfl <;> simp at hl <;> omega
  · rcases hp with rfl | rfl | rfl | rfl <;> simp at hl <;> omega
  · subst hp; simp at hl; omega

/-- a built claims set: no extra claim under a name reserved for a typed claim (1..7), no private-use entry outside the private range. -/
def ClaimsClean (c : ClaimsSet) : Prop :=
  ∀ p ∈ c.rest, (∀ k, p.1 = .assigned k → ¬ (1 ≤ Reg.cwtClaimName.toI64 k ∧ Reg.cwtClaimName.toI64 k ≤ 7)) ∧
    (∀ id, p.1 = .privateUse id → id < -65536)

theorem claims_clean (ops : List ClaimsOp) (c' : ClaimsSet) (hr : (runOps ClaimsOp.apply ops ClaimsSet.default 0).1 = .next c') :
    ClaimsClean c' := by
  refine runOps_inv ClaimsOp.apply ClaimsClean ?_ ops ClaimsSet.default 0 c' (by simp [ClaimsClean, ClaimsSet.default]) hr
  intro c op c1 hi hs
  have app : ∀ (e : RegLabelPriv × Value), ((∀ k, e.1 = .assigned k → ¬ (1 ≤ Reg.cwtClaimName.toI64 k ∧ Reg.cwtClaimName.toI64 k ≤ 7)) ∧
      (∀ id, e.1 = .privateUse id → id < -65536)) → ClaimsClean { c with rest := c.rest ++ [e] } := by
    intro e he q hq
    simp only [List.mem_append, List.mem_singleton] at hq
    rcases hq with hq | rfl
    · exact hi q hq
    · exact he
  cases op with
  | issuer t => simp [ClaimsOp.apply] at hs; subst hs; exact hi
  | subject t => simp [ClaimsOp.apply] at hs; subst hs; exact hi
  | audience t => simp [ClaimsOp.apply] at hs; subst hs; exact hi
  | expirationTime t => simp [ClaimsOp.apply] at hs; subst hs; exact hi
  | notBefore t => simp [ClaimsOp.apply] at hs; subst hs; exact hi
  | issuedAt t => simp [ClaimsOp.apply] at hs; subst hs; exact hi
  | cwtId t => simp [ClaimsOp.apply] at hs; subst hs; exact hi
  | claim k v =>
    by_cases hg : claimReserved k = true
    · simp [ClaimsOp.apply, hg] at hs
    · simp [ClaimsOp.apply, hg] at hs; subst hs
      exact app _ ⟨fun k' hk' => by simp at hk'; subst hk'; intro hc; exact hg ((claim_guard k).mpr hc), fun id hid => by simp at hid⟩
  | textClaim n v =>
    simp [ClaimsOp.apply] at hs; subst hs
    exact app _ ⟨fun k' hk' => by simp at hk', fun id hid => by simp at hid⟩
  | privateClaim id v =>
    by_cases hp : id < -65536
    · have := (claims_guards c 0 id v).2.2.2 hp
      rw [this] at hs; cases hs
      exact app _ ⟨fun k' hk' => by simp at hk', fun id' hid' => by simp at hid'; subst hid'; exact hp⟩
    · obtain ⟨s, hs'⟩ := (claims_guards c 0 id v).2.2.1 hp
      rw [hs'] at hs; cases hs

/-- the plain setters of every other builder: the call replaces its field and leaves all others untouched; adders append. -/
theorem setters_frame (s : CoseSignature) (sg : CoseSign) (m1 : CoseSign1) (mc : CoseMac) (m0 : CoseMac0) (e : CoseEncrypt) (e0 : CoseEncrypt0)
    (r r2 : CoseRecipient) (pi : PartyInfo) (sp : SuppPubInfo) (kc : CoseKdfContext) (h : Header) (b : Bytes) (n : Nonce) (len : Int) (a : Nat) (sig : CoseSignature) :
    SignatureOp.apply s (.unprotected h) = .next (.mk s.protected_ h s.signature) ∧
    SignatureOp.apply s (.signature b) = .next (.mk s.protected_ s.unprotected b) ∧
    SignOp.apply sg (.unprotected h) = .next { sg with unprotected := h } ∧
    SignOp.apply sg (.payload b) = .next { sg with payload := some b } ∧
    SignOp.apply sg (.addSignature sig) = .next { sg with signatures := sg.signatures ++ [sig] } ∧
    Sign1Op.apply m1 (.unprotected h) = .next { m1 with unprotected := h } ∧
    MacOp.apply mc (.unprotected h) = .next { mc with unprotected := h } ∧
    MacOp.apply mc (.tag b) = .next { mc with tag := b } ∧
    MacOp.apply mc (.payload b) = .next { mc with payload := some b } ∧
    MacOp.apply mc (.addRecipient r2) = .next { mc with recipients := mc.recipients ++ [r2] } ∧
    Mac0Op.apply m0 (.unprotected h) = .next { m0 with unprotected := h } ∧
    Mac0Op.apply m0 (.tag b) = .next { m0 with tag := b } ∧
    Mac0Op.apply m0 (.payload b) = .next { m0 with payload := some b } ∧
    EncryptOp.apply e (.unprotected h) = .next { e with unprotected := h } ∧
    EncryptOp.apply e (.ciphertext b) = .next { e with ciphertext := some b } ∧
    EncryptOp.apply e (.addRecipient r2) = .next { e with recipients := e.recipients ++ [r2] } ∧
    Encrypt0Op.apply e0 (.unprotected h) = .next { e0 with unprotected := h } ∧
    Encrypt0Op.apply e0 (.ciphertext b) = .next { e0 with ciphertext := some b } ∧
    RecipientOp.apply r (.unprotected h) = .next (.mk r.protected_ h r.ciphertext r.recipients) ∧
    RecipientOp.apply r (.ciphertext b) = .next (.mk r.protected_ r.unprotected (some b) r.recipients) ∧
    RecipientOp.apply r (.addRecipient r2) = .next (.mk r.protected_ r.unprotected r.ciphertext (r.recipients ++ [r2])) ∧
    PartyOp.apply pi (.identity b) = .next { pi with identity := some b } ∧
    PartyOp.apply pi (.nonce n) = .next { pi with nonce := some n } ∧
    PartyOp.apply pi (.other b) = .next { pi with other := some b } ∧
    SuppOp.apply sp (.keyDataLength len) = .next { sp with keyDataLength := len } ∧
    SuppOp.apply sp (.other b) = .next { sp with other := some b } ∧
    KdfOp.apply kc (.partyUInfo pi) = .next { kc with partyUInfo := pi } ∧
    KdfOp.apply kc (.partyVInfo pi) = .next { kc with partyVInfo := pi } ∧
    KdfOp.apply kc (.suppPubInfo sp) = .next { kc with suppPubInfo := sp } ∧
    KdfOp.apply kc (.algorithm a) = .next { kc with algorithmId := .assigned a } ∧
    KdfOp.apply kc (.addSuppPrivInfo b) = .next { kc with suppPrivInfo := kc.suppPrivInfo ++ [b] } := by
  refine ⟨rfl, rfl, rfl, rfl, rfl, rfl, rfl, rfl, rfl, rfl, rfl, rfl, rfl, rfl, rfl, rfl, rfl, rfl, rfl, rfl, rfl, rfl, rfl, rfl, rfl, rfl, rfl, rfl, rfl, rfl, rfl⟩

/-- non-vacuity: adding the same key operation twice leaves one entry; a smaller one goes in front. -/
example : (runOps KeyOp.apply [.addKeyOp 2, .addKeyOp 1, .addKeyOp 2] newOkpKey 0).1 =
    .next { newOkpKey with keyOps := [.assigned 1, .assigned 2] } := by
  rfl

/-- non-vacuity: iv then partial_iv leaves only the partial IV; value(7) panics, value(8) is appended. -/
example : (runOps HeaderOp.apply [.iv [1], .partialIv [2]] Header.default 0).1 = .next (.mk none [] none [] [] [2] [] []) := by
  simp [runOps, HeaderOp.apply, Header.default, Header.setIv, Header.setPartialIv]
example : ∃ s, HeaderOp.apply Header.default (.value 7 .null) = .panic s := (header_apply _ _).2 (by simp [headerEffect])


#print axioms header_value_guard
#print axioms header_apply
#print axioms iv_exclusive_step
#print axioms iv_exclusive
#print axioms iv_exclusive_from_new
#print axioms header_setter_overrides
#print axioms header_setters_commute
#print axioms sign1_setter_frame
#print axioms protected_discards_original
#print axioms protected_discards_original_all
#print axioms adders_append
#print axioms key_param_guard
#print axioms key_param
#print axioms claim_guard
#print axioms claims_guards
#print axioms constructors
#print axioms key_types_named
#print axioms runOps_inv
#print axioms runOps_stops
#print axioms header_rest_clean
#print axioms key_add_op
#print axioms key_clean
#print axioms constructors_clean
#print axioms claims_clean
#print axioms setters_frame

end Coset.Props.C19
