import CosetModel.Api
namespace Coset.Props.C19

end Coset.Props.C19
