/-
  C19 — builders apply exactly the documented effect of each call, in any order.
-/
import CosetModel.Builders
namespace Coset.Props.C19
open Coset

/-! ### HeaderBuilder: effect of every call, field by field (frame + update) -/
@[simp] theorem hdr_fields (a c ct k i p cs r) :
    (Header.mk a c ct k i p cs r).alg = a ∧ (Header.mk a c ct k i p cs r).crit = c ∧ (Header.mk a c ct k i p cs r).contentType = ct ∧
    (Header.mk a c ct k i p cs r).keyId = k ∧ (Header.mk a c ct k i p cs r).iv = i ∧ (Header.mk a c ct k i p cs r).partialIv = p ∧
    (Header.mk a c ct k i p cs r).counterSignatures = cs ∧ (Header.mk a c ct k i p cs r).rest = r := ⟨rfl, rfl, rfl, rfl, rfl, rfl, rfl, rfl⟩

/-- the documented effect of each `HeaderBuilder` call on a header (`none` = refused with a panic). -/
def headerEffect (h : Header) : HeaderOp → Option Header
  | .keyId b => some (.mk h.alg h.crit h.contentType b h.iv h.partialIv h.counterSignatures h.rest)
  | .algorithm k => some (.mk (some (.assigned k)) h.crit h.contentType h.keyId h.iv h.partialIv h.counterSignatures h.rest)
  | .addCritical k => some (.mk h.alg (h.crit ++ [.assigned k]) h.contentType h.keyId h.iv h.partialIv h.counterSignatures h.rest)
  | .addCriticalLabel l => some (.mk h.alg (h.crit ++ [l]) h.contentType h.keyId h.iv h.partialIv h.counterSignatures h.rest)
  | .contentFormat k => some (.mk h.alg h.crit (some (.assigned k)) h.keyId h.iv h.partialIv h.counterSignatures h.rest)
  | .contentType t => some (.mk h.alg h.crit (some (.text t)) h.keyId h.iv h.partialIv h.counterSignatures h.rest)
  | .iv b => some (.mk h.alg h.crit h.contentType h.keyId b [] h.counterSignatures h.rest)
  | .partialIv b => some (.mk h.alg h.crit h.contentType h.keyId [] b h.counterSignatures h.rest)
  | .addCounterSignature s => some (.mk h.alg h.crit h.contentType h.keyId h.iv h.partialIv (h.counterSignatures ++ [s]) h.rest)
  | .value l v => if 1 ≤ l ∧ l ≤ 7 then none
                  else some (.mk h.alg h.crit h.contentType h.keyId h.iv h.partialIv h.counterSignatures (h.rest ++ [(.int l, v)]))
  | .textValue l v => some (.mk h.alg h.crit h.contentType h.keyId h.iv h.partialIv h.counterSignatures (h.rest ++ [(.text l, v)]))

theorem header_value_guard (l : Int) : headerValueReserved l = true ↔ (1 ≤ l ∧ l ≤ 7) := by
  simp [headerValueReserved, Registry.toI64, Reg.headerParameter, Gen.HeaderParameter, Gen.idx_HeaderParameter_Alg,
    Gen.idx_HeaderParameter_CounterSignature]

/-- every `HeaderBuilder` call has exactly its documented effect (and `value` panics exactly on labels 1..7). -/
theorem header_apply (h : Header) (op : HeaderOp) :
    (∀ h', headerEffect h op = some h' → HeaderOp.apply h op = .next h') ∧
    (headerEffect h op = none → ∃ s, HeaderOp.apply h op = .panic s) := by
  cases h with
  | mk a c ct k i p cs r =>
    cases op <;> simp [headerEffect, HeaderOp.apply, Header.setKeyId, Header.setAlg, Header.setCrit, Header.setContentType,
      Header.setIv, Header.setPartialIv, Header.setCounterSignatures, Header.setRest]
    case value l v =>
      by_cases hl : 1 ≤ l ∧ l ≤ 7
      · have := (header_value_guard l).mpr hl; simp [hl, this]
      · have : headerValueReserved l = false := by
          cases hg : headerValueReserved l
          · rfl
          · exact absurd ((header_value_guard l).mp hg) hl
        simp [this]
        intro h1; omega

/-- a built header never carries both an IV and a Partial IV, whatever the call sequence. -/
def IvExclusive (h : Header) : Prop := h.iv = [] ∨ h.partialIv = []

theorem iv_exclusive_step (h : Header) (op : HeaderOp) (h' : Header) (hi : IvExclusive h) (hs : HeaderOp.apply h op = .next h') :
    IvExclusive h' := by
  cases h with
  | mk a c ct k i p cs r =>
    cases op <;> simp [HeaderOp.apply, Header.setKeyId, Header.setAlg, Header.setCrit, Header.setContentType,
      Header.setIv, Header.setPartialIv, Header.setCounterSignatures, Header.setRest] at hs <;>
      (try (subst hs; simpa [IvExclusive] using hi)) <;> (try (subst hs; simp [IvExclusive]))
    case value l v =>
      split at hs
      · simp at hs
      · simp at hs; subst hs; simpa [IvExclusive] using hi

theorem iv_exclusive (ops : List HeaderOp) : ∀ (h : Header) (i : Nat), IvExclusive h →
    ∀ h', (runOps HeaderOp.apply ops h i).1 = .next h' → IvExclusive h' := by
  induction ops with
  | nil => intro h i hi h' hr; simp [runOps] at hr; subst hr; exact hi
  | cons op ops ih =>
    intro h i hi h' hr
    simp only [runOps] at hr
    cases hs : HeaderOp.apply h op with
    | next h1 => simp only [hs] at hr; exact ih h1 (i + 1) (iv_exclusive_step h op h1 hi hs) h' hr
    | fail n => simp [hs] at hr
    | panic s => simp [hs] at hr

theorem iv_exclusive_from_new (ops : List HeaderOp) (h' : Header) (hr : (runOps HeaderOp.apply ops Header.default 0).1 = .next h') :
    ¬ (h'.iv ≠ [] ∧ h'.partialIv ≠ []) := by
  have := iv_exclusive ops Header.default 0 (Or.inl rfl) h' hr
  unfold IvExclusive at this
  intro ⟨h1, h2⟩; cases this <;> contradiction

/-! ### setters: a later call overrides an earlier one; calls on different fields commute -/
theorem header_setter_overrides (h : Header) (b1 b2 : Bytes) :
    (runOps HeaderOp.apply [.keyId b1, .keyId b2] h 0).1 = (runOps HeaderOp.apply [.keyId b2] h 0).1 := by
  cases h; simp [runOps, HeaderOp.apply, Header.setKeyId]

theorem header_setters_commute (h : Header) (b : Bytes) (k : Nat) :
    (runOps HeaderOp.apply [.keyId b, .algorithm k] h 0).1 = (runOps HeaderOp.apply [.algorithm k, .keyId b] h 0).1 := by
  cases h; simp [runOps, HeaderOp.apply, Header.setKeyId, Header.setAlg]

theorem sign1_setter_frame (m : CoseSign1) (b : Bytes) :
    Sign1Op.apply m (.payload b) = .next { m with payload := some b } ∧ Sign1Op.apply m (.signature b) = .next { m with signature := b } := ⟨rfl, rfl⟩

/-- setting a protected header discards any previously retained wire bytes. -/
theorem protected_discards_original (m : CoseSign1) (h : Header) :
    Sign1Op.apply m (.protected_ h) = .next { m with protected_ := .mk none h } := rfl
theorem protected_discards_original_all (h : Header) (s : CoseSignature) (sg : CoseSign) (mc : CoseMac) (m0 : CoseMac0)
    (e : CoseEncrypt) (e0 : CoseEncrypt0) (r : CoseRecipient) (sp : SuppPubInfo) :
    SignatureOp.apply s (.protected_ h) = .next (.mk (.mk none h) s.unprotected s.signature) ∧
    SignOp.apply sg (.protected_ h) = .next { sg with protected_ := .mk none h } ∧
    MacOp.apply mc (.protected_ h) = .next { mc with protected_ := .mk none h } ∧
    Mac0Op.apply m0 (.protected_ h) = .next { m0 with protected_ := .mk none h } ∧
    EncryptOp.apply e (.protected_ h) = .next { e with protected_ := .mk none h } ∧
    Encrypt0Op.apply e0 (.protected_ h) = .next { e0 with protected_ := .mk none h } ∧
    RecipientOp.apply r (.protected_ h) = .next (.mk (.mk none h) r.unprotected r.ciphertext r.recipients) ∧
    SuppOp.apply sp (.protected_ h) = .next { sp with protected_ := .mk none h } := ⟨rfl, rfl, rfl, rfl, rfl, rfl, rfl, rfl⟩

/-- adders append in call order. -/
theorem adders_append (m : CoseSign) (s1 s2 : CoseSignature) :
    (runOps SignOp.apply [.addSignature s1, .addSignature s2] m 0).1 = .next { m with signatures := m.signatures ++ [s1, s2] } := by
  simp [runOps, SignOp.apply]

/-! ### guards -/
theorem key_param_guard (l : Int) : keyParamReserved l = true ↔ (0 ≤ l ∧ l ≤ 5) := by
  constructor
  · intro h
    simp only [keyParamReserved, Registry.fromI64, Reg.keyParameter, Gen.KeyParameter] at h
    rw [Option.isSome_iff_exists] at h
    obtain ⟨k, hk⟩ := h
    rw [List.findIdx?_eq_some_iff_getElem] at hk
    obtain ⟨hlt, hp, _⟩ := hk
    simp at hlt
    have : k = 0 ∨ k = 1 ∨ k = 2 ∨ k = 3 ∨ k = 4 ∨ k = 5 := by omega
    rcases this with h | h | h | h | h | h <;> subst h <;> simp at hp <;> omega
  · intro ⟨h0, h5⟩
    have : l = 0 ∨ l = 1 ∨ l = 2 ∨ l = 3 ∨ l = 4 ∨ l = 5 := by omega
    rcases this with h | h | h | h | h | h <;> subst h <;> decide

theorem key_param (k : CoseKey) (l : Int) (v : Value) :
    (keyParamReserved l = true → ∃ s, KeyOp.apply k (.param l v) = .panic s) ∧
    (keyParamReserved l = false → KeyOp.apply k (.param l v) = .next { k with params := k.params ++ [(.int l, v)] }) := by
  constructor <;> intro h <;> simp [KeyOp.apply, h]

theorem claim_guard (k : Nat) : claimReserved k = true ↔ (1 ≤ Reg.cwtClaimName.toI64 k ∧ Reg.cwtClaimName.toI64 k ≤ 7) := by
  simp [claimReserved, Registry.toI64, Reg.cwtClaimName, Gen.CwtClaimName, Gen.idx_CwtClaimName_Iss, Gen.idx_CwtClaimName_Cti]

theorem claims_guards (c : ClaimsSet) (k : Nat) (id : Int) (v : Value) :
    (claimReserved k = true → ∃ s, ClaimsOp.apply c (.claim k v) = .panic s) ∧
    (claimReserved k = false → ClaimsOp.apply c (.claim k v) = .next { c with rest := c.rest ++ [(.assigned k, v)] }) ∧
    (¬ id < -65536 → ∃ s, ClaimsOp.apply c (.privateClaim id v) = .panic s) ∧
    (id < -65536 → ClaimsOp.apply c (.privateClaim id v) = .next { c with rest := c.rest ++ [(.privateUse id, v)] }) := by
  refine ⟨?_, ?_, ?_, ?_⟩
  · intro h; simp [ClaimsOp.apply, h]
  · intro h; simp [ClaimsOp.apply, h]
  · intro h; simp [ClaimsOp.apply, Registry.private?, Reg.cwtClaimName, Gen.CwtClaimName_isPrivate, h]
  · intro h; simp [ClaimsOp.apply, Registry.private?, Reg.cwtClaimName, Gen.CwtClaimName_isPrivate, h]

/-! ### key constructors populate exactly the key type and parameters they name -/
theorem constructors (curve : Nat) (x y d kb : Bytes) (ys : Bool) :
    newEc2PubKey curve x y = ⟨.assigned Gen.idx_KeyType_EC2, [], none, [], [],
      [(.int (-1), .int (Reg.ellipticCurve.toI64 curve)), (.int (-2), .bytes x), (.int (-3), .bytes y)]⟩ ∧
    newEc2PubKeyYSign curve x ys = ⟨.assigned Gen.idx_KeyType_EC2, [], none, [], [],
      [(.int (-1), .int (Reg.ellipticCurve.toI64 curve)), (.int (-2), .bytes x), (.int (-3), .bool ys)]⟩ ∧
    newEc2PrivKey curve x y d = ⟨.assigned Gen.idx_KeyType_EC2, [], none, [], [],
      [(.int (-1), .int (Reg.ellipticCurve.toI64 curve)), (.int (-2), .bytes x), (.int (-3), .bytes y), (.int (-4), .bytes d)]⟩ ∧
    newSymmetricKey kb = ⟨.assigned Gen.idx_KeyType_Symmetric, [], none, [], [], [(.int (-1), .bytes kb)]⟩ ∧
    newOkpKey = ⟨.assigned Gen.idx_KeyType_OKP, [], none, [], [], []⟩ := by
  refine ⟨?_, ?_, ?_, ?_, ?_⟩ <;> simp [newEc2PubKey, newEc2PubKeyYSign, newEc2PrivKey, newSymmetricKey, newOkpKey, CoseKey.default,
    Registry.toI64, Reg.ec2KeyParameter, Reg.symmetricKeyParameter, Gen.Ec2KeyParameter, Gen.SymmetricKeyParameter,
    Gen.idx_Ec2KeyParameter_Crv, Gen.idx_Ec2KeyParameter_X, Gen.idx_Ec2KeyParameter_Y, Gen.idx_Ec2KeyParameter_D,
    Gen.idx_SymmetricKeyParameter_K, ktyReservedIdx]

theorem key_types_named : Reg.keyType.toI64 Gen.idx_KeyType_EC2 = 2 ∧ Reg.keyType.toI64 Gen.idx_KeyType_Symmetric = 4 ∧
    Reg.keyType.toI64 Gen.idx_KeyType_OKP = 1 := by decide

/-- non-vacuity: iv then partial_iv leaves only the partial IV; value(7) panics, value(8) is appended. -/
example : (runOps HeaderOp.apply [.iv [1], .partialIv [2]] Header.default 0).1 = .next (.mk none [] none [] [] [2] [] []) := by
  simp [runOps, HeaderOp.apply, Header.default, Header.setIv, Header.setPartialIv]
example : ∃ s, HeaderOp.apply Header.default (.value 7 .null) = .panic s := (header_apply _ _).2 (by simp [headerEffect])


#print axioms header_value_guard
#print axioms header_apply
#print axioms iv_exclusive_step
#print axioms iv_exclusive
#print axioms iv_exclusive_from_new
#print axioms header_setter_overrides
#print axioms header_setters_commute
#print axioms sign1_setter_frame
#print axioms protected_discards_original
#print axioms protected_discards_original_all
#print axioms adders_append
#print axioms key_param_guard
#print axioms key_param
#print axioms claim_guard
#print axioms claims_guards
#print axioms constructors
#print axioms key_types_named

end Coset.Props.C19
