import CosetModel.Api
namespace Coset.Props.C12

end Coset.Props.C12
