/-
  C12 — no map handled by the crate ever carries the same label twice.
-/
import CosetProofs.KeyLoop
import CosetProofs.HeaderFields
import CosetProofs.Cbor.Encodings
namespace Coset.Props.C12
open Coset

/-- the labels denoted by the keys of a wire map (`18 01` and `01`, or differently chunked texts, denote one label:
    this is a function of the parsed *value*, not of the bytes). -/
def labelsOf (m : List (Value × Value)) : Res (List Label) := keyLabels m

/-- decode, header maps: an accepted map has keys that all denote labels, pairwise distinct. -/
theorem header_accepts_only_distinct (fuel d : Nat) (m : List (Value × Value)) (h : Header)
    (hok : Header.fromValue fuel d (.map m) = .ok h) : ∃ ls, labelsOf m = .ok ls ∧ ls.Nodup := by
  cases fuel with
  | zero => simp [Header.fromValue] at hok
  | succ f =>
    simp only [Header.fromValue, tryAsMap] at hok
    obtain ⟨ls, hl, hfr, _⟩ := (headerLoop_ok_iff _ _ m _ _ _).mp hok
    exact ⟨ls, hl, hfr.1⟩

/-- contrapositive form: a header map in which two keys denote the same label is never accepted. -/
theorem header_dup_rejected (fuel d : Nat) (m : List (Value × Value)) (ls : List Label) (hl : labelsOf m = .ok ls) (hdup : ¬ ls.Nodup) :
    ∀ h, Header.fromValue fuel d (.map m) ≠ .ok h := by
  intro h hok
  obtain ⟨ls', hl', hnd⟩ := header_accepts_only_distinct fuel d m h hok
  rw [hl] at hl'; simp at hl'; subst hl'; exact hdup hnd

/-- … at every nesting position: the conversions of signatures, recipients, messages and protected byte strings all go through
    `Header.fromValue`, so the statement above covers them (shown here for the protected bstr and the signature). -/
theorem protected_dup_rejected (fuel d : Nat) (data : Bytes) (m : List (Value × Value)) (ls : List Label)
    (hne : data ≠ []) (hparse : readToValue data = .ok (.map m)) (hl : labelsOf m = .ok ls) (hdup : ¬ ls.Nodup) :
    ∀ p, ProtectedHeader.fromBstr fuel d (.bytes data) ≠ .ok p := by
  intro p hok
  cases fuel with
  | zero => simp [ProtectedHeader.fromBstr] at hok
  | succ f =>
    have : data.isEmpty = false := by cases data <;> simp_all
    simp only [ProtectedHeader.fromBstr, tryAsBytes, this, hparse] at hok
    cases hh : Header.fromValue f d (.map m) with
    | ok h => exact header_dup_rejected f d m ls hl hdup h hh
    | err e => simp [hh] at hok
    | panic q => simp [hh] at hok

/-- error kind: when everything before the second occurrence is acceptable and the repeated key denotes a label,
    the result is `DuplicateMapKey`, whatever the value under the repeated key. -/
theorem header_dup_error_kind (d : Nat) (sf : Value → Res CoseSignature) (p q : List (Value × Value)) (k x : Value) (l : Label)
    (lp : List Label) (hp : Header) (hlp : labelsOf p = .ok lp) (hnd : lp.Nodup)
    (hfold : foldRes (headerStep d sf) (lp.zip (p.map (·.2))) Header.default = .ok hp)
    (hk : Label.fromValue k = .ok l) (hmem : l ∈ lp) :
    headerLoop d sf (p ++ (k, x) :: q) Header.default [] = .err .duplicateMapKey := by
  rw [headerLoop_eq_gen]
  exact genLoop_dup Label.fromValue Label.cmp (headerStep d sf) (fun _ => True) label_loop_hyps.1 label_loop_hyps.2
    p Header.default hp [] lp k x l q (by simp) hlp ⟨hnd, by simp⟩ hfold hk (by simpa using hmem)

/-- the literal reading "always the duplicate-key error, even if an earlier pair is itself malformed" is not what sequential
    validation gives: `{1: h'', 1: 0}` fails on the first pair (alg must be int/tstr) before the duplicate is met. -/
example : (hdrFromValue (.map [(.int 1, .bytes []), (.int 1, .int 0)])).errKind? = some .unexpectedItem := by decide +kernel

/-- decode, COSE_Key. -/
theorem key_accepts_only_distinct (m : List (Value × Value)) (k : CoseKey) (hok : CoseKey.fromValue (.map m) = .ok k) :
    ∃ ls, labelsOf m = .ok ls ∧ ls.Nodup := by
  simp only [CoseKey.fromValue, tryAsMap] at hok
  cases hl : keyLoop m CoseKey.default [] with
  | ok k1 =>
    rw [keyLoop_eq_gen] at hl
    obtain ⟨ls, hls, hfr, _⟩ := (genLoop_ok_iff Label.fromValue Label.cmp keyStep (fun _ => True) label_loop_hyps.1 label_loop_hyps.2
      m CoseKey.default k1 [] (by simp)).mp hl
    exact ⟨ls, hls, hfr.1⟩
  | err e => simp [hl] at hok
  | panic p => simp [hl] at hok

theorem key_dup_error_kind (p q : List (Value × Value)) (k x : Value) (l : Label) (lp : List Label) (kp : CoseKey)
    (hlp : labelsOf p = .ok lp) (hnd : lp.Nodup) (hfold : foldRes keyStep (lp.zip (p.map (·.2))) CoseKey.default = .ok kp)
    (hk : Label.fromValue k = .ok l) (hmem : l ∈ lp) :
    CoseKey.fromValue (.map (p ++ (k, x) :: q)) = .err .duplicateMapKey := by
  have := genLoop_dup Label.fromValue Label.cmp keyStep (fun _ => True) label_loop_hyps.1 label_loop_hyps.2
    p CoseKey.default kp [] lp k x l q (by simp) hlp ⟨hnd, by simp⟩ hfold hk (by simpa using hmem)
  simp [CoseKey.fromValue, tryAsMap, keyLoop_eq_gen, this]

/-! ### encode side -/
/-- the `seen` loop of `Header::to_cbor_value` / `CoseKey::to_cbor_value`: it fails on a repeated extra label and on an
    extra label already emitted for a populated typed field; when it succeeds the appended keys are distinct from all earlier ones. -/
theorem restToPairs_ok (rest : List (Label × Value)) : ∀ (seen : List Label) (acc m : List (Value × Value)),
    restToPairs rest seen acc = .ok m →
      (rest.map (·.1)).Nodup ∧ (∀ l ∈ rest.map (·.1), l ∉ seen) ∧
      m = acc ++ rest.map (fun p => ((match p.1 with | .int i => Value.int i | .text t => Value.text t), p.2)) := by
  induction rest with
  | nil => intro seen acc m h; simp [restToPairs] at h; subst h; simp
  | cons lv rest ih =>
    intro seen acc m h
    obtain ⟨l, v⟩ := lv
    simp only [restToPairs, setContains_label] at h
    by_cases hin : l ∈ seen
    · simp [hin] at h
    · simp only [hin, decide_false] at h
      cases l with
      | int i =>
        simp only [Label.toValue] at h
        obtain ⟨h1, h2, h3⟩ := ih _ _ _ h
        refine ⟨?_, ?_, ?_⟩
        · simp only [List.map_cons, List.nodup_cons]; exact ⟨fun hm => h2 _ hm (by simp), h1⟩
        · intro x hx; simp only [List.map_cons, List.mem_cons] at hx
          rcases hx with rfl | hx
          · exact hin
          · intro hs; exact h2 x hx (by simp [hs])
        · rw [h3]; simp
      | text t =>
        simp only [Label.toValue] at h
        obtain ⟨h1, h2, h3⟩ := ih _ _ _ h
        refine ⟨?_, ?_, ?_⟩
        · simp only [List.map_cons, List.nodup_cons]; exact ⟨fun hm => h2 _ hm (by simp), h1⟩
        · intro x hx; simp only [List.map_cons, List.mem_cons] at hx
          rcases hx with rfl | hx
          · exact hin
          · intro hs; exact h2 x hx (by simp [hs])
        · rw [h3]; simp

/-- two equal extra labels, or an extra label equal to an already emitted typed label: encoding fails with `DuplicateMapKey`. -/
theorem restToPairs_dup (rest : List (Label × Value)) (seen : List Label) (acc : List (Value × Value))
    (h : ¬ ((rest.map (·.1)).Nodup ∧ ∀ l ∈ rest.map (·.1), l ∉ seen)) : restToPairs rest seen acc = .err .duplicateMapKey := by
  induction rest generalizing seen acc with
  | nil => simp at h
  | cons lv rest ih =>
    obtain ⟨l, v⟩ := lv
    simp only [restToPairs, setContains_label]
    by_cases hin : l ∈ seen
    · simp [hin]
    · simp only [hin, decide_false]
      have hn : ¬ ((rest.map (·.1)).Nodup ∧ ∀ x ∈ rest.map (·.1), x ∉ seen ++ [l]) := by
        intro ⟨h1, h2⟩
        apply h
        refine ⟨?_, ?_⟩
        · simp only [List.map_cons, List.nodup_cons]; exact ⟨fun hm => h2 _ hm (by simp), h1⟩
        · intro x hx; simp only [List.map_cons, List.mem_cons] at hx
          rcases hx with rfl | hx
          · exact hin
          · intro hs; exact h2 x hx (by simp [hs])
      cases l <;> simp only [Label.toValue] <;> exact ih _ _ hn

/-- ClaimsSet: encoding does NOT check (the crate's own test `test_cwt_dup_claim` pins this) — known finding D2-claims. -/
theorem claims_encode_dup_refuted :
    toVec ClaimsSet.toValue ⟨none, none, none, none, none, none, none, [(.assigned Gen.idx_CwtClaimName_Cnf, .null), (.assigned Gen.idx_CwtClaimName_Cnf, .int 1)]⟩
      = .ok [0xa2, 0x08, 0xf6, 0x08, 0x01] := by decide +kernel

/-- non-vacuity: `{4: h'01', 4: h'02'}` (dup) and `{1: -7, 0x1801: 0}` — same label in two encodings, equal after parsing. -/
example : (hdrFromValue (.map [(.int 4, .bytes [1]), (.int 4, .bytes [2])])).errKind? = some .duplicateMapKey := by decide +kernel
example : (fromSlice hdrFromValue [0xa2, 0x01, 0x26, 0x18, 0x01, 0x00]).errKind? = some .duplicateMapKey := by decide +kernel

/-- "however each key is encoded": whatever well-formed encoding of a map with two keys denoting the same label arrives (the two
    keys possibly written in different widths, the map definite or indefinite), `Header::from_slice` does not accept it. -/
theorem header_dup_rejected_any_encoding (m : List (Value × Value)) (ls : List Label) (b : Bytes) (hb : Spec.Encodes (.map m) b)
    (hd : Cbor.depthOf (.map m) ≤ Cbor.recursionLimit) (hl : labelsOf m = .ok ls) (hdup : ¬ ls.Nodup) :
    ∀ h, fromSlice hdrFromValue b ≠ .ok h := by
  intro h hok
  rw [fromSlice_of_encodes _ _ b hb hd] at hok
  exact header_dup_rejected _ _ m ls hl hdup h hok

theorem key_dup_rejected_any_encoding (m : List (Value × Value)) (b : Bytes) (hb : Spec.Encodes (.map m) b)
    (hd : Cbor.depthOf (.map m) ≤ Cbor.recursionLimit) (k : CoseKey) (hok : fromSlice CoseKey.fromValue b = .ok k) :
    ∃ ls, labelsOf m = .ok ls ∧ ls.Nodup := by
  rw [fromSlice_of_encodes _ _ b hb hd] at hok
  exact key_accepts_only_distinct m k hok

/-- the same label written as `01` and as `18 01` in one map: an encoding of a map with a repeated key, and it is refused. -/
example : (fromSlice hdrFromValue [0xa2, 0x01, 0x26, 0x18, 0x01, 0x26]).errKind? = some .duplicateMapKey := by decide +kernel

#print axioms header_accepts_only_distinct
#print axioms header_dup_rejected
#print axioms protected_dup_rejected
#print axioms header_dup_error_kind
#print axioms key_accepts_only_distinct
#print axioms key_dup_error_kind
#print axioms restToPairs_ok
#print axioms restToPairs_dup
#print axioms claims_encode_dup_refuted
#print axioms header_dup_rejected_any_encoding
#print axioms key_dup_rejected_any_encoding

end Coset.Props.C12
