/- C15: ties to the source text.  Built and audited together with Props/C15.lean by check.py, but in a module of its own, so that a
   changed textual fact breaks the obligations of the properties that own it and not those of every module that imports their lemmas. -/
import CosetProofs.Ties.NarrowingSites
namespace Coset.Props.C15

/-! ### ties to the source text (regenerated on every run, compared in the kernel with the transcribed tree) -/
/-- the source has no lossy or checked integer conversion (`as`, `try_into`, `try_from`) beyond those of the tree the model was transcribed from. -/
theorem tie_narrowing_sites : Coset.Ties.sitesCovered (Coset.Ties.lossy Coset.Gen.narrowingSites) (Coset.Ties.lossy Coset.Pinned.narrowingSites) = true := Coset.Ties.narrowing_sites

#print axioms tie_narrowing_sites

end Coset.Props.C15
