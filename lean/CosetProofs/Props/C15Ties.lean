/- C15: ties to the source text.  Built and audited together with Props/C15.lean by check.py, but in a module of its own, so that a
   changed textual fact breaks the obligations of the properties that own it and not those of every module that imports their lemmas. -/
import CosetProofs.Ties.NarrowingSites
namespace Coset.Props.C15

/-! ### ties to the source text (regenerated on every run, compared in the kernel with the transcribed tree) -/
/-- the integer conversion sites of the source (`try_into`, `try_from`, `as`, `from`/`into`) are exactly those the model was transcribed from. -/
theorem tie_narrowing_sites : Coset.Gen.narrowingSites = Coset.Pinned.narrowingSites := Coset.Ties.narrowing_sites

#print axioms tie_narrowing_sites

end Coset.Props.C15
