/- C18: ties to the source text.  Built and audited together with Props/C18.lean by check.py, but in a module of its own, so that a
   changed textual fact breaks the obligations of the properties that own it and not those of every module that imports their lemmas. -/
import CosetProofs.Ties.Budget.Cwt
import CosetProofs.Ties.Budget.Context
import CosetProofs.Ties.Compare.Common
import CosetProofs.Ties.Compare.Context
import CosetProofs.Ties.Compare.Cwt
import CosetProofs.Ties.IanaTables
namespace Coset.Props.C18

/-! ### ties to the source text (regenerated on every run, compared in the kernel with the transcribed tree) -/

/-- decision budget of `src/cwt/mod.rs`: no branch, comparison or integer literal beyond the transcribed tree's (a needle no stream reaches still adds one). -/
theorem tie_budget_cwt : Coset.Ties.budgetCovered "cwt" Coset.Gen.decisionBudget Coset.Pinned.decisionBudget = true := Coset.Ties.budget_cwt
/-- decision budget of `src/context/mod.rs`: no branch, comparison or integer literal beyond the transcribed tree's (a needle no stream reaches still adds one). -/
theorem tie_budget_context : Coset.Ties.budgetCovered "context" Coset.Gen.decisionBudget Coset.Pinned.decisionBudget = true := Coset.Ties.budget_context

#print axioms tie_budget_cwt
#print axioms tie_budget_context

/-! comparisons and integer literals of the modules this property is anchored in (properties.jsonl): none beyond the transcribed tree's -/
theorem tie_compare_common : Coset.Ties.compareCovered "common" Coset.Gen.decisionBudget Coset.Pinned.decisionBudget = true := Coset.Ties.compare_common
theorem tie_compare_context : Coset.Ties.compareCovered "context" Coset.Gen.decisionBudget Coset.Pinned.decisionBudget = true := Coset.Ties.compare_context
theorem tie_compare_cwt : Coset.Ties.compareCovered "cwt" Coset.Gen.decisionBudget Coset.Pinned.decisionBudget = true := Coset.Ties.compare_cwt

#print axioms tie_compare_common
#print axioms tie_compare_context
#print axioms tie_compare_cwt

/-- the registry tables the streams of this property build values from (by name) are the IANA assignments. -/
theorem tie_iana_tables : Coset.Ties.IanaTablesOk := Coset.Ties.iana_tables

#print axioms tie_iana_tables

end Coset.Props.C18
