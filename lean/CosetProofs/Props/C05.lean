import CosetModel.Api
namespace Coset.Props.C05

end Coset.Props.C05
