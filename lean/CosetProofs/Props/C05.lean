/-
  C05 — AEAD additional data is exactly RFC 8152 Enc_structure.
-/
import CosetProofs.Structures
import CosetModel.Builders
namespace Coset.Props.C05
open Coset Coset.Cbor Coset.Spec

theorem contexts : EncryptionContext.text .coseEncrypt = ctxEncrypt ∧ EncryptionContext.text .coseEncrypt0 = ctxEncrypt0 ∧
    EncryptionContext.text .encRecipient = ctxEncRecipient ∧ EncryptionContext.text .macRecipient = ctxMacRecipient ∧
    EncryptionContext.text .recRecipient = ctxRecRecipient := by decide
theorem contexts_distinct : [ctxEncrypt, ctxEncrypt0, ctxEncRecipient, ctxMacRecipient, ctxRecRecipient].Nodup := by decide

/-- C05 core: `[context, protected, external_aad]`, deterministic encoding. -/
theorem enc_structure (ctx : EncryptionContext) (prot : ProtectedHeader) (aad b : Bytes)
    (hb : ProtectedHeader.cborBstr prot = .ok (.bytes b)) :
    encStructureData ctx prot aad = .ok (specStruct ctx.text [b, aad]) := encStructure_spec ctx prot aad b hb

/-- COSE_Encrypt decrypts with "Encrypt", COSE_Encrypt0 with "Encrypt0"; the closure gets (ciphertext, Enc_structure). -/
theorem encrypt_decrypt {ρ : Type} (m : CoseEncrypt) (aad b ct : Bytes) (g : Bytes → Bytes → ρ)
    (hb : ProtectedHeader.cborBstr m.protected_ = .ok (.bytes b)) (hc : m.ciphertext = some ct) :
    m.decrypt aad g = .ok (g ct (specStruct ctxEncrypt [b, aad])) := by
  simp [CoseEncrypt.decrypt, hc, enc_structure .coseEncrypt m.protected_ aad b hb, contexts.1]

theorem encrypt0_decrypt {ρ : Type} (m : CoseEncrypt0) (aad b ct : Bytes) (g : Bytes → Bytes → ρ)
    (hb : ProtectedHeader.cborBstr m.protected_ = .ok (.bytes b)) (hc : m.ciphertext = some ct) :
    m.decrypt aad g = .ok (g ct (specStruct ctxEncrypt0 [b, aad])) := by
  simp [CoseEncrypt0.decrypt, hc, enc_structure .coseEncrypt0 m.protected_ aad b hb, contexts.2.1]

/-- a recipient uses the caller-selected recipient context. -/
theorem recipient_decrypt {ρ : Type} (m : CoseRecipient) (ctx : EncryptionContext) (aad b ct : Bytes) (g : Bytes → Bytes → ρ)
    (hb : ProtectedHeader.cborBstr m.protected_ = .ok (.bytes b)) (hc : m.ciphertext = some ct) (hr : ctx.isRecipient = true) :
    m.decrypt ctx aad g = .ok (g ct (specStruct ctx.text [b, aad])) := by
  simp [CoseRecipient.decrypt, hc, hr, enc_structure ctx m.protected_ aad b hb]

/-- recipient operations refuse (documented panic) a non-recipient context; decryption without a ciphertext is refused. -/
theorem recipient_guard {ρ : Type} (m : CoseRecipient) (ctx : EncryptionContext) (aad pt : Bytes) (g : Bytes → Bytes → ρ)
    (f : Bytes → Bytes → Bytes) (ft : Bytes → Bytes → Except Nat Bytes) (hr : ctx.isRecipient = false) :
    (∃ s, m.decrypt ctx aad g = .panic s) ∧ (∃ s, RecipientOp.apply m (.createCiphertext ctx pt aad f) = .panic s) ∧
    (∃ s, RecipientOp.apply m (.tryCreateCiphertext ctx pt aad ft) = .panic s) := by
  refine ⟨?_, ?_, ?_⟩
  · cases hc : m.ciphertext <;> simp [CoseRecipient.decrypt, hc, hr]
  · simp [RecipientOp.apply, recipientAad, hr, Step.ofRes]
  · simp [RecipientOp.apply, recipientAad, hr, Step.ofRes]

theorem recipient_contexts (ctx : EncryptionContext) :
    ctx.isRecipient = true ↔ (ctx = .encRecipient ∨ ctx = .macRecipient ∨ ctx = .recRecipient) := by
  cases ctx <;> simp [EncryptionContext.isRecipient]

theorem needs_ciphertext {ρ : Type} (m : CoseEncrypt) (m0 : CoseEncrypt0) (r : CoseRecipient) (ctx : EncryptionContext) (aad : Bytes)
    (g : Bytes → Bytes → ρ) (h : m.ciphertext = none) (h0 : m0.ciphertext = none) (hr : r.ciphertext = none) :
    m.decrypt aad g = .panic .unwrapNone ∧ m0.decrypt aad g = .panic .unwrapNone ∧ r.decrypt ctx aad g = .panic .unwrapNone := by
  simp [CoseEncrypt.decrypt, CoseEncrypt0.decrypt, CoseRecipient.decrypt, h, h0, hr]

/-- creating a ciphertext hands (plaintext, Enc_structure) to the caller's cipher. -/
theorem create_passes (m : CoseEncrypt) (pt aad b : Bytes) (f : Bytes → Bytes → Bytes)
    (hb : ProtectedHeader.cborBstr m.protected_ = .ok (.bytes b)) :
    EncryptOp.apply m (.createCiphertext pt aad f) = .next { m with ciphertext := some (f pt (specStruct ctxEncrypt [b, aad])) } := by
  simp [EncryptOp.apply, enc_structure .coseEncrypt m.protected_ aad b hb, Step.ofRes, contexts.1]

theorem create_passes0 (m : CoseEncrypt0) (pt aad b : Bytes) (f : Bytes → Bytes → Bytes)
    (hb : ProtectedHeader.cborBstr m.protected_ = .ok (.bytes b)) :
    Encrypt0Op.apply m (.createCiphertext pt aad f) = .next { m with ciphertext := some (f pt (specStruct ctxEncrypt0 [b, aad])) } := by
  simp [Encrypt0Op.apply, enc_structure .coseEncrypt0 m.protected_ aad b hb, Step.ofRes, contexts.2.1]

theorem injective (c1 c2 : EncryptionContext) (xs1 xs2 : List Bytes)
    (hx1 : xs1.length + 1 < 2 ^ 64 ∧ ∀ x ∈ xs1, x.length < 2 ^ 64) (hx2 : xs2.length + 1 < 2 ^ 64 ∧ ∀ x ∈ xs2, x.length < 2 ^ 64)
    (h : specStruct c1.text xs1 = specStruct c2.text xs2) : c1 = c2 ∧ xs1 = xs2 := by
  have v : ∀ c : EncryptionContext, Utf8.valid c.text = true ∧ c.text.length < 2 ^ 64 := by intro c; cases c <;> decide
  obtain ⟨hc, hx⟩ := specStruct_injective _ _ _ _ (v c1) (v c2) hx1 hx2 h
  refine ⟨?_, hx⟩
  cases c1 <;> cases c2 <;> first | rfl | (exact absurd hc (by decide))

example : encStructureData .coseEncrypt0 (.mk (some [0xa1, 0x01, 0x01]) Header.default) [9] =
    .ok [0x83, 0x68, 69, 110, 99, 114, 121, 112, 116, 48, 0x43, 0xa1, 0x01, 0x01, 0x41, 9] := by decide


#print axioms contexts
#print axioms contexts_distinct
#print axioms enc_structure
#print axioms encrypt_decrypt
#print axioms encrypt0_decrypt
#print axioms recipient_decrypt
#print axioms recipient_guard
#print axioms recipient_contexts
#print axioms needs_ciphertext
#print axioms create_passes
#print axioms create_passes0
#print axioms injective

end Coset.Props.C05
