/-
  C15 — integers are decoded exactly or rejected as out of range, never wrapped.
-/
import CosetProofs.Cbor.Roundtrip
import CosetModel.Api
namespace Coset.Props.C15
open Coset Coset.Cbor

/-- the one narrowing lemma behind every i64 site: exact value inside the range, `OutOfRangeIntegerValue` outside. -/
theorem narrow_i64 (n : Int) :
    (i64Min ≤ n ∧ n ≤ i64Max → narrowI64 n = .ok n) ∧ (¬ (i64Min ≤ n ∧ n ≤ i64Max) → narrowI64 n = .err .outOfRange) := by
  constructor <;> intro h <;> simp [narrowI64, h]

theorem narrow_u64 (n : Int) :
    (0 ≤ n ∧ n ≤ u64Max → narrowU64 n = .ok n) ∧ (¬ (0 ≤ n ∧ n ≤ u64Max) → narrowU64 n = .err .outOfRange) := by
  constructor <;> intro h <;> simp [narrowU64, h]

/-- a narrowing site never returns a different number (no truncation, wrap-around, saturation or sign flip). -/
theorem narrow_exact (n m : Int) : (narrowI64 n = .ok m → m = n) ∧ (narrowU64 n = .ok m → m = n) := by
  constructor <;> intro h
  · unfold narrowI64 at h; split at h <;> simp_all
  · unfold narrowU64 at h; split at h <;> simp_all

/-! ### the interpreting positions -/
theorem label (n : Int) :
    Label.fromValue (.int n) = if i64Min ≤ n ∧ n ≤ i64Max then .ok (.int n) else .err .outOfRange := by
  by_cases h : i64Min ≤ n ∧ n ≤ i64Max <;> simp [Label.fromValue, narrowI64, h]

theorem registered_label_out_of_range (R : Registry) (n : Int) (h : ¬ (i64Min ≤ n ∧ n ≤ i64Max)) :
    RegLabel.fromValue R (.int n) = .err .outOfRange ∧ RegLabelPriv.fromValue R (.int n) = .err .outOfRange := by
  simp [RegLabel.fromValue, RegLabelPriv.fromValue, narrowI64, h]

/-- in range, the registry labels carry exactly the wire integer (as the registered name for it, or as private use). -/
theorem registered_label_exact (R : Registry) (n : Int) (l : RegLabelPriv) (h : RegLabelPriv.fromValue R (.int n) = .ok l) :
    RegLabelPriv.toValue R l = .ok (.int n) := by
  unfold RegLabelPriv.fromValue at h
  cases hn : narrowI64 n with
  | ok m =>
    have hm := (narrow_exact n m).1 hn; subst hm
    simp only [hn] at h
    cases hf : R.fromI64 m with
    | some k =>
      simp [hf] at h; subst h
      have : R.toI64 k = m := by
        unfold Registry.fromI64 at hf
        rw [List.findIdx?_eq_some_iff_getElem] at hf
        obtain ⟨hk, hp, _⟩ := hf
        unfold Registry.toI64
        simp [List.getElem?_eq_getElem hk]; simpa using hp
      simp [RegLabelPriv.toValue, this]
    | none =>
      simp only [hf] at h
      split at h
      · simp at h; subst h; rfl
      · simp at h
  | err e => simp [hn] at h
  | panic p => simp [hn] at h

theorem timestamp (n : Int) :
    Timestamp.fromValue (.int n) = if i64Min ≤ n ∧ n ≤ i64Max then .ok (.wholeSeconds n) else .err .outOfRange := by
  by_cases h : i64Min ≤ n ∧ n ≤ i64Max <;> simp [Timestamp.fromValue, narrowI64, h]

theorem timestamp_float (b : UInt64) : Timestamp.fromValue (.float b) = .ok (.fractionalSeconds b) := rfl

/-- nonce position of PartyInfo. -/
theorem nonce (a c : Value) (n : Int) (ha : nullOrBytes a = .ok ia) (hc : nullOrBytes c = .ok ic) :
    PartyInfo.fromValue (.array [a, .int n, c]) =
      if i64Min ≤ n ∧ n ≤ i64Max then .ok ⟨ia, some (.integer n), ic⟩ else .err .outOfRange := by
  by_cases h : i64Min ≤ n ∧ n ≤ i64Max <;>
    simp [PartyInfo.fromValue, tryAsArray, Gen.PartyInfo_arityBad, Gen.PartyInfo_removes, vremove, ha, hc, narrowI64, h]

/-- key data length: 64-bit unsigned. -/
theorem key_data_length (n : Int) (p : Value) (ph : ProtectedHeader) (hp : phFromBstr p = .ok ph) :
    SuppPubInfo.fromValue (.array [.int n, p]) =
      if 0 ≤ n ∧ n ≤ u64Max then .ok ⟨n, ph, none⟩ else .err .outOfRange := by
  by_cases h : 0 ≤ n ∧ n ≤ u64Max <;>
    simp [SuppPubInfo.fromValue, tryAsArray, Gen.SuppPubInfo_arityBad, Gen.SuppPubInfo_removes, vremove, hp, tryAsInteger, narrowU64, h]

/-- header labels out of i64 range are rejected with the out-of-range error, whatever follows. -/
theorem header_label_out_of_range (n : Int) (v : Value) (rest : List (Value × Value)) (h : ¬ (i64Min ≤ n ∧ n ≤ i64Max)) :
    hdrFromValue (.map ((.int n, v) :: rest)) = .err .outOfRange := by
  simp [hdrFromValue, topFuel, Header.fromValue, tryAsMap, headerLoop, Label.fromValue, narrowI64, h]

theorem key_label_out_of_range (n : Int) (v : Value) (rest : List (Value × Value)) (h : ¬ (i64Min ≤ n ∧ n ≤ i64Max)) :
    CoseKey.fromValue (.map ((.int n, v) :: rest)) = .err .outOfRange := by
  simp [CoseKey.fromValue, tryAsMap, keyLoop, Label.fromValue, narrowI64, h]

theorem claim_name_out_of_range (n : Int) (v : Value) (rest : List (Value × Value)) (h : ¬ (i64Min ≤ n ∧ n ≤ i64Max)) :
    ClaimsSet.fromValue (.map ((.int n, v) :: rest)) = .err .outOfRange := by
  simp [ClaimsSet.fromValue, claimsLoop, RegLabelPriv.fromValue, narrowI64, h]

/-! ### the wire gives the mathematical value; supported values encode back to it -/
/-- every integer of CBOR's range [-2^64, 2^64-1] is read back exactly from its (deterministic) encoding. -/
theorem wire_exact (n : Int) (h : -(2 ^ 64 : Int) ≤ n ∧ n < 2 ^ 64) (s : Bytes) :
    parse (fuel + 1) d (enc (.int n) ++ s) = .ok (.int n, s) :=
  parse_enc (.int n) (fuel + 1) d s (by simpa [Normal] using h) (by simp [depthOf]) (by simp [nsize])

/-- every supported field value encodes to a CBOR integer of the same value, which decodes to it again. -/
theorem widen (n : Int) (h : i64Min ≤ n ∧ n ≤ i64Max) :
    Label.toValue (.int n) = .ok (.int n) ∧ readToValue (enc (.int n)) = .ok (.int n) ∧ Label.fromValue (.int n) = .ok (.int n) := by
  refine ⟨rfl, ?_, ?_⟩
  · exact readToValue_enc (.int n) (by simp [Normal]; unfold i64Min i64Max at h; omega) (by simp [depthOf])
  · simp [Label.fromValue, narrowI64, h]

/-- integers in uninterpreted positions (values of extra parameters) are copied, whatever their magnitude. -/
theorem uninterpreted_preserved (l : Label) (v : Value) (h : Header) (hl : l ≠ hALG ∧ l ≠ hCRIT ∧ l ≠ hCONTENT_TYPE ∧ l ≠ hKID ∧ l ≠ hIV ∧ l ≠ hPARTIAL_IV ∧ l ≠ hCOUNTER_SIG)
    (d : Nat) (sf : Value → Res CoseSignature) :
    headerDispatch d sf l v h = .ok (h.setRest (h.rest ++ [(l, v)])) := by
  simp [headerDispatch, hl]

/-- non-vacuity: 2^63 as a header label is out of range; -2^63 as `exp` decodes to exactly that. -/
example : hdrFromValue (.map [(.int 9223372036854775808, .null)]) = .err .outOfRange :=
  header_label_out_of_range _ _ _ (by decide)
example : Timestamp.fromValue (.int (-9223372036854775808)) = .ok (.wholeSeconds (-9223372036854775808)) := by decide

/-! ### the first fault in wire order decides the report (informed round 13: keys converted up front let a later bad key pre-empt an earlier
    out-of-range integer) -/

/-- if the entries up to and including `x` already make the header loop fail with `e`, no continuation `q` changes that. -/
theorem headerLoop_first_fault (depth : Nat) (sf : Value → Res CoseSignature) (x : Value × Value) (q : List (Value × Value)) (e : CoseErr) :
    ∀ (p : List (Value × Value)) (h : Header) (seen : List Label),
      headerLoop depth sf (p ++ [x]) h seen = .err e → headerLoop depth sf (p ++ x :: q) h seen = .err e := by
  intro p
  induction p with
  | nil =>
    intro h seen hx
    obtain ⟨l, value⟩ := x
    simp only [List.nil_append, headerLoop] at hx ⊢
    split at hx <;> try (simp_all; done)
    split at hx <;> try (simp_all; done)
    split at hx <;> try (simp_all; done)
    split at hx <;> simp_all
  | cons y p ih =>
    intro h seen hx
    obtain ⟨l, value⟩ := y
    simp only [List.cons_append, headerLoop] at hx ⊢
    split at hx <;> try (simp_all; done)
    split at hx <;> try (simp_all; done)
    split at hx <;> try (simp_all; done)
    split at hx
    · simp_all
    · simp_all

/-- … stated for the decoder: a header map that fails with `e` on a prefix fails with `e` however it continues — in particular an
    out-of-range integer (a label, an algorithm, a critical label, a content format) is reported as out of range whatever follows it, and
    a repeated label as a duplicate key. -/
theorem header_first_fault_decides (fuel d : Nat) (p q : List (Value × Value)) (x : Value × Value) (e : CoseErr)
    (h : Header.fromValue (fuel + 1) d (.map (p ++ [x])) = .err e) : Header.fromValue (fuel + 1) d (.map (p ++ x :: q)) = .err e := by
  simp only [Header.fromValue, tryAsMap] at h ⊢
  exact headerLoop_first_fault _ _ x q e p _ _ h

/-- non-vacuity: `{1: 2^64-1}` fails as out of range, and so does `{1: 2^64-1, h'01': 0}` — not with the type error of the later key. -/
example : Header.fromValue 3 16 (.map ([] ++ (Value.int 1, Value.int 18446744073709551615) :: [(Value.bytes [1], Value.int 0)])) = .err .outOfRange :=
  header_first_fault_decides 2 16 [] _ _ _ (by rfl)

/-- the same for key maps … -/
theorem keyLoop_first_fault (x : Value × Value) (q : List (Value × Value)) (e : CoseErr) :
    ∀ (p : List (Value × Value)) (k : CoseKey) (seen : List Label),
      keyLoop (p ++ [x]) k seen = .err e → keyLoop (p ++ x :: q) k seen = .err e := by
  intro p
  induction p with
  | nil =>
    intro k seen hx
    obtain ⟨l, value⟩ := x
    simp only [List.nil_append, keyLoop] at hx ⊢
    split at hx <;> try (simp_all; done)
    split at hx <;> try (simp_all; done)
    split at hx <;> simp_all
  | cons y p ih =>
    intro k seen hx
    obtain ⟨l, value⟩ := y
    simp only [List.cons_append, keyLoop] at hx ⊢
    split at hx <;> try (simp_all; done)
    split at hx <;> try (simp_all; done)
    split at hx <;> simp_all

theorem key_first_fault_decides (p q : List (Value × Value)) (x : Value × Value) (e : CoseErr)
    (h : keyLoop (p ++ [x]) CoseKey.default [] = .err e) : CoseKey.fromValue (.map (p ++ x :: q)) = .err e := by
  simp only [CoseKey.fromValue, tryAsMap, keyLoop_first_fault x q e p _ _ h]

/-- … and for claims sets (a repeated claim name is reported as a duplicate key whatever follows it). -/
theorem claimsLoop_first_fault (x : Value × Value) (q : List (Value × Value)) (e : CoseErr) :
    ∀ (p : List (Value × Value)) (c : ClaimsSet) (seen : List RegLabelPriv),
      claimsLoop (p ++ [x]) c seen = .err e → claimsLoop (p ++ x :: q) c seen = .err e := by
  intro p
  induction p with
  | nil =>
    intro c seen hx
    obtain ⟨l, value⟩ := x
    simp only [List.nil_append, claimsLoop] at hx ⊢
    split at hx <;> try (simp_all; done)
    split at hx <;> try (simp_all; done)
    split at hx <;> simp_all
  | cons y p ih =>
    intro c seen hx
    obtain ⟨l, value⟩ := y
    simp only [List.cons_append, claimsLoop] at hx ⊢
    split at hx <;> try (simp_all; done)
    split at hx <;> try (simp_all; done)
    split at hx <;> simp_all

theorem claims_first_fault_decides (p q : List (Value × Value)) (x : Value × Value) (e : CoseErr)
    (h : ClaimsSet.fromValue (.map (p ++ [x])) = .err e) : ClaimsSet.fromValue (.map (p ++ x :: q)) = .err e := by
  simp only [ClaimsSet.fromValue] at h ⊢
  exact claimsLoop_first_fault x q e p _ _ h

/-- non-vacuity: `{1: "a", 1: "b"}` is a duplicate key, and so is `{1: "a", 1: "b", 100: 0}` — not the unregistered name that follows. -/
example : ClaimsSet.fromValue (.map ([(Value.int 1, Value.text [97])] ++ (Value.int 1, Value.text [98]) :: [(Value.int 100, Value.int 0)])) = .err .duplicateMapKey :=
  claims_first_fault_decides _ _ _ _ (by rfl)

#print axioms headerLoop_first_fault
#print axioms header_first_fault_decides
#print axioms keyLoop_first_fault
#print axioms key_first_fault_decides
#print axioms claimsLoop_first_fault
#print axioms claims_first_fault_decides

#print axioms narrow_i64
#print axioms narrow_u64
#print axioms narrow_exact
#print axioms label
#print axioms registered_label_out_of_range
#print axioms registered_label_exact
#print axioms timestamp
#print axioms timestamp_float
#print axioms nonce
#print axioms key_data_length
#print axioms header_label_out_of_range
#print axioms key_label_out_of_range
#print axioms claim_name_out_of_range
#print axioms wire_exact
#print axioms widen
#print axioms uninterpreted_preserved

end Coset.Props.C15
