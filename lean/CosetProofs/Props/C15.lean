import CosetModel.Api
namespace Coset.Props.C15

end Coset.Props.C15
