/-
  Transfer for the eight message structures: the re-emitted array is `Normal` and nests no deeper than the wire array.
-/
import CosetProofs.Roundtrip.Transfer
import CosetProofs.Roundtrip.Messages
namespace Coset
open Coset.Spec Coset.Cbor

/-- a value-to-structure decoder whose results re-emit tamely. -/
def TameConv {α : Type} (f : Value → Res α) (g : α → Res Value) : Prop :=
  ∀ v a, f v = .ok a → Normal v → v.size < sliceMax → ∃ y, g a = .ok y ∧ Tame y v

theorem list_tame {α : Type} (f : Value → Res α) (g : α → Res Value) (gs : List α → Res (List Value))
    (hnil : gs [] = .ok [])
    (hcons : ∀ a as y ys, g a = .ok y → gs as = .ok ys → gs (a :: as) = .ok (y :: ys))
    (ht : TameConv f g) :
    ∀ (vs : List Value) (as : List α), mapRes f vs = .ok as → (∀ v ∈ vs, Normal v ∧ v.size < sliceMax) →
      ∃ ys, gs as = .ok ys ∧ ys.length = vs.length ∧ as.length = vs.length ∧ (∀ y ∈ ys, Normal y) ∧ (∀ y ∈ ys, ∃ v ∈ vs, depthOf y ≤ depthOf v) := by
  intro vs
  induction vs with
  | nil => intro as h _; simp [mapRes] at h; subst h; exact ⟨[], hnil, rfl, rfl, by simp, by simp⟩
  | cons v vs ih =>
    intro as h hv
    rw [mapRes_cons_ok] at h
    obtain ⟨a, as', ha, has, rfl⟩ := h
    obtain ⟨ys, h1, h2, h2', h3, h4⟩ := ih as' has (fun w hw => hv w (by simp [hw]))
    obtain ⟨y, hy, hyn, hyd⟩ := ht v a ha (hv v (by simp)).1 (hv v (by simp)).2
    refine ⟨y :: ys, hcons a as' y ys hy h1, by simp [h2], by simp [h2'], ?_, ?_⟩
    · intro z hz; rcases List.mem_cons.mp hz with rfl | hz'
      · exact hyn
      · exact h3 z hz'
    · intro z hz; rcases List.mem_cons.mp hz with rfl | hz'
      · exact ⟨v, by simp, hyd⟩
      · obtain ⟨w, hw, hd⟩ := h4 z hz'; exact ⟨w, by simp [hw], hd⟩

/-- an array re-emitted element by element. -/
theorem array_tame (vs ys : List Value) (hn : Normal (.array vs)) (hl : ys.length = vs.length) (h3 : ∀ y ∈ ys, Normal y)
    (h4 : ∀ y ∈ ys, ∃ v ∈ vs, depthOf y ≤ depthOf v) : Tame (.array ys) (.array vs) := by
  simp only [Normal] at hn
  refine ⟨by simp only [Normal]; exact ⟨by rw [hl]; exact hn.1, normalL_of ys h3⟩, ?_⟩
  rw [depthOf_array, depthOf_array]
  have : depthOfL ys ≤ depthOfL vs := by
    apply depthOfL_le
    intro y hy
    obtain ⟨v, hv, hd⟩ := h4 y hy
    have := depthOfL_mem vs v hv; omega
  omega

theorem members_small (vs : List Value) (hn : NormalL vs) (hz : Value.sizeL vs < sliceMax) : ∀ v ∈ vs, Normal v ∧ v.size < sliceMax := by
  intro v hv
  have := size_le_sizeL vs v hv
  exact ⟨normalL_mem vs hn v hv, by omega⟩

/-- the two header slots. -/
theorem slots_tame (x0 x1 : Value) (p : ProtectedHeader) (u : Header) (hp : phFromBstr x0 = .ok p) (hu : hdrFromValue x1 = .ok u)
    (hn1 : Normal x1) (hz1 : x1.size < sliceMax) :
    ∃ y1, headerSlots p u = .ok [x0, y1] ∧ Normal y1 ∧ depthOf y1 ≤ depthOf x1 := by
  obtain ⟨y1, h1, h2, h3⟩ := header_tame _ _ x1 u hu hn1 hz1
  exact ⟨y1, by simp [headerSlots, protected_fixed _ _ x0 p hp, h1], h2, h3⟩

theorem hdr_tameConv : TameConv hdrFromValue Header.toValue := fun v h hh hn hz => header_tame _ _ v h hh hn hz
theorem sig_tameConv : TameConv sigFromValue CoseSignature.toValue := fun v s hs hn hz => signature_tame _ _ v s hs hn hz

theorem sign1_tame : TameConv CoseSign1.fromValue CoseSign1.toValue := by
  intro v m h hn hz
  obtain ⟨x0, x1, x2, rfl, hp, hu, ho⟩ := (sign1_ok_iff v m).mp h
  simp only [Normal, NormalL] at hn
  simp only [Value.size, Value.sizeL] at hz
  obtain ⟨y1, hs, hy1, hy2⟩ := slots_tame x0 x1 _ _ hp hu hn.2.2.1 (by omega)
  refine ⟨.array [x0, y1, x2, .bytes m.signature], by simp [CoseSign1.toValue, hs, optBytes_roundtrip x2 _ ho], ?_, ?_⟩
  · simp only [Normal, NormalL]; exact ⟨by simp, hn.2.1, hy1, hn.2.2.2.1, hn.2.2.2.2.1, trivial⟩
  · simp only [depthOf, depthOfL] at hy2 ⊢; omega

theorem mac0_tame : TameConv CoseMac0.fromValue CoseMac0.toValue := by
  intro v m h hn hz
  obtain ⟨x0, x1, x2, rfl, hp, hu, ho⟩ := (mac0_ok_iff v m).mp h
  simp only [Normal, NormalL] at hn
  simp only [Value.size, Value.sizeL] at hz
  obtain ⟨y1, hs, hy1, hy2⟩ := slots_tame x0 x1 _ _ hp hu hn.2.2.1 (by omega)
  refine ⟨.array [x0, y1, x2, .bytes m.tag], by simp [CoseMac0.toValue, hs, optBytes_roundtrip x2 _ ho], ?_, ?_⟩
  · simp only [Normal, NormalL]; exact ⟨by simp, hn.2.1, hy1, hn.2.2.2.1, hn.2.2.2.2.1, trivial⟩
  · simp only [depthOf, depthOfL] at hy2 ⊢; omega

theorem encrypt0_tame : TameConv CoseEncrypt0.fromValue CoseEncrypt0.toValue := by
  intro v m h hn hz
  obtain ⟨x0, x1, x2, rfl, hp, hu, ho⟩ := (encrypt0_ok_iff v m).mp h
  simp only [Normal, NormalL] at hn
  simp only [Value.size, Value.sizeL] at hz
  obtain ⟨y1, hs, hy1, hy2⟩ := slots_tame x0 x1 _ _ hp hu hn.2.2.1 (by omega)
  refine ⟨.array [x0, y1, x2], by simp [CoseEncrypt0.toValue, hs, optBytes_roundtrip x2 _ ho], ?_, ?_⟩
  · simp only [Normal, NormalL]; exact ⟨by simp, hn.2.1, hy1, hn.2.2.2.1, trivial⟩
  · simp only [depthOf, depthOfL] at hy2 ⊢; omega

theorem sign_tame : TameConv CoseSign.fromValue CoseSign.toValue := by
  intro v m h hn hz
  obtain ⟨x0, x1, x2, sigs, rfl, hp, hu, ho, hs⟩ := (sign_ok_iff v m).mp h
  simp only [Normal, NormalL] at hn
  simp only [Value.size, Value.sizeL] at hz
  obtain ⟨y1, hsl, hy1, hy2⟩ := slots_tame x0 x1 _ _ hp hu hn.2.2.1 (by omega)
  have hsn : Normal (.array sigs) := hn.2.2.2.2.1
  have hsn' := hsn; simp only [Normal] at hsn'
  obtain ⟨ys, h1, h2, _, h3, h4⟩ := list_tame (fun s => (sigFromValue s).mapErr .unexpectedItem) CoseSignature.toValue sigsToValues rfl
    (by intro a as y ys h1 h2; simp [sigsToValues, h1, h2])
    (by
      intro v a hv hvn hvz
      cases hsv : sigFromValue v with
      | ok s => simp [hsv, Res.mapErr] at hv; subst hv; exact sig_tameConv v s hsv hvn hvz
      | err e => simp [hsv, Res.mapErr] at hv
      | panic q => simp [hsv, Res.mapErr] at hv)
    sigs m.signatures hs (members_small sigs hsn'.2 (by omega))
  obtain ⟨ta, tb⟩ := array_tame sigs ys hsn h2 h3 h4
  refine ⟨.array [x0, y1, x2, .array ys], by simp [CoseSign.toValue, hsl, h1, optBytes_roundtrip x2 _ ho], ?_, ?_⟩
  · simp only [Normal, NormalL]; exact ⟨by simp, hn.2.1, hy1, hn.2.2.2.1, ta, trivial⟩
  · simp only [depthOf, depthOfL] at hy2 tb ⊢; omega

/-- recipients, nested to any depth: by induction on the decoder's fuel. -/
theorem recipient_tame : ∀ (f : Nat), TameConv (CoseRecipient.fromValue f) CoseRecipient.toValue := by
  intro f
  induction f with
  | zero => intro v r h; simp [CoseRecipient.fromValue] at h
  | succ f ih =>
    intro v r h hn hz
    cases r with
    | mk p u ct rcps =>
      rcases (recipient_ok_iff f v p u ct rcps).mp h with ⟨x0, x1, x2, rfl, hp, hu, ho, rfl⟩ | ⟨x0, x1, x2, rs, rfl, hp, hu, ho, hrs⟩
      · simp only [Normal, NormalL] at hn
        simp only [Value.size, Value.sizeL] at hz
        obtain ⟨y1, hs, hy1, hy2⟩ := slots_tame x0 x1 _ _ hp hu hn.2.2.1 (by omega)
        refine ⟨.array [x0, y1, x2], by simp [CoseRecipient.toValue, hs, optBytes_roundtrip x2 _ ho], ?_, ?_⟩
        · simp only [Normal, NormalL]; exact ⟨by simp, hn.2.1, hy1, hn.2.2.2.1, trivial⟩
        · simp only [depthOf, depthOfL] at hy2 ⊢; omega
      · simp only [Normal, NormalL] at hn
        simp only [Value.size, Value.sizeL] at hz
        obtain ⟨y1, hs, hy1, hy2⟩ := slots_tame x0 x1 _ _ hp hu hn.2.2.1 (by omega)
        have hrn : Normal (.array rs) := hn.2.2.2.2.1
        have hrn' := hrn; simp only [Normal] at hrn'
        obtain ⟨ys, h1, h2, h2', h3, h4⟩ := list_tame (CoseRecipient.fromValue f) CoseRecipient.toValue recipientsToValues
          (by simp [recipientsToValues]) (by intro a as y ys h1 h2; simp [recipientsToValues, h1, h2]) ih rs rcps hrs
          (members_small rs hrn'.2 (by omega))
        obtain ⟨ta, tb⟩ := array_tame rs ys hrn h2 h3 h4
        cases rcps with
        | nil =>
          refine ⟨.array [x0, y1, x2], by simp [CoseRecipient.toValue, hs, optBytes_roundtrip x2 _ ho], ?_, ?_⟩
          · simp only [Normal, NormalL]; exact ⟨by simp, hn.2.1, hy1, hn.2.2.2.1, trivial⟩
          · simp only [depthOf, depthOfL] at hy2 ⊢; omega
        | cons r0 rcps' =>
          refine ⟨.array [x0, y1, x2, .array ys], by simp [CoseRecipient.toValue, hs, h1, optBytes_roundtrip x2 _ ho], ?_, ?_⟩
          · simp only [Normal, NormalL]; exact ⟨by simp, hn.2.1, hy1, hn.2.2.2.1, ta, trivial⟩
          · simp only [depthOf, depthOfL] at hy2 tb ⊢; omega

theorem rcp_tame : TameConv rcpFromValue CoseRecipient.toValue := fun v r h hn hz => recipient_tame _ v r h hn hz

theorem rcps_tame (rs : List Value) (rcps : List CoseRecipient) (h : mapRes rcpFromValue rs = .ok rcps) (hn : Normal (.array rs))
    (hz : Value.sizeL rs < sliceMax) : ∃ ys, recipientsToValues rcps = .ok ys ∧ Tame (.array ys) (.array rs) := by
  have hn' := hn; simp only [Normal] at hn'
  obtain ⟨ys, h1, h2, _, h3, h4⟩ := list_tame rcpFromValue CoseRecipient.toValue recipientsToValues
    (by simp [recipientsToValues]) (by intro a as y ys h1 h2; simp [recipientsToValues, h1, h2]) rcp_tame rs rcps h (members_small rs hn'.2 hz)
  exact ⟨ys, h1, array_tame rs ys hn h2 h3 h4⟩

theorem encrypt_tame : TameConv CoseEncrypt.fromValue CoseEncrypt.toValue := by
  intro v m h hn hz
  obtain ⟨x0, x1, x2, rs, rfl, hp, hu, ho, hs⟩ := (encrypt_ok_iff v m).mp h
  simp only [Normal, NormalL] at hn
  simp only [Value.size, Value.sizeL] at hz
  obtain ⟨y1, hsl, hy1, hy2⟩ := slots_tame x0 x1 _ _ hp hu hn.2.2.1 (by omega)
  obtain ⟨ys, h1, ta, tb⟩ := rcps_tame rs _ hs hn.2.2.2.2.1 (by omega)
  refine ⟨.array [x0, y1, x2, .array ys], by simp [CoseEncrypt.toValue, hsl, h1, optBytes_roundtrip x2 _ ho], ?_, ?_⟩
  · simp only [Normal, NormalL]; exact ⟨by simp, hn.2.1, hy1, hn.2.2.2.1, ta, trivial⟩
  · simp only [depthOf, depthOfL] at hy2 tb ⊢; omega

theorem mac_tame : TameConv CoseMac.fromValue CoseMac.toValue := by
  intro v m h hn hz
  obtain ⟨x0, x1, x2, rs, rfl, hp, hu, ho, hs⟩ := (mac_ok_iff v m).mp h
  simp only [Normal, NormalL] at hn
  simp only [Value.size, Value.sizeL] at hz
  obtain ⟨y1, hsl, hy1, hy2⟩ := slots_tame x0 x1 _ _ hp hu hn.2.2.1 (by omega)
  obtain ⟨ys, h1, ta, tb⟩ := rcps_tame rs _ hs hn.2.2.2.2.2.1 (by omega)
  refine ⟨.array [x0, y1, x2, .bytes m.tag, .array ys], by simp [CoseMac.toValue, hsl, h1, optBytes_roundtrip x2 _ ho], ?_, ?_⟩
  · simp only [Normal, NormalL]; exact ⟨by simp, hn.2.1, hy1, hn.2.2.2.1, hn.2.2.2.2.1, ta, trivial⟩
  · simp only [depthOf, depthOfL] at hy2 tb ⊢; omega

end Coset
