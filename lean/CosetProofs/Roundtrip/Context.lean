/-
  COSE_KDF_Context and its parts: the emitted value of a decode result is the decoded value itself.
-/
import CosetProofs.Roundtrip.HeaderFixed
import CosetProofs.ClaimsSpec
namespace Coset
open Coset.Props.C18

/-- registry labels: the value a decoded label stands for is the value it was decoded from. -/
theorem RegLabelPriv.value_of_fromValue (R : Registry) (v : Value) (l : RegLabelPriv) (h : RegLabelPriv.fromValue R v = .ok l) :
    RegLabelPriv.value R l = v := by
  cases v with
  | int i =>
    simp only [RegLabelPriv.fromValue, narrowI64] at h
    by_cases hr : i64Min ≤ i ∧ i ≤ i64Max
    · simp only [hr, and_self, if_true] at h
      cases hf : R.fromI64 i with
      | some k => simp [hf] at h; subst h; simp [RegLabelPriv.value, Coset.Props.C17.to_from R i k hf]
      | none =>
        simp only [hf] at h
        by_cases hp : R.private? i = true
        · simp [hp] at h; subst h; rfl
        · simp [hp] at h
    · simp [hr] at h
  | text t => simp [RegLabelPriv.fromValue] at h; subst h; rfl
  | _ => simp [RegLabelPriv.fromValue, typeError] at h

theorem RegLabel.value_of_fromValue (R : Registry) (v : Value) (l : RegLabel) (h : RegLabel.fromValue R v = .ok l) :
    RegLabel.value R l = v := by
  cases v with
  | int i =>
    simp only [RegLabel.fromValue, narrowI64] at h
    by_cases hr : i64Min ≤ i ∧ i ≤ i64Max
    · simp only [hr, and_self, if_true] at h
      cases hf : R.fromI64 i with
      | some k => simp [hf] at h; subst h; simp [RegLabel.value, Coset.Props.C17.to_from R i k hf]
      | none => simp [hf] at h
    · simp [hr] at h
  | text t => simp [RegLabel.fromValue] at h; subst h; rfl
  | _ => simp [RegLabel.fromValue, typeError] at h

theorem nullOrBytes_emit (x : Value) (o : Option Bytes) (h : nullOrBytes x = .ok o) : optBytesToValue o = x := by
  cases x <;> simp [nullOrBytes, typeError] at h <;> subst h <;> rfl

theorem party_emit (v : Value) (p : PartyInfo) (h : PartyInfo.fromValue v = .ok p) : PartyInfo.toValue p = .ok v := by
  obtain ⟨x0, x1, x2, rfl, h0, h2, h1⟩ := party_info v p h
  simp only [PartyInfo.toValue, nullOrBytes_emit x0 _ h0, nullOrBytes_emit x2 _ h2]
  rcases h1 with ⟨rfl, hn⟩ | ⟨b, rfl, hn⟩ | ⟨n, rfl, _, _, hn⟩ <;> simp [hn]

theorem supp_emit (v : Value) (s : SuppPubInfo) (h : SuppPubInfo.fromValue v = .ok s) : SuppPubInfo.toValue s = .ok v := by
  cases v with
  | array a =>
    simp only [SuppPubInfo.fromValue, tryAsArray, Gen.SuppPubInfo_arityBad] at h
    by_cases h2 : a.length = 2
    · obtain ⟨x0, x1, rfl⟩ := list_len2 a h2
      simp [Gen.SuppPubInfo_removes, vremove] at h
      cases hp : phFromBstr x1 with
      | ok p =>
        simp [hp] at h
        cases x0 with
        | int n =>
          simp only [tryAsInteger, narrowU64] at h
          by_cases hr : 0 ≤ n ∧ n ≤ u64Max
          · simp [hr] at h; subst h
            simp [SuppPubInfo.toValue, protected_fixed _ _ x1 p hp]
          · simp [hr] at h
        | _ => simp [tryAsInteger, typeError] at h
      | err e => simp [hp] at h
      | panic q => simp [hp] at h
    · by_cases h3 : a.length = 3
      · obtain ⟨x0, x1, x2, rfl⟩ := list_len3 a h3
        simp [Gen.SuppPubInfo_removes, vremove] at h
        cases x2 with
        | bytes o =>
          simp only [tryAsBytes] at h
          cases hp : phFromBstr x1 with
          | ok p =>
            simp [hp] at h
            cases x0 with
            | int n =>
              simp only [tryAsInteger, narrowU64] at h
              by_cases hr : 0 ≤ n ∧ n ≤ u64Max
              · simp [hr] at h; subst h
                simp [SuppPubInfo.toValue, protected_fixed _ _ x1 p hp]
              · simp [hr] at h
            | _ => simp [tryAsInteger, typeError] at h
          | err e => simp [hp] at h
          | panic q => simp [hp] at h
        | _ => simp [tryAsBytes, typeError] at h
      · have : (a.length != 2 && a.length != 3) = true := by simp [h2, h3]
        simp [this] at h
  | _ => simp [SuppPubInfo.fromValue, tryAsArray, typeError] at h

/-- the trailing private-info loop: it consumes exactly the elements after the fourth, all byte strings, last to first. -/
theorem kdfTail_ok : ∀ (n : Nat) (tail pre : List Value) (acc acc' : List Bytes) (rest : List Value), tail.length = n → pre.length = 4 →
    kdfTail (List.range' 4 n).reverse (pre ++ tail) acc = .ok (acc', rest) →
    rest = pre ∧ ∃ bs : List Bytes, tail = bs.map Value.bytes ∧ acc' = acc ++ bs.reverse := by
  intro n
  induction n with
  | zero =>
    intro tail pre acc acc' rest ht _ h
    have : tail = [] := List.length_eq_zero_iff.mp ht
    subst this
    simp [kdfTail] at h
    exact ⟨h.2.symm, [], rfl, by simp [h.1]⟩
  | succ n ih =>
    intro tail pre acc acc' rest ht hp h
    rcases List.eq_nil_or_concat tail with rfl | ⟨init, x, rfl⟩
    · simp at ht
    · rw [List.concat_eq_append] at ht h
      have hi : init.length = n := by simp at ht; exact ht
      rw [List.range'_concat, List.reverse_append] at h
      simp only [List.reverse_cons, List.reverse_nil, List.nil_append, List.singleton_append, Nat.one_mul, kdfTail] at h
      have hrm : vremove (pre ++ (init ++ [x])) (4 + n) = .ok (x, pre ++ init) := by
        have hg : (pre ++ (init ++ [x]))[4 + n]? = some x := by
          rw [← List.append_assoc, List.getElem?_append_right (by simp [hp, hi])]; simp [hp, hi]
        have he : (pre ++ (init ++ [x])).eraseIdx (4 + n) = pre ++ init := by
          rw [← List.append_assoc, List.eraseIdx_append_of_length_le (by simp [hp, hi])]; simp [hp, hi]
        simp only [vremove, hg, he]
      rw [hrm] at h
      cases x with
      | bytes b =>
        simp only [tryAsBytes] at h
        obtain ⟨h1, bs, h2, h3⟩ := ih init pre (acc ++ [b]) acc' rest hi hp h
        exact ⟨h1, bs ++ [b], by simp [h2], by simp [h3]⟩
      | _ => simp [tryAsBytes, typeError] at h

/-- the shape of an accepted COSE_KDF_Context, slot by slot. -/
theorem kdf_shape (v : Value) (k : CoseKdfContext) (h : CoseKdfContext.fromValue v = .ok k) :
    ∃ (x0 x1 x2 x3 : Value) (bs : List Bytes), v = .array ([x0, x1, x2, x3] ++ bs.map Value.bytes) ∧
      RegLabelPriv.fromValue Reg.algorithm x0 = .ok k.algorithmId ∧ PartyInfo.fromValue x1 = .ok k.partyUInfo ∧
      PartyInfo.fromValue x2 = .ok k.partyVInfo ∧ SuppPubInfo.fromValue x3 = .ok k.suppPubInfo ∧ k.suppPrivInfo = bs := by
  cases v with
  | array a =>
    simp only [CoseKdfContext.fromValue, tryAsArray, Gen.CoseKdfContext_arityBad] at h
    by_cases h4 : a.length < 4
    · simp [h4] at h
    · simp only [h4, decide_false, Bool.false_eq_true, if_false] at h
      obtain ⟨x0, x1, x2, x3, tail, rfl⟩ : ∃ x0 x1 x2 x3 tail, a = x0 :: x1 :: x2 :: x3 :: tail := by
        match a, h4 with
        | x0 :: x1 :: x2 :: x3 :: tail, _ => exact ⟨x0, x1, x2, x3, tail, rfl⟩
        | [], h4 => simp at h4
        | [_], h4 => simp at h4
        | [_, _], h4 => simp at h4
        | [_, _, _], h4 => simp at h4
      have hn : (x0 :: x1 :: x2 :: x3 :: tail).length - 4 = tail.length := by simp
      rw [hn] at h
      cases ht : kdfTail (List.range' 4 tail.length).reverse (x0 :: x1 :: x2 :: x3 :: tail) [] with
      | ok r =>
        obtain ⟨acc', rest⟩ := r
        obtain ⟨hrest, bs, hbs, hacc⟩ := kdfTail_ok tail.length tail [x0, x1, x2, x3] [] acc' rest rfl rfl ht
        subst hrest; subst hbs
        simp only [ht, Gen.CoseKdfContext_removes, List.getD_cons_zero, List.getD_cons_succ, vremove, List.getElem?_cons_succ, List.getElem?_cons_zero,
          List.eraseIdx_cons_succ, List.eraseIdx_cons_zero] at h
        cases hs : SuppPubInfo.fromValue x3 with
        | ok supp =>
          simp only [hs] at h
          cases hv : PartyInfo.fromValue x2 with
          | ok pv =>
            simp only [hv] at h
            cases hu : PartyInfo.fromValue x1 with
            | ok pu =>
              simp only [hu] at h
              cases hal : RegLabelPriv.fromValue Reg.algorithm x0 with
              | ok alg =>
                simp only [hal] at h
                simp at h; subst h
                exact ⟨x0, x1, x2, x3, bs, rfl, hal, hu, hv, hs, by simp [hacc]⟩
              | err e => simp [hal] at h
              | panic q => simp [hal] at h
            | err e => simp [hu] at h
            | panic q => simp [hu] at h
          | err e => simp [hv] at h
          | panic q => simp [hv] at h
        | err e => simp [hs] at h
        | panic q => simp [hs] at h
      | err e => simp [ht] at h
      | panic q => simp [ht] at h
  | _ => simp [CoseKdfContext.fromValue, tryAsArray, typeError] at h

theorem kdf_emit (v : Value) (k : CoseKdfContext) (h : CoseKdfContext.fromValue v = .ok k) : CoseKdfContext.toValue k = .ok v := by
  obtain ⟨x0, x1, x2, x3, bs, rfl, h0, h1, h2, h3, h4⟩ := kdf_shape v k h
  simp [CoseKdfContext.toValue, RegLabelPriv.toValue_eq, RegLabelPriv.value_of_fromValue _ _ _ h0, party_emit _ _ h1, party_emit _ _ h2,
    supp_emit _ _ h3, h4]

theorem party_fixed (v : Value) (p : PartyInfo) (h : PartyInfo.fromValue v = .ok p) : ∃ x, p.toValue = .ok x ∧ PartyInfo.fromValue x = .ok p :=
  ⟨v, party_emit v p h, h⟩
theorem supp_fixed (v : Value) (s : SuppPubInfo) (h : SuppPubInfo.fromValue v = .ok s) : ∃ x, s.toValue = .ok x ∧ SuppPubInfo.fromValue x = .ok s :=
  ⟨v, supp_emit v s h, h⟩
theorem kdf_fixed (v : Value) (k : CoseKdfContext) (h : CoseKdfContext.fromValue v = .ok k) :
    ∃ x, k.toValue = .ok x ∧ CoseKdfContext.fromValue x = .ok k := ⟨v, kdf_emit v k h, h⟩

end Coset
