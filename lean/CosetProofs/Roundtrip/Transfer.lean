/-
  Transfer: the value a decoded structure re-emits is no less well-behaved than the value it was decoded from.
  If the wire value `v` is `Normal` (CBOR integer range, valid UTF-8, lengths below 2^64, no short bignum tag) and small enough to
  have come out of a Rust slice, then `to_cbor_value` of whatever `from_cbor_value v` produced is `Normal` too and nests no deeper
  than `v`.  With L1 (the parser inverts the serializer on `Normal` values within the recursion budget) and L7 (what the parser
  returns is `Normal` unless it holds the D3 form) this turns the `Value`-level fixed points of C07 into byte-level ones without
  a side condition on the emitted value.
-/
import CosetProofs.Roundtrip.HeaderFixed
import CosetProofs.Roundtrip.Context
import CosetProofs.Cbor.ParseOutput
namespace Coset
open Coset.Spec Coset.Cbor

/-! ### members of lists and maps -/

theorem normalL_mem : ∀ (xs : List Value), NormalL xs → ∀ x ∈ xs, Normal x := by
  intro xs; induction xs with
  | nil => intro _ x hx; cases hx
  | cons y ys ih =>
    intro h x hx; simp only [NormalL] at h
    rcases List.mem_cons.mp hx with rfl | hx'
    · exact h.1
    · exact ih h.2 x hx'

theorem normalL_of : ∀ (xs : List Value), (∀ x ∈ xs, Normal x) → NormalL xs := by
  intro xs; induction xs with
  | nil => intro _; trivial
  | cons y ys ih => intro h; simp only [NormalL]; exact ⟨h y (by simp), ih (fun x hx => h x (by simp [hx]))⟩

theorem normalP_mem : ∀ (m : List (Value × Value)), NormalP m → ∀ p ∈ m, Normal p.1 ∧ Normal p.2 := by
  intro m; induction m with
  | nil => intro _ p hp; cases hp
  | cons q qs ih =>
    obtain ⟨k, v⟩ := q
    intro h p hp; simp only [NormalP] at h
    rcases List.mem_cons.mp hp with rfl | hp'
    · exact ⟨h.1, h.2.1⟩
    · exact ih h.2.2 p hp'

theorem normalP_of : ∀ (m : List (Value × Value)), (∀ p ∈ m, Normal p.1 ∧ Normal p.2) → NormalP m := by
  intro m; induction m with
  | nil => intro _; trivial
  | cons q qs ih =>
    obtain ⟨k, v⟩ := q
    intro h; simp only [NormalP]
    exact ⟨(h (k, v) (by simp)).1, (h (k, v) (by simp)).2, ih (fun p hp => h p (by simp [hp]))⟩

theorem depthOfL_mem : ∀ (xs : List Value), ∀ x ∈ xs, depthOf x ≤ depthOfL xs := by
  intro xs; induction xs with
  | nil => intro x hx; cases hx
  | cons y ys ih =>
    intro x hx; simp only [depthOfL]
    rcases List.mem_cons.mp hx with rfl | hx'
    · omega
    · have := ih x hx'; omega

theorem depthOfL_le (b : Nat) : ∀ (xs : List Value), (∀ x ∈ xs, depthOf x ≤ b) → depthOfL xs ≤ b := by
  intro xs; induction xs with
  | nil => intro _; simp [depthOfL]
  | cons y ys ih =>
    intro h; simp only [depthOfL]
    have h1 := h y (by simp); have h2 := ih (fun x hx => h x (by simp [hx])); omega

theorem depthOfP_mem : ∀ (m : List (Value × Value)), ∀ p ∈ m, depthOf p.1 ≤ depthOfP m ∧ depthOf p.2 ≤ depthOfP m := by
  intro m; induction m with
  | nil => intro p hp; cases hp
  | cons q qs ih =>
    obtain ⟨k, v⟩ := q
    intro p hp; simp only [depthOfP]
    rcases List.mem_cons.mp hp with rfl | hp'
    · show depthOf k ≤ _ ∧ depthOf v ≤ _; constructor <;> omega
    · have := ih p hp'; constructor <;> omega

theorem depthOfP_le (b : Nat) : ∀ (m : List (Value × Value)), (∀ p ∈ m, depthOf p.1 ≤ b ∧ depthOf p.2 ≤ b) → depthOfP m ≤ b := by
  intro m; induction m with
  | nil => intro _; simp [depthOfP]
  | cons q qs ih =>
    obtain ⟨k, v⟩ := q
    intro h; simp only [depthOfP]
    have h1 : depthOf k ≤ b ∧ depthOf v ≤ b := h (k, v) (by simp)
    have h2 := ih (fun p hp => h p (by simp [hp])); omega

theorem size_le_sizeL : ∀ (xs : List Value), ∀ x ∈ xs, x.size ≤ Value.sizeL xs := by
  intro xs; induction xs with
  | nil => intro x hx; cases hx
  | cons y ys ih =>
    intro x hx; simp only [Value.sizeL]
    rcases List.mem_cons.mp hx with rfl | hx'
    · omega
    · have := ih x hx'; omega

theorem sizeP_mem : ∀ (m : List (Value × Value)), ∀ p ∈ m, p.1.size + p.2.size ≤ Value.sizeP m := by
  intro m; induction m with
  | nil => intro p hp; cases hp
  | cons q qs ih =>
    obtain ⟨k, v⟩ := q
    intro p hp; simp only [Value.sizeP]
    rcases List.mem_cons.mp hp with rfl | hp'
    · show k.size + v.size ≤ _; omega
    · have := ih p hp'; omega

/-! ### what a decoded label / registry label emits is the wire value itself -/

theorem labelValue_of_fromValue (k : Value) (l : Label) (h : Label.fromValue k = .ok l) : labelValue l = k := by
  cases k with
  | int i =>
    simp only [Label.fromValue, narrowI64] at h
    by_cases hc : i64Min ≤ i ∧ i ≤ i64Max
    · simp [hc] at h; subst h; rfl
    · simp [hc] at h
  | text t => simp [Label.fromValue] at h; subst h; rfl
  | _ => simp [Label.fromValue, typeError] at h

theorem mapRes_value_of_fromValue {α : Type} (f : Value → Res α) (g : α → Value) (hfg : ∀ v x, f v = .ok x → g x = v) :
    ∀ (a : List Value) (ls : List α), mapRes f a = .ok ls → ls.map g = a := by
  intro a
  induction a with
  | nil => intro ls h; simp [mapRes] at h; subst h; rfl
  | cons v a ih =>
    intro ls h
    rw [mapRes_cons_ok] at h
    obtain ⟨x, xs, hx, hxs, rfl⟩ := h
    simp [hfg v x hx, ih xs hxs]

/-- the label/value pairs the header loop folds over come from the wire map, key by key. -/
theorem zip_mem_wire : ∀ (m : List (Value × Value)) (ls : List Label), mapRes Label.fromValue (m.map (·.1)) = .ok ls →
    ∀ p ∈ ls.zip (m.map (·.2)), ∃ k, (k, p.2) ∈ m ∧ Label.fromValue k = .ok p.1 := by
  intro m
  induction m with
  | nil => intro ls h p hp; simp [mapRes] at h; subst h; simp at hp
  | cons kv m ih =>
    obtain ⟨k, v⟩ := kv
    intro ls h p hp
    simp only [List.map_cons] at h
    rw [mapRes_cons_ok] at h
    obtain ⟨l, ls', hl, hls, rfl⟩ := h
    simp only [List.map_cons, List.zip_cons_cons, List.mem_cons] at hp
    rcases hp with rfl | hp'
    · exact ⟨k, by simp, hl⟩
    · obtain ⟨k', h1, h2⟩ := ih ls' hls p hp'
      exact ⟨k', by simp [h1], h2⟩


/-! ### the header family -/

/-- `x` is at least as well-behaved as the wire value `v` it was re-emitted for. -/
def Tame (x v : Value) : Prop := Normal x ∧ depthOf x ≤ depthOf v

/-- size bound of anything that came out of a Rust slice (`len ≤ isize::MAX`). -/
def sliceMax : Nat := 2 ^ 63

def SigTame (sf : Value → Res CoseSignature) : Prop :=
  ∀ v s, sf v = .ok s → Normal v → v.size < sliceMax → ∃ x, CoseSignature.toValue s = .ok x ∧ Tame x v

theorem sigs_tame (sf : Value → Res CoseSignature) (hsf : SigTame sf) :
    ∀ (a : List Value) (ss : List CoseSignature), mapRes sf a = .ok ss → (∀ v ∈ a, Normal v ∧ v.size < sliceMax) →
      ∃ vs, sigsToValues ss = .ok vs ∧ vs.length = a.length ∧ (∀ x ∈ vs, Normal x) ∧ (∀ x ∈ vs, ∃ v ∈ a, depthOf x ≤ depthOf v) := by
  intro a
  induction a with
  | nil => intro ss h _; simp [mapRes] at h; subst h; exact ⟨[], rfl, rfl, by simp, by simp⟩
  | cons v a ih =>
    intro ss h ha
    rw [mapRes_cons_ok] at h
    obtain ⟨s, ss', hs, hss, rfl⟩ := h
    obtain ⟨vs, h1, h2, h3, h4⟩ := ih ss' hss (fun w hw => ha w (by simp [hw]))
    obtain ⟨x, hx, hxn, hxd⟩ := hsf v s hs (ha v (by simp)).1 (ha v (by simp)).2
    refine ⟨x :: vs, by simp [sigsToValues, hx, h1], by simp [h2], ?_, ?_⟩
    · intro y hy; rcases List.mem_cons.mp hy with rfl | hy'
      · exact hxn
      · exact h3 y hy'
    · intro y hy; rcases List.mem_cons.mp hy with rfl | hy'
      · exact ⟨v, by simp, hxd⟩
      · obtain ⟨w, hw, hd⟩ := h4 y hy'; exact ⟨w, by simp [hw], hd⟩

theorem depthOf_array (xs : List Value) : depthOf (.array xs) = depthOfL xs + 1 := by simp [depthOf]
theorem depthOf_map (m : List (Value × Value)) : depthOf (.map m) = depthOfP m + 1 := by simp [depthOf]

/-- the counter-signature arm. -/
theorem csArm_tame (d : Nat) (sf : Value → Res CoseSignature) (hsf : SigTame sf) (w : Value) (ss : List CoseSignature)
    (h : counterSigArm d sf w = .ok ss) (hn : Normal w) (hz : w.size < sliceMax) :
    ∃ x, csValue ss = .ok (some x) ∧ Tame x w := by
  cases w with
  | array a =>
    simp only [counterSigArm, tryAsArray] at h
    by_cases he : a.isEmpty = true
    · simp [he] at h
    · by_cases hd : d = 0
      · simp [he, hd] at h
      · simp only [he, hd, Bool.false_eq_true, if_false] at h
        cases a with
        | nil => simp at he
        | cons first a' =>
          simp only [vindex, List.getElem?_cons_zero] at h
          cases first with
          | bytes b0 =>
            simp only [] at h
            cases hs : sf (.array (.bytes b0 :: a')) with
            | ok s =>
              simp [hs] at h; subst h
              obtain ⟨x, hx, ht⟩ := hsf _ s hs hn hz
              exact ⟨x, by simp [csValue, hx], ht⟩
            | err e => simp [hs] at h
            | panic p => simp [hs] at h
          | array a0 =>
            simp only [] at h
            simp only [Normal] at hn
            simp only [Value.size] at hz
            have hmem : ∀ v ∈ (Value.array a0 :: a'), Normal v ∧ v.size < sliceMax := by
              intro v hv
              have := size_le_sizeL _ v hv
              exact ⟨normalL_mem _ hn.2 v hv, by omega⟩
            obtain ⟨vs, h1, h2, h3, h4⟩ := sigs_tame sf hsf _ ss h hmem
            have hdl : ∀ x ∈ vs, depthOf x ≤ depthOfL (Value.array a0 :: a') := by
              intro x hx
              obtain ⟨v, hv, hd'⟩ := h4 x hx
              have := depthOfL_mem _ v hv; omega
            match ss, vs, h1, h2 with
            | [], _, _, h2 =>
              have := mapRes_length sf _ _ h; simp at this
            | [s], [x], h1, _ =>
              simp only [sigsToValues] at h1
              cases ht : CoseSignature.toValue s with
              | ok y =>
                simp [ht] at h1; subst h1
                refine ⟨y, by simp [csValue, ht], h3 y (by simp), ?_⟩
                have := hdl y (by simp)
                rw [depthOf_array]; omega
              | err e => simp [ht] at h1
              | panic p => simp [ht] at h1
            | s :: s2 :: ss', vs, h1, h2 =>
              refine ⟨.array vs, by simp [csValue, h1], ?_, ?_⟩
              · simp only [Normal]; exact ⟨by rw [h2]; exact hn.1, normalL_of vs h3⟩
              · rw [depthOf_array, depthOf_array]
                have := depthOfL_le _ vs hdl; omega
            | [_], [], h1, _ => simp [sigsToValues] at h1; split at h1 <;> simp at h1
            | [_], _ :: _ :: _, h1, _ =>
              simp only [sigsToValues] at h1
              split at h1 <;> simp at h1
          | _ => simp [typeError] at h
  | _ => simp [counterSigArm, tryAsArray, typeError] at h

theorem typedL_length_le (alg : Option RegLabelPriv) (crit : List RegLabel) (ct : Option RegLabel) (kid iv piv : Bytes) :
    (typedL alg crit ct kid iv piv).length ≤ 6 := by
  unfold typedL
  cases alg <;> cases ct <;> by_cases h2 : crit.isEmpty <;> by_cases h4 : kid.isEmpty <;> by_cases h5 : iv.isEmpty <;> by_cases h6 : piv.isEmpty <;>
    simp [h2, h4, h5, h6]


theorem typedL_mem (alg : Option RegLabelPriv) (crit : List RegLabel) (ct : Option RegLabel) (kid iv piv : Bytes) (e : Label × Value)
    (he : e ∈ typedL alg crit ct kid iv piv) :
    (∃ a, alg = some a ∧ e = (.int 1, RegLabelPriv.value Reg.algorithm a)) ∨
    (crit ≠ [] ∧ e = (.int 2, .array (crit.map (RegLabel.value Reg.headerParameter)))) ∨
    (∃ c, ct = some c ∧ e = (.int 3, RegLabel.value Reg.coapContentFormat c)) ∨
    (kid ≠ [] ∧ e = (.int 4, .bytes kid)) ∨ (iv ≠ [] ∧ e = (.int 5, .bytes iv)) ∨ (piv ≠ [] ∧ e = (.int 6, .bytes piv)) := by
  unfold typedL at he
  simp only [List.mem_append, List.mem_map, Option.mem_toList] at he
  rcases he with ((((⟨a, ha, rfl⟩ | h2) | ⟨c, hc, rfl⟩) | h4) | h5) | h6
  · exact Or.inl ⟨a, ha, rfl⟩
  · by_cases hc : crit.isEmpty = true
    · simp [hc] at h2
    · simp only [hc, Bool.not_eq_true, Bool.not_false, if_true, List.mem_singleton] at h2
      exact Or.inr (Or.inl ⟨by intro h0; subst h0; simp at hc, by simpa using h2⟩)
  · exact Or.inr (Or.inr (Or.inl ⟨c, hc, rfl⟩))
  · by_cases hc : kid.isEmpty = true
    · simp [hc] at h4
    · simp only [hc, Bool.not_eq_true, Bool.not_false, if_true, List.mem_singleton] at h4
      exact Or.inr (Or.inr (Or.inr (Or.inl ⟨by intro h0; subst h0; simp at hc, by simpa using h4⟩)))
  · by_cases hc : iv.isEmpty = true
    · simp [hc] at h5
    · simp only [hc, Bool.not_eq_true, Bool.not_false, if_true, List.mem_singleton] at h5
      exact Or.inr (Or.inr (Or.inr (Or.inr (Or.inl ⟨by intro h0; subst h0; simp at hc, by simpa using h5⟩))))
  · by_cases hc : piv.isEmpty = true
    · simp [hc] at h6
    · simp only [hc, Bool.not_eq_true, Bool.not_false, if_true, List.mem_singleton] at h6
      exact Or.inr (Or.inr (Or.inr (Or.inr (Or.inr ⟨by intro h0; subst h0; simp at hc, by simpa using h6⟩))))

/-- the header loop: what the decoded header re-emits is tame with respect to the wire map. -/
theorem header_loop_tame (d : Nat) (sf : Value → Res CoseSignature) (hfix : ∀ v s, sf v = .ok s → SigFixBy sf s) (hsf : SigTame sf)
    (m : List (Value × Value)) (h : Header) (hm : headerLoop d sf m Header.default [] = .ok h)
    (hn : NormalP m) (hz : Value.sizeP m < sliceMax) :
    ∃ x, Header.toValue h = .ok x ∧ Normal x ∧ depthOf x ≤ depthOfP m + 1 := by
  obtain ⟨ov, hcs, htv, _⟩ := header_loop_fixed' d sf hfix m h hm
  obtain ⟨ls, hk, hfr, hfold⟩ := (headerLoop_ok_iff d sf m _ _ _).mp hm
  have hlen : ls.length = (m.map (·.2)).length := by
    have := mapRes_length _ _ _ hk; simp at this ⊢; exact this
  have hfst : (ls.zip (m.map (·.2))).map (·.1) = ls := by
    rw [List.map_fst_zip]; omega
  have hof := fold_headerOf d sf (ls.zip (m.map (·.2))) Header.default h (by rw [hfst]; exact hfr.1) hfold
  have hwire : ∀ p ∈ ls.zip (m.map (·.2)), (labelValue p.1, p.2) ∈ m := by
    intro p hp
    obtain ⟨k, h1, h2⟩ := zip_mem_wire m ls hk p hp
    rw [labelValue_of_fromValue k p.1 h2]; exact h1
  have hlk : ∀ L w, lookupL L (ls.zip (m.map (·.2))) = some w → (labelValue L, w) ∈ m :=
    fun L w hl => hwire (L, w) (lookupL_mem L _ w hl)
  have good_of_mem : ∀ q ∈ m, Normal q.1 ∧ Normal q.2 ∧ depthOf q.1 ≤ depthOfP m ∧ depthOf q.2 ≤ depthOfP m := by
    intro q hq
    have h1 := normalP_mem m hn q hq; have h2 := depthOfP_mem m q hq
    exact ⟨h1.1, h1.2, h2.1, h2.2⟩
  have hent : ∀ e ∈ entries h.alg h.crit h.contentType h.keyId h.iv h.partialIv ov h.rest,
      Normal (labelValue e.1) ∧ Normal e.2 ∧ depthOf (labelValue e.1) ≤ depthOfP m ∧ depthOf e.2 ≤ depthOfP m := by
    intro e he
    simp only [entries, List.mem_append] at he
    rcases he with (he | he) | he
    · -- the six simple typed fields: each emitted entry *is* a wire entry
      apply good_of_mem (labelValue e.1, e.2)
      rcases typedL_mem _ _ _ _ _ _ e he with ⟨a, ha, rfl⟩ | ⟨hc, rfl⟩ | ⟨c, hc, rfl⟩ | ⟨hc, rfl⟩ | ⟨hc, rfl⟩ | ⟨hc, rfl⟩
      · have A := hof.alg
        cases hl : lookupL (.int 1) (ls.zip (m.map (·.2))) with
        | none => simp only [hl] at A; rw [A] at ha; simp [Header.default, Header.alg] at ha
        | some v =>
          simp only [hl] at A
          obtain ⟨a', h1, h2⟩ := A
          rw [h2] at ha; cases ha
          rw [RegLabelPriv.value_of_fromValue _ _ _ h1]
          exact hlk _ _ hl
      · have C := hof.crit
        cases hl : lookupL (.int 2) (ls.zip (m.map (·.2))) with
        | none => simp only [hl] at C; rw [C] at hc; simp [Header.default, Header.crit] at hc
        | some v =>
          simp only [hl] at C
          obtain ⟨a, ls', rfl, _, h3, h4⟩ := C
          have : h.crit = ls' := by rw [h4]; simp [Header.default, Header.crit]
          rw [this, mapRes_value_of_fromValue _ _ (fun v x hx => RegLabel.value_of_fromValue _ v x hx) a ls' h3]
          exact hlk _ _ hl
      · have T := hof.contentType
        cases hl : lookupL (.int 3) (ls.zip (m.map (·.2))) with
        | none => simp only [hl] at T; rw [T] at hc; simp [Header.default, Header.contentType] at hc
        | some v =>
          simp only [hl] at T
          obtain ⟨c', h1, _, h3⟩ := T
          rw [h3] at hc; cases hc
          rw [RegLabel.value_of_fromValue _ _ _ h1]
          exact hlk _ _ hl
      · have K := hof.keyId
        cases hl : lookupL (.int 4) (ls.zip (m.map (·.2))) with
        | none => simp only [hl] at K; rw [K] at hc; simp [Header.default, Header.keyId] at hc
        | some v =>
          simp only [hl] at K
          obtain ⟨b, rfl, _, h3⟩ := K
          rw [h3]; exact hlk _ _ hl
      · have K := hof.iv
        cases hl : lookupL (.int 5) (ls.zip (m.map (·.2))) with
        | none => simp only [hl] at K; rw [K] at hc; simp [Header.default, Header.iv] at hc
        | some v =>
          simp only [hl] at K
          obtain ⟨b, rfl, _, h3⟩ := K
          rw [h3]; exact hlk _ _ hl
      · have K := hof.partialIv
        cases hl : lookupL (.int 6) (ls.zip (m.map (·.2))) with
        | none => simp only [hl] at K; rw [K] at hc; simp [Header.default, Header.partialIv] at hc
        | some v =>
          simp only [hl] at K
          obtain ⟨b, rfl, _, h3⟩ := K
          rw [h3]; exact hlk _ _ hl
    · -- the counter-signature entry: re-emitted, tame with respect to the wire value under label 7
      cases ov with
      | none => simp [csL] at he
      | some x =>
        simp only [csL, List.mem_singleton] at he; subst he
        have S := hof.counterSignatures
        cases hl : lookupL (.int 7) (ls.zip (m.map (·.2))) with
        | none =>
          simp only [hl] at S
          rw [S] at hcs; simp [Header.default, Header.counterSignatures, csValue] at hcs
        | some w =>
          simp only [hl] at S
          obtain ⟨ss, h1, h2⟩ := S
          have hss : h.counterSignatures = ss := by rw [h2]; simp [Header.default, Header.counterSignatures]
          have hmw := hlk _ _ hl
          have gw := good_of_mem _ hmw
          have hsz : (labelValue (.int 7)).size + w.size ≤ Value.sizeP m := sizeP_mem m _ hmw
          have hwz : w.size < sliceMax := by omega
          have hwd : depthOf w ≤ depthOfP m := gw.2.2.2
          obtain ⟨x', hx1, hx2, hx3⟩ := csArm_tame d sf hsf w ss h1 gw.2.1 hwz
          rw [hss, hx1] at hcs
          simp at hcs; subst hcs
          exact ⟨by simp [labelValue, Normal], hx2, by simp [labelValue, depthOf], Nat.le_trans hx3 hwd⟩
    · -- the other parameters: wire entries, untouched
      have R := hof.rest
      rw [R] at he
      simp only [Header.default, Header.rest, List.nil_append, List.mem_filter] at he
      exact good_of_mem _ (hwire e he.1)
  refine ⟨_, htv, ?_, ?_⟩
  · simp only [Normal]
    constructor
    · -- at most seven entries more than the wire map had
      have h1 := typedL_length_le h.alg h.crit h.contentType h.keyId h.iv h.partialIv
      have h2 : (csL ov).length ≤ 1 := by cases ov <;> simp [csL]
      have h3 : h.rest.length ≤ m.length := by
        rw [hof.rest]
        simp only [Header.default, Header.rest, List.nil_append]
        have := List.length_filter_le (fun p : Label × Value => decide (p.1 ∉ stdLabels)) (ls.zip (m.map (·.2)))
        have h4 : (ls.zip (m.map (·.2))).length ≤ m.length := by simp [List.length_zip]; omega
        omega
      have h5 := length_le_sizeP m
      simp only [pairsToValue, entries, List.length_map, List.length_append]
      unfold sliceMax at hz
      omega
    · apply normalP_of
      intro q hq
      simp only [pairsToValue, List.mem_map] at hq
      obtain ⟨e, he, rfl⟩ := hq
      have := hent e he
      exact ⟨this.1, this.2.1⟩
  · rw [depthOf_map]
    have : depthOfP (pairsToValue (entries h.alg h.crit h.contentType h.keyId h.iv h.partialIv ov h.rest)) ≤ depthOfP m := by
      apply depthOfP_le
      intro q hq
      simp only [pairsToValue, List.mem_map] at hq
      obtain ⟨e, he, rfl⟩ := hq
      have := hent e he
      exact ⟨this.2.2.1, this.2.2.2⟩
    omega


/-- the family, by induction on fuel: headers and signatures at any nesting budget. -/
theorem tame_all : ∀ f : Nat,
    (∀ d v h, Header.fromValue f d v = .ok h → Normal v → v.size < sliceMax → ∃ x, Header.toValue h = .ok x ∧ Tame x v) ∧
    (∀ d, SigTame (CoseSignature.fromValue f d)) := by
  intro f
  induction f with
  | zero => exact ⟨by intro d v h hh; simp [Header.fromValue] at hh, by intro d v s hs; simp [CoseSignature.fromValue] at hs⟩
  | succ f ih =>
    obtain ⟨ihH, ihS⟩ := ih
    constructor
    · intro d v h hh hn hz
      cases v with
      | map m =>
        simp only [Header.fromValue, tryAsMap] at hh
        simp only [Normal] at hn
        simp only [Value.size] at hz
        obtain ⟨x, h1, h2, h3⟩ := header_loop_tame d _ (fun v s hs => (fixed_all f).2 (d - 1) v s hs) (ihS (d - 1)) m h hh hn.2 (by omega)
        exact ⟨x, h1, h2, by rw [depthOf_map]; exact h3⟩
      | _ => simp [Header.fromValue, tryAsMap, typeError] at hh
    · intro d v s hs hn hz
      obtain ⟨x0, x1, rfl, hp, hu⟩ := (signature_ok_iff f d v s).mp hs
      simp only [Normal, NormalL] at hn
      simp only [Value.size, Value.sizeL] at hz
      obtain ⟨x, hx1, hx2, hx3⟩ := ihH d x1 _ hu hn.2.2.1 (by omega)
      obtain ⟨data, rfl, ho⟩ := Coset.Props.C02.decode_retains f d x0 _ hp
      cases s with
      | mk prot unprot sig =>
        simp only [CoseSignature.protected_, CoseSignature.unprotected, CoseSignature.signature] at hp hu hx1 hx2 hx3 ho hn
        cases prot with
        | mk orig ph =>
          simp only [ProtectedHeader.originalData] at ho; subst ho
          refine ⟨.array [.bytes data, x, .bytes sig], by simp [CoseSignature.toValue, ProtectedHeader.cborBstr, hx1], ?_, ?_⟩
          · simp only [Normal, NormalL]
            exact ⟨by simp, hn.2.1, hx2, hn.2.2.2.1, trivial⟩
          · simp only [depthOf, depthOfL] at hx3 ⊢; omega

theorem header_tame (f d : Nat) (v : Value) (h : Header) (hh : Header.fromValue f d v = .ok h) (hn : Normal v) (hz : v.size < sliceMax) :
    ∃ x, Header.toValue h = .ok x ∧ Normal x ∧ depthOf x ≤ depthOf v := (tame_all f).1 d v h hh hn hz

theorem signature_tame (f d : Nat) (v : Value) (s : CoseSignature) (hs : CoseSignature.fromValue f d v = .ok s) (hn : Normal v)
    (hz : v.size < sliceMax) : ∃ x, CoseSignature.toValue s = .ok x ∧ Normal x ∧ depthOf x ≤ depthOf v := (tame_all f).2 d v s hs hn hz

end Coset
