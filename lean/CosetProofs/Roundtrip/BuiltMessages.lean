/-
  Encode-then-decode for built messages (C11): every well-formed message encodes, and decoding gives it back up to the
  byte strings assigned to protected headers.
-/
import CosetProofs.Roundtrip.Built
import CosetProofs.Roundtrip.Messages
namespace Coset
open Coset.Spec Coset.Cbor

theorem topFuel_ge : 3 * maxNest + 3 = topFuel := rfl

theorem hdr_api_rt (h : Header) (hw : Header.WF maxNest h) :
    ∃ x h', Header.toValue h = .ok x ∧ hdrFromValue x = .ok h' ∧ Header.erase h' = Header.erase h := by
  obtain ⟨x, h', h1, h2, h3⟩ := (built_rt maxNest).1 h hw
  refine ⟨x, h', h1, ?_, h3⟩
  simp only [hdrFromValue]
  rw [(fuel_independent maxNest).1 topFuel x (by simp [topFuel])]; exact h2

theorem ph_api_rt (p : ProtectedHeader) (hw : ProtectedHeader.WF maxNest p) :
    ∃ b p', ProtectedHeader.cborBstr p = .ok (.bytes b) ∧ phFromBstr (.bytes b) = .ok p' ∧ ProtectedHeader.erase p' = ProtectedHeader.erase p ∧
      p'.originalData = some b := by
  obtain ⟨b, p', h1, h2, h3, h4⟩ := (built_rt maxNest).2.1 p hw
  refine ⟨b, p', h1, ?_, h3, h4⟩
  simp only [phFromBstr]
  rw [(fuel_independent maxNest).2.1 topFuel _ (by simp [topFuel])]; exact h2

theorem sig_api_rt (s : CoseSignature) (hw : CoseSignature.WF maxNest s) :
    ∃ x s', CoseSignature.toValue s = .ok x ∧ sigFromValue x = .ok s' ∧ CoseSignature.erase s' = CoseSignature.erase s ∧ SigSame s' s := by
  obtain ⟨b, tl, s', h1, h2, h3, h4⟩ := (built_rt maxNest).2.2 s hw
  exact ⟨_, s', h1, h2, h3, h4⟩

/-- the two header slots every message starts with. -/
theorem slots_rt (p : ProtectedHeader) (u : Header) (hp : ProtectedHeader.WF maxNest p) (hu : Header.WF maxNest u) :
    ∃ b y p' u', headerSlots p u = .ok [.bytes b, y] ∧ phFromBstr (.bytes b) = .ok p' ∧ hdrFromValue y = .ok u' ∧
      ProtectedHeader.erase p' = ProtectedHeader.erase p ∧ Header.erase u' = Header.erase u ∧ p'.originalData = some b := by
  obtain ⟨b, p', h1, h2, h3, h4⟩ := ph_api_rt p hp
  obtain ⟨y, u', g1, g2, g3⟩ := hdr_api_rt u hu
  exact ⟨b, y, p', u', by simp [headerSlots, h1, g1], h2, g2, h3, g3, h4⟩

theorem slots_first (p : ProtectedHeader) (u : Header) (pv y : Value) (h : headerSlots p u = .ok [pv, y]) : ProtectedHeader.cborBstr p = .ok pv := by
  simp only [headerSlots] at h
  cases hp : ProtectedHeader.cborBstr p with
  | ok pv' =>
    simp only [hp] at h
    cases hu : Header.toValue u with
    | ok uv => simp [hu] at h; rw [h.1]
    | err e => simp [hu] at h
    | panic q => simp [hu] at h
  | err e => simp [hp] at h
  | panic q => simp [hp] at h

theorem headerSlots_ok (p : ProtectedHeader) (u : Header) (hs : List Value) (h : headerSlots p u = .ok hs) :
    ∃ pv uv, hs = [pv, uv] ∧ ProtectedHeader.cborBstr p = .ok pv ∧ Header.toValue u = .ok uv := by
  simp only [headerSlots] at h
  cases hp : ProtectedHeader.cborBstr p with
  | ok pv =>
    simp only [hp] at h
    cases hu : Header.toValue u with
    | ok uv => simp [hu] at h; exact ⟨pv, uv, h.symm, rfl, rfl⟩
    | err e => simp [hu] at h
    | panic q => simp [hu] at h
  | err e => simp [hp] at h
  | panic q => simp [hp] at h

/-- the first slot of an emitted message is what `cbor_bstr` gave for its protected header. -/
theorem first_slot (p : ProtectedHeader) (u : Header) (tail : List Value) (r : Res Value) (pv : Value) (rest : List Value)
    (hr : r = match headerSlots p u with
      | .ok hs => .ok (.array (hs ++ tail))
      | .err e => .err e
      | .panic s => .panic s)
    (h : r = .ok (.array (pv :: rest))) : ProtectedHeader.cborBstr p = .ok pv := by
  rw [hr] at h
  cases hs : headerSlots p u with
  | ok hsl =>
    obtain ⟨pv', uv, rfl, h1, _⟩ := headerSlots_ok p u hsl hs
    simp [hs] at h; rw [← h.1]; exact h1
  | err e => simp [hs] at h
  | panic q => simp [hs] at h

theorem optBytes_emit (o : Option Bytes) : optBytes (optBytesToValue o) = .ok o := by cases o <;> rfl

/-! ### the four single-layer messages -/

theorem sign1_rt (m : CoseSign1) (hp : ProtectedHeader.WF maxNest m.protected_) (hu : Header.WF maxNest m.unprotected) :
    ∃ b y m', m.toValue = .ok (.array [.bytes b, y, optBytesToValue m.payload, .bytes m.signature]) ∧
      CoseSign1.fromValue (.array [.bytes b, y, optBytesToValue m.payload, .bytes m.signature]) = .ok m' ∧
      ProtectedHeader.erase m'.protected_ = ProtectedHeader.erase m.protected_ ∧ Header.erase m'.unprotected = Header.erase m.unprotected ∧
      m'.payload = m.payload ∧ m'.signature = m.signature ∧ m'.protected_.originalData = some b := by
  obtain ⟨b, y, p', u', h1, h2, h3, h4, h5, h6⟩ := slots_rt _ _ hp hu
  refine ⟨b, y, ⟨p', u', m.payload, m.signature⟩, by simp [CoseSign1.toValue, h1], ?_, h4, h5, rfl, rfl, h6⟩
  exact (sign1_ok_iff _ _).mpr ⟨.bytes b, y, _, rfl, h2, h3, optBytes_emit _⟩

theorem mac0_rt (m : CoseMac0) (hp : ProtectedHeader.WF maxNest m.protected_) (hu : Header.WF maxNest m.unprotected) :
    ∃ b y m', m.toValue = .ok (.array [.bytes b, y, optBytesToValue m.payload, .bytes m.tag]) ∧
      CoseMac0.fromValue (.array [.bytes b, y, optBytesToValue m.payload, .bytes m.tag]) = .ok m' ∧
      ProtectedHeader.erase m'.protected_ = ProtectedHeader.erase m.protected_ ∧ Header.erase m'.unprotected = Header.erase m.unprotected ∧
      m'.payload = m.payload ∧ m'.tag = m.tag ∧ m'.protected_.originalData = some b := by
  obtain ⟨b, y, p', u', h1, h2, h3, h4, h5, h6⟩ := slots_rt _ _ hp hu
  refine ⟨b, y, ⟨p', u', m.payload, m.tag⟩, by simp [CoseMac0.toValue, h1], ?_, h4, h5, rfl, rfl, h6⟩
  exact (mac0_ok_iff _ _).mpr ⟨.bytes b, y, _, rfl, h2, h3, optBytes_emit _⟩

theorem encrypt0_rt (m : CoseEncrypt0) (hp : ProtectedHeader.WF maxNest m.protected_) (hu : Header.WF maxNest m.unprotected) :
    ∃ b y m', m.toValue = .ok (.array [.bytes b, y, optBytesToValue m.ciphertext]) ∧
      CoseEncrypt0.fromValue (.array [.bytes b, y, optBytesToValue m.ciphertext]) = .ok m' ∧
      ProtectedHeader.erase m'.protected_ = ProtectedHeader.erase m.protected_ ∧ Header.erase m'.unprotected = Header.erase m.unprotected ∧
      m'.ciphertext = m.ciphertext ∧ m'.protected_.originalData = some b := by
  obtain ⟨b, y, p', u', h1, h2, h3, h4, h5, h6⟩ := slots_rt _ _ hp hu
  refine ⟨b, y, ⟨p', u', m.ciphertext⟩, by simp [CoseEncrypt0.toValue, h1], ?_, h4, h5, rfl, h6⟩
  exact (encrypt0_ok_iff _ _).mpr ⟨.bytes b, y, _, rfl, h2, h3, optBytes_emit _⟩

/-- signers of a COSE_Sign. -/
theorem signers_rt : ∀ ss, sigsWF maxNest ss →
    ∃ vs ss', sigsToValues ss = .ok vs ∧ mapRes (fun s => (sigFromValue s).mapErr .unexpectedItem) vs = .ok ss' ∧ eraseSigs ss' = eraseSigs ss ∧
      sigsSame ss' ss := by
  intro ss
  induction ss with
  | nil => intro _; exact ⟨[], [], rfl, rfl, rfl, trivial⟩
  | cons s ss ih =>
    intro hw
    simp only [sigsWF] at hw
    obtain ⟨vs, ss', h1, h2, h3, h4⟩ := ih hw.2
    obtain ⟨x, s', g1, g2, g3, g4⟩ := sig_api_rt s hw.1
    exact ⟨x :: vs, s' :: ss', by simp [sigsToValues, g1, h1], by rw [mapRes_cons_ok]; exact ⟨s', ss', by simp [g2, Res.mapErr], h2, rfl⟩, by simp [eraseSigs, g3, h3],
      ⟨g4, h4⟩⟩

theorem sign_rt (m : CoseSign) (hp : ProtectedHeader.WF maxNest m.protected_) (hu : Header.WF maxNest m.unprotected) (hs : sigsWF maxNest m.signatures) :
    ∃ b y vs m', m.toValue = .ok (.array [.bytes b, y, optBytesToValue m.payload, .array vs]) ∧
      CoseSign.fromValue (.array [.bytes b, y, optBytesToValue m.payload, .array vs]) = .ok m' ∧
      ProtectedHeader.erase m'.protected_ = ProtectedHeader.erase m.protected_ ∧ Header.erase m'.unprotected = Header.erase m.unprotected ∧
      m'.payload = m.payload ∧ eraseSigs m'.signatures = eraseSigs m.signatures ∧ m'.protected_.originalData = some b ∧
      sigsSame m'.signatures m.signatures := by
  obtain ⟨b, y, p', u', h1, h2, h3, h4, h5, h6⟩ := slots_rt _ _ hp hu
  obtain ⟨vs, ss', g1, g2, g3, g4⟩ := signers_rt _ hs
  refine ⟨b, y, vs, ⟨p', u', m.payload, ss'⟩, by simp [CoseSign.toValue, h1, g1], ?_, h4, h5, rfl, g3, h6, g4⟩
  exact (sign_ok_iff _ _).mpr ⟨.bytes b, y, _, vs, rfl, h2, h3, optBytes_emit _, g2⟩

/-! ### recipients (nested) -/

mutual
def CoseRecipient.height : CoseRecipient → Nat
  | .mk _ _ _ rs => heightL rs + 1
def heightL : List CoseRecipient → Nat
  | [] => 0
  | r :: rs => max (CoseRecipient.height r) (heightL rs)
end

mutual
def CoseRecipient.WF : CoseRecipient → Prop
  | .mk p u _ rs => ProtectedHeader.WF maxNest p ∧ Header.WF maxNest u ∧ rcpsWF rs
def rcpsWF : List CoseRecipient → Prop
  | [] => True
  | r :: rs => CoseRecipient.WF r ∧ rcpsWF rs
end

mutual
def CoseRecipient.erase : CoseRecipient → CoseRecipient
  | .mk p u ct rs => .mk (ProtectedHeader.erase p) (Header.erase u) ct (eraseRcps rs)
def eraseRcps : List CoseRecipient → List CoseRecipient
  | [] => []
  | r :: rs => CoseRecipient.erase r :: eraseRcps rs
end

theorem recipient_rt : ∀ (n : Nat) (r : CoseRecipient), r.height ≤ n → r.WF →
    ∃ x r', r.toValue = .ok x ∧ (∀ f', x.size < f' → CoseRecipient.fromValue f' x = .ok r') ∧ r'.erase = r.erase ∧
      ProtectedHeader.cborBstr r'.protected_ = ProtectedHeader.cborBstr r.protected_ ∧ r'.ciphertext = r.ciphertext := by
  intro n
  induction n with
  | zero => intro r hh _; cases r; simp [CoseRecipient.height] at hh
  | succ n ih =>
    intro r hh hw
    cases r with
    | mk p u ct rs =>
      simp only [CoseRecipient.WF] at hw
      simp only [CoseRecipient.height] at hh
      obtain ⟨b, y, p', u', h1, h2, h3, h4, h5, h6⟩ := slots_rt p u hw.1 hw.2.1
      have hsame : ProtectedHeader.cborBstr p' = ProtectedHeader.cborBstr p := by
        rw [cborBstr_of_orig p' b h6, slots_first p u _ _ h1]
      have hnest : ∃ ys rs', recipientsToValues rs = .ok ys ∧ eraseRcps rs' = eraseRcps rs ∧ ys.length = rs.length ∧ rs'.length = rs.length ∧
          ∀ f'', Value.sizeL ys < f'' → mapRes (CoseRecipient.fromValue f'') ys = .ok rs' := by
        have hh' : heightL rs ≤ n := by omega
        have hw' := hw.2.2
        clear hh hw h1 h2 h3 h4 h5 h6 hsame
        induction rs with
        | nil => exact ⟨[], [], by simp [recipientsToValues], rfl, rfl, rfl, fun _ _ => rfl⟩
        | cons r0 rs0 ihr =>
          simp only [heightL] at hh'
          simp only [rcpsWF] at hw'
          obtain ⟨ys, rs', a1, a2, a3, a4, a5⟩ := ihr (by omega) hw'.2
          obtain ⟨x0, r0', c1, c2, c3, _⟩ := ih r0 (by omega) hw'.1
          refine ⟨x0 :: ys, r0' :: rs', by simp [recipientsToValues, c1, a1], by simp [eraseRcps, c3, a2], by simp [a3], by simp [a4], ?_⟩
          intro f'' hf''
          simp only [Value.sizeL] at hf''
          simp [mapRes, c2 f'' (by omega), a5 f'' (by omega)]
      obtain ⟨ys, rs', n1, n2, n3, n4, n5⟩ := hnest
      cases rs with
      | nil =>
        have : rs' = [] := List.length_eq_zero_iff.mp (by simpa using n4)
        subst this
        refine ⟨.array [.bytes b, y, optBytesToValue ct], .mk p' u' ct [], by simp [CoseRecipient.toValue, h1], ?_, by simp [CoseRecipient.erase, h4, h5, eraseRcps],
          by simpa [CoseRecipient.protected_] using hsame, rfl⟩
        intro f' hf'
        cases f' with
        | zero => omega
        | succ f'' => exact (recipient_ok_iff f'' _ p' u' ct []).mpr (Or.inl ⟨.bytes b, y, _, rfl, h2, h3, optBytes_emit ct, rfl⟩)
      | cons r0 rs0 =>
        refine ⟨.array [.bytes b, y, optBytesToValue ct, .array ys], .mk p' u' ct rs', by simp [CoseRecipient.toValue, h1, n1], ?_,
          by simp [CoseRecipient.erase, h4, h5, n2], by simpa [CoseRecipient.protected_] using hsame, rfl⟩
        intro f' hf'
        cases f' with
        | zero => omega
        | succ f'' =>
          refine (recipient_ok_iff f'' _ p' u' ct rs').mpr (Or.inr ⟨.bytes b, y, _, ys, rfl, h2, h3, optBytes_emit ct, n5 f'' ?_⟩)
          simp only [Value.size, Value.sizeL] at hf'
          omega

theorem rcp_rt (r : CoseRecipient) (hw : r.WF) : ∃ x r', r.toValue = .ok x ∧ rcpFromValue x = .ok r' ∧ r'.erase = r.erase := by
  obtain ⟨x, r', h1, h2, h3, _⟩ := recipient_rt r.height r (Nat.le_refl _) hw
  exact ⟨x, r', h1, h2 _ (by omega), h3⟩

theorem rcp_rt_same (r : CoseRecipient) (hw : r.WF) : ∃ x r', r.toValue = .ok x ∧ rcpFromValue x = .ok r' ∧
    ProtectedHeader.cborBstr r'.protected_ = ProtectedHeader.cborBstr r.protected_ ∧ r'.ciphertext = r.ciphertext := by
  obtain ⟨x, r', h1, h2, _, h4, h5⟩ := recipient_rt r.height r (Nat.le_refl _) hw
  exact ⟨x, r', h1, h2 _ (by omega), h4, h5⟩

theorem rcps_rt : ∀ rs, rcpsWF rs → ∃ ys rs', recipientsToValues rs = .ok ys ∧ mapRes rcpFromValue ys = .ok rs' ∧ eraseRcps rs' = eraseRcps rs := by
  intro rs
  induction rs with
  | nil => intro _; exact ⟨[], [], by simp [recipientsToValues], rfl, rfl⟩
  | cons r rs ih =>
    intro hw
    simp only [rcpsWF] at hw
    obtain ⟨ys, rs', a1, a2, a3⟩ := ih hw.2
    obtain ⟨x, r', c1, c2, c3⟩ := rcp_rt r hw.1
    exact ⟨x :: ys, r' :: rs', by simp [recipientsToValues, c1, a1], by simp [mapRes, c2, a2], by simp [eraseRcps, c3, a3]⟩

theorem encrypt_rt (m : CoseEncrypt) (hp : ProtectedHeader.WF maxNest m.protected_) (hu : Header.WF maxNest m.unprotected) (hr : rcpsWF m.recipients) :
    ∃ b y ys m', m.toValue = .ok (.array [.bytes b, y, optBytesToValue m.ciphertext, .array ys]) ∧
      CoseEncrypt.fromValue (.array [.bytes b, y, optBytesToValue m.ciphertext, .array ys]) = .ok m' ∧
      ProtectedHeader.erase m'.protected_ = ProtectedHeader.erase m.protected_ ∧ Header.erase m'.unprotected = Header.erase m.unprotected ∧
      m'.ciphertext = m.ciphertext ∧ eraseRcps m'.recipients = eraseRcps m.recipients ∧ m'.protected_.originalData = some b := by
  obtain ⟨b, y, p', u', h1, h2, h3, h4, h5, h6⟩ := slots_rt _ _ hp hu
  obtain ⟨ys, rs', g1, g2, g3⟩ := rcps_rt _ hr
  refine ⟨b, y, ys, ⟨p', u', m.ciphertext, rs'⟩, by simp [CoseEncrypt.toValue, h1, g1], ?_, h4, h5, rfl, g3, h6⟩
  exact (encrypt_ok_iff _ _).mpr ⟨.bytes b, y, _, ys, rfl, h2, h3, optBytes_emit _, g2⟩

theorem mac_rt (m : CoseMac) (hp : ProtectedHeader.WF maxNest m.protected_) (hu : Header.WF maxNest m.unprotected) (hr : rcpsWF m.recipients) :
    ∃ b y ys m', m.toValue = .ok (.array [.bytes b, y, optBytesToValue m.payload, .bytes m.tag, .array ys]) ∧
      CoseMac.fromValue (.array [.bytes b, y, optBytesToValue m.payload, .bytes m.tag, .array ys]) = .ok m' ∧
      ProtectedHeader.erase m'.protected_ = ProtectedHeader.erase m.protected_ ∧ Header.erase m'.unprotected = Header.erase m.unprotected ∧
      m'.payload = m.payload ∧ m'.tag = m.tag ∧ eraseRcps m'.recipients = eraseRcps m.recipients ∧ m'.protected_.originalData = some b := by
  obtain ⟨b, y, p', u', h1, h2, h3, h4, h5, h6⟩ := slots_rt _ _ hp hu
  obtain ⟨ys, rs', g1, g2, g3⟩ := rcps_rt _ hr
  refine ⟨b, y, ys, ⟨p', u', m.payload, m.tag, rs'⟩, by simp [CoseMac.toValue, h1, g1], ?_, h4, h5, rfl, rfl, g3, h6⟩
  exact (mac_ok_iff _ _).mpr ⟨.bytes b, y, _, ys, rfl, h2, h3, optBytes_emit _, g2⟩

end Coset
