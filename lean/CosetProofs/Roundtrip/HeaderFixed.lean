/-
  Decoded headers, signatures and protected headers are fixed points of encode-then-decode (at `Value` level):
  whatever `from_cbor_value` accepted, `to_cbor_value` of the result succeeds and decodes to the same result.
-/
import CosetProofs.Roundtrip.HeaderEmit2
import CosetProofs.Props.C02
namespace Coset
open Coset.Spec

def HdrFix (f d : Nat) (h : Header) : Prop := ∃ x, Header.toValue h = .ok x ∧ Header.fromValue f d x = .ok h
def SigFixBy (sf : Value → Res CoseSignature) (s : CoseSignature) : Prop :=
  ∃ b tl, CoseSignature.toValue s = .ok (.array (.bytes b :: tl)) ∧ sf (.array (.bytes b :: tl)) = .ok s

theorem mapRes_length {α β : Type} (f : α → Res β) : ∀ (xs : List α) (ys : List β), mapRes f xs = .ok ys → ys.length = xs.length := by
  intro xs
  induction xs with
  | nil => intro ys h; simp [mapRes] at h; subst h; rfl
  | cons x xs ih =>
    intro ys h
    rw [mapRes_cons_ok] at h
    obtain ⟨y, ys', _, hys, rfl⟩ := h
    simp [ih ys' hys]

theorem mapRes_mem {α β : Type} (f : α → Res β) : ∀ (xs : List α) (ys : List β), mapRes f xs = .ok ys → ∀ y ∈ ys, ∃ x ∈ xs, f x = .ok y := by
  intro xs
  induction xs with
  | nil => intro ys h; simp [mapRes] at h; subst h; simp
  | cons x xs ih =>
    intro ys h
    rw [mapRes_cons_ok] at h
    obtain ⟨y, ys', hy, hys, rfl⟩ := h
    intro z hz
    rcases List.mem_cons.mp hz with rfl | hz'
    · exact ⟨x, by simp, hy⟩
    · obtain ⟨w, hw, hfw⟩ := ih ys' hys z hz'
      exact ⟨w, by simp [hw], hfw⟩

/-- element-wise: a list decoded by `f` re-emits through `mapRes g` and decodes to the same list. -/
theorem list_fixed' {α : Type} (f : Value → Res α) (g : α → Res Value) (hfix : ∀ v a, f v = .ok a → ∃ y, g a = .ok y ∧ f y = .ok a) :
    ∀ (vs : List Value) (as : List α), mapRes f vs = .ok as → ∃ ys, mapRes g as = .ok ys ∧ mapRes f ys = .ok as := by
  intro vs
  induction vs with
  | nil => intro as h; simp [mapRes] at h; subst h; exact ⟨[], rfl, rfl⟩
  | cons v vs ih =>
    intro as h
    rw [mapRes_cons_ok] at h
    obtain ⟨a, as', ha, has, rfl⟩ := h
    obtain ⟨ys, h1, h2⟩ := ih as' has
    obtain ⟨y, hy1, hy2⟩ := hfix v a ha
    exact ⟨y :: ys, by simp [mapRes, hy1, h1], by simp [mapRes, hy2, h2]⟩

/-- a list of decoded signatures re-emits as a list of values that decodes to the same list. -/
theorem sigs_fixed (sf : Value → Res CoseSignature) (hsf : ∀ v s, sf v = .ok s → SigFixBy sf s) :
    ∀ (a : List Value) (ss : List CoseSignature), mapRes sf a = .ok ss →
      ∃ vs, sigsToValues ss = .ok vs ∧ mapRes sf vs = .ok ss ∧ vs.length = ss.length ∧ ∀ x ∈ vs, ∃ b tl, x = .array (.bytes b :: tl) := by
  intro a
  induction a with
  | nil => intro ss h; simp [mapRes] at h; subst h; exact ⟨[], rfl, rfl, rfl, by simp⟩
  | cons x a ih =>
    intro ss h
    rw [mapRes_cons_ok] at h
    obtain ⟨s, ss', hs, hss, rfl⟩ := h
    obtain ⟨vs, h1, h2, h3, h4⟩ := ih ss' hss
    obtain ⟨b, tl, ht, hf⟩ := hsf x s hs
    refine ⟨.array (.bytes b :: tl) :: vs, ?_, ?_, by simp [h3], ?_⟩
    · simp [sigsToValues, ht, h1]
    · simp [mapRes, hf, h2]
    · intro y hy
      rcases List.mem_cons.mp hy with rfl | hy'
      · exact ⟨b, tl, rfl⟩
      · exact h4 y hy'

/-- the counter-signature arm: what it accepted re-emits (inline for one, array for several) as a value it accepts with the same result. -/
theorem csArm_fixed (d : Nat) (sf : Value → Res CoseSignature) (hsf : ∀ v s, sf v = .ok s → SigFixBy sf s)
    (v : Value) (ss : List CoseSignature) (h : counterSigArm d sf v = .ok ss) :
    ∃ x, csValue ss = .ok (some x) ∧ counterSigArm d sf x = .ok ss := by
  cases v with
  | array a =>
    simp only [counterSigArm, tryAsArray] at h
    by_cases he : a.isEmpty = true
    · simp [he] at h
    · by_cases hd : d = 0
      · simp [he, hd] at h
      · simp only [he, hd, Bool.false_eq_true, if_false] at h
        cases a with
        | nil => simp at he
        | cons first a' =>
          simp only [vindex, List.getElem?_cons_zero] at h
          cases first with
          | bytes b0 =>
            simp only [] at h
            cases hs : sf (.array (.bytes b0 :: a')) with
            | ok s =>
              simp [hs] at h; subst h
              obtain ⟨b, tl, ht, hf⟩ := hsf _ s hs
              refine ⟨.array (.bytes b :: tl), by simp [csValue, ht], ?_⟩
              simp [counterSigArm, tryAsArray, hd, vindex, hf]
            | err e => simp [hs] at h
            | panic p => simp [hs] at h
          | array a0 =>
            simp only [] at h
            obtain ⟨vs, h1, h2, h3, h4⟩ := sigs_fixed sf hsf _ ss h
            match ss, vs, h1, h2, h3, h4 with
            | [], _, _, _, _, _ =>
              have := mapRes_length sf _ _ h; simp at this
            | [s], [x], h1, h2, _, h4 =>
              obtain ⟨b, tl, rfl⟩ := h4 x (by simp)
              simp only [sigsToValues] at h1
              cases ht : CoseSignature.toValue s with
              | ok y =>
                simp [ht] at h1; subst h1
                refine ⟨.array (.bytes b :: tl), by simp [csValue, ht], ?_⟩
                rw [mapRes_cons_ok] at h2
                obtain ⟨y, ys, hy, _, hyy⟩ := h2
                simp at hyy; obtain ⟨rfl, _⟩ := hyy
                simp [counterSigArm, tryAsArray, hd, vindex, hy]
              | err e => simp [ht] at h1
              | panic p => simp [ht] at h1
            | s :: s2 :: ss', x :: vs', h1, h2, _, h4 =>
              obtain ⟨b, tl, rfl⟩ := h4 x (by simp)
              refine ⟨.array (.array (.bytes b :: tl) :: vs'), by simp [csValue, h1], ?_⟩
              simp [counterSigArm, tryAsArray, hd, vindex, h2]
            | [_], [], _, _, h3, _ => simp at h3
            | [_], _ :: _ :: _, _, _, h3, _ => simp at h3
            | _ :: _ :: _, [], _, _, h3, _ => simp at h3
          | _ => simp [typeError] at h
  | _ => simp [counterSigArm, tryAsArray, typeError] at h

section
variable (d : Nat) (sf : Value → Res CoseSignature)

theorem step_ivs (h h1 : Header) (lv : Label × Value) (hs : headerStep d sf h lv = .ok h1) : ¬ (h1.iv ≠ [] ∧ h1.partialIv ≠ []) := by
  simp only [headerStep] at hs
  cases hd : headerDispatch d sf lv.1 lv.2 h with
  | ok h' =>
    simp only [hd] at hs
    by_cases hb : (!h'.iv.isEmpty && !h'.partialIv.isEmpty) = true
    · simp [hb] at hs
    · simp only [hb, Bool.false_eq_true, if_false, Res.ok.injEq] at hs; subst hs
      intro ⟨h1, h2⟩
      apply hb
      cases hi : h'.iv <;> cases hp : h'.partialIv <;> simp_all
  | err e => simp [hd] at hs
  | panic p => simp [hd] at hs

theorem fold_ivs : ∀ (ps : List (Label × Value)) (h0 h : Header), foldRes (headerStep d sf) ps h0 = .ok h →
    ¬ (h0.iv ≠ [] ∧ h0.partialIv ≠ []) → ¬ (h.iv ≠ [] ∧ h.partialIv ≠ []) := by
  intro ps
  induction ps with
  | nil => intro h0 h hf h0n; simp [foldRes] at hf; subst hf; exact h0n
  | cons p ps ih =>
    intro h0 h hf _
    simp only [foldRes] at hf
    cases hs : headerStep d sf h0 p with
    | ok h1 => simp only [hs] at hf; exact ih h1 h hf (step_ivs d sf h0 h1 p hs)
    | err e => simp [hs] at hf
    | panic q => simp [hs] at hf
end

theorem lookupL_mem (L : Label) (ps : List (Label × Value)) (v : Value) (h : lookupL L ps = some v) : (L, v) ∈ ps := by
  simp only [lookupL, Option.map_eq_some_iff] at h
  obtain ⟨p, hp, rfl⟩ := h
  have h1 := List.mem_of_find?_eq_some hp
  have h2 := List.find?_some hp
  simp at h2; subst h2; exact h1

/-- the header decoder's result re-emits as a map the same decoder (same fuel, same depth) turns into the same header. -/
theorem header_loop_fixed' (d : Nat) (sf : Value → Res CoseSignature) (hsf : ∀ v s, sf v = .ok s → SigFixBy sf s)
    (m : List (Value × Value)) (h : Header) (hm : headerLoop d sf m Header.default [] = .ok h) :
    ∃ ov, csValue h.counterSignatures = .ok ov ∧
      Header.toValue h = .ok (.map (pairsToValue (entries h.alg h.crit h.contentType h.keyId h.iv h.partialIv ov h.rest))) ∧
      headerLoop d sf (pairsToValue (entries h.alg h.crit h.contentType h.keyId h.iv h.partialIv ov h.rest)) Header.default [] = .ok h := by
  obtain ⟨ls, hk, hfr, hfold⟩ := (headerLoop_ok_iff d sf m _ _ _).mp hm
  have hlen : ls.length = (m.map (·.2)).length := by
    have := mapRes_length _ _ _ hk; simp at this ⊢; exact this
  have hfst : (ls.zip (m.map (·.2))).map (·.1) = ls := by
    rw [List.map_fst_zip]; omega
  have hof := fold_headerOf d sf (ls.zip (m.map (·.2))) Header.default h (by rw [hfst]; exact hfr.1) hfold
  have hiv := fold_ivs d sf _ _ _ hfold (by simp [Header.default, Header.iv])
  have hlg : ∀ l ∈ ls, LabelGood l := by
    intro l hl
    obtain ⟨k, _, hkk⟩ := mapRes_mem _ _ _ hk l hl
    exact Label.fromValue_good k l hkk
  cases h with
  | mk alg crit ct kid iv piv cs rest =>
    obtain ⟨A, C, T, K, I, P, S, R⟩ := hof
    simp only [Header.alg, Header.crit, Header.contentType, Header.keyId, Header.iv, Header.partialIv, Header.counterSignatures, Header.rest,
      Header.default, List.nil_append] at A C T K I P S R hiv
    have hg : TypedGood alg crit ct iv piv := by
      refine ⟨?_, ?_, ?_, hiv⟩
      · intro a ha
        cases hl : lookupL (.int 1) (ls.zip (m.map (·.2))) <;> simp only [hl] at A
        · rw [A] at ha; cases ha
        · obtain ⟨a', h1, h2⟩ := A
          rw [h2] at ha; cases ha
          exact RegLabelPriv.fromValue_good _ _ _ h1
      · cases hl : lookupL (.int 2) (ls.zip (m.map (·.2))) <;> simp only [hl] at C
        · subst C; simp
        · obtain ⟨a, ls', _, _, h3, h4⟩ := C
          rw [h4]
          exact mapRes_good _ _ (fun v x hx => RegLabel.fromValue_good _ v x hx) a ls' h3
      · intro c hc
        cases hl : lookupL (.int 3) (ls.zip (m.map (·.2))) <;> simp only [hl] at T
        · rw [T] at hc; cases hc
        · obtain ⟨c', h1, h2, h3⟩ := T
          rw [h3] at hc; cases hc
          exact ⟨RegLabel.fromValue_good _ _ _ h1, h2⟩
    have hr : RestGood rest := by
      subst R
      have hsub : List.Sublist (((ls.zip (m.map (·.2))).filter (fun p => p.1 ∉ stdLabels)).map (·.1)) ls := by
        have := (List.filter_sublist (l := ls.zip (m.map (·.2))) (p := fun p => decide (p.1 ∉ stdLabels))).map (·.1)
        rw [hfst] at this; exact this
      refine ⟨List.Nodup.sublist hsub hfr.1, ?_, fun l hl => hlg l (hsub.subset hl)⟩
      intro l hl
      simp only [List.mem_map, List.mem_filter] at hl
      obtain ⟨p, ⟨_, hp⟩, rfl⟩ := hl
      simpa using hp
    cases hl : lookupL (.int 7) (ls.zip (m.map (·.2))) <;> simp only [hl] at S
    · subst S
      refine ⟨none, rfl, Header.toValue_entries _ _ _ _ _ _ _ _ none rfl hr, ?_⟩
      exact headerLoop_entries d sf _ _ _ _ _ _ _ _ none hg rfl hr
    · obtain ⟨ss, h1, h2⟩ := S
      rw [h2]
      obtain ⟨x, hx1, hx2⟩ := csArm_fixed d sf hsf _ ss h1
      refine ⟨some x, hx1, Header.toValue_entries _ _ _ _ _ _ _ _ (some x) hx1 hr, ?_⟩
      exact headerLoop_entries d sf _ _ _ _ _ _ _ _ (some x) hg hx2 hr

theorem header_loop_fixed (d : Nat) (sf : Value → Res CoseSignature) (hsf : ∀ v s, sf v = .ok s → SigFixBy sf s)
    (m : List (Value × Value)) (h : Header) (hm : headerLoop d sf m Header.default [] = .ok h) :
    ∃ E, Header.toValue h = .ok (.map (pairsToValue E)) ∧ headerLoop d sf (pairsToValue E) Header.default [] = .ok h := by
  obtain ⟨ov, _, h1, h2⟩ := header_loop_fixed' d sf hsf m h hm
  exact ⟨_, h1, h2⟩

/-- the family, by induction on fuel. -/
theorem fixed_all : ∀ f : Nat,
    (∀ d v h, Header.fromValue f d v = .ok h → HdrFix f d h) ∧
    (∀ d v s, CoseSignature.fromValue f d v = .ok s → SigFixBy (CoseSignature.fromValue f d) s) := by
  intro f
  induction f with
  | zero => exact ⟨by intro d v h hh; simp [Header.fromValue] at hh, by intro d v s hs; simp [CoseSignature.fromValue] at hs⟩
  | succ f ih =>
    obtain ⟨ihH, ihS⟩ := ih
    constructor
    · intro d v h hh
      cases v with
      | map m =>
        simp only [Header.fromValue, tryAsMap] at hh
        obtain ⟨E, h1, h2⟩ := header_loop_fixed d _ (fun v s hs => ihS (d - 1) v s hs) m h hh
        exact ⟨_, h1, by simp only [Header.fromValue, tryAsMap]; exact h2⟩
      | _ => simp [Header.fromValue, tryAsMap, typeError] at hh
    · intro d v s hs
      obtain ⟨x0, x1, rfl, hp, hu⟩ := (signature_ok_iff f d v s).mp hs
      obtain ⟨x, hx1, hx2⟩ := ihH d x1 _ hu
      obtain ⟨data, rfl, ho⟩ := Coset.Props.C02.decode_retains f d x0 _ hp
      cases s with
      | mk prot unprot sig =>
        simp only [CoseSignature.protected_, CoseSignature.unprotected, CoseSignature.signature] at hp hu hx1 hx2 ho
        cases prot with
        | mk orig ph =>
          simp only [ProtectedHeader.originalData] at ho; subst ho
          refine ⟨data, [x, .bytes sig], ?_, ?_⟩
          · simp [CoseSignature.toValue, ProtectedHeader.cborBstr, hx1]
          · exact (signature_ok_iff f d _ _).mpr ⟨.bytes data, x, rfl, hp, hx2⟩

theorem header_fixed (f d : Nat) (v : Value) (h : Header) (hh : Header.fromValue f d v = .ok h) :
    ∃ x, Header.toValue h = .ok x ∧ Header.fromValue f d x = .ok h := (fixed_all f).1 d v h hh

theorem signature_fixed (f d : Nat) (v : Value) (s : CoseSignature) (hs : CoseSignature.fromValue f d v = .ok s) :
    ∃ x, CoseSignature.toValue s = .ok x ∧ CoseSignature.fromValue f d x = .ok s := by
  obtain ⟨b, tl, h1, h2⟩ := (fixed_all f).2 d v s hs
  exact ⟨_, h1, h2⟩

theorem protected_fixed (f d : Nat) (v : Value) (p : ProtectedHeader) (hp : ProtectedHeader.fromBstr f d v = .ok p) :
    ProtectedHeader.cborBstr p = .ok v := by
  obtain ⟨data, rfl, ho⟩ := Coset.Props.C02.decode_retains f d v p hp
  cases p with
  | mk orig h => simp only [ProtectedHeader.originalData] at ho; subst ho; rfl

end Coset
