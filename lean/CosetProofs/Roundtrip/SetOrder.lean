/-
  `Label::cmp` is a strict total order (swap law, transitivity of `<`), transported to registry labels;
  the ordered-set insertion used for `key_ops` keeps a strictly ascending list and rebuilds one from its own elements.
-/
import CosetProofs.Props.C20
import CosetProofs.Roundtrip.Labels
namespace Coset
open Coset.Props.C16 Coset.Props.C20

theorem intOrd_swap (i j : Int) : intOrd j i = (intOrd i j).swap := by
  unfold intOrd
  by_cases n1 : i < 0 <;> by_cases n2 : j < 0 <;> simp [n1, n2]
  · by_cases h : i < j
    · rw [compare_lt h, compare_gt h]; rfl
    · by_cases h' : j < i
      · rw [compare_gt h', compare_lt h']; rfl
      · have : i = j := by omega
        subst this; rw [compare_self]; rfl
  · by_cases h : i < j
    · rw [compare_lt h, compare_gt h]; rfl
    · by_cases h' : j < i
      · rw [compare_gt h', compare_lt h']; rfl
      · have : i = j := by omega
        subst this; rw [compare_self]; rfl

theorem textCmp_swap (s t : Bytes) : textCmp t s = (textCmp s t).swap := by
  simp only [textCmp]
  by_cases hl : s.length < t.length
  · rw [compare_nat_lt hl, compare_nat_gt hl]; rfl
  · by_cases hg : t.length < s.length
    · rw [compare_nat_gt hg, compare_nat_lt hg]; rfl
    · have he : s.length = t.length := by omega
      simp only [he, Nat.compare_eq_eq.mpr rfl, Ordering.then, lexCmp_swap s t]

theorem Label.cmp_swap (a b : Label) (o : Ordering) (h : Label.cmp a b = .ok o) : Label.cmp b a = .ok o.swap := by
  cases a with
  | int i =>
    cases b with
    | int j => rw [cmp_int] at h ⊢; simp at h; subst h; rw [intOrd_swap i j]
    | text t => simp [Label.cmp] at h ⊢; subst h; rfl
  | text s =>
    cases b with
    | int j => simp [Label.cmp] at h ⊢; subst h; rfl
    | text t => simp [Label.cmp] at h ⊢; subst h; exact textCmp_swap s t

theorem labelLe_of (a b : Label) (o : Ordering) (h : Label.cmp a b = .ok o) : labelLe a b = (o != .gt) := by
  simp only [labelLe, h]; cases o <;> rfl

theorem Label.lt_trans (a b c : Label) (h1 : Label.cmp a b = .ok .lt) (h2 : Label.cmp b c = .ok .lt) : Label.cmp a c = .ok .lt := by
  obtain ⟨o, ho⟩ := Label.cmp_ok a c
  have hle : labelLe a c = true := labelLe_trans a b c (by rw [labelLe_of a b _ h1]; rfl) (by rw [labelLe_of b c _ h2]; rfl)
  rw [labelLe_of a c o ho] at hle
  cases o with
  | lt => exact ho
  | gt => simp at hle
  | eq =>
    have : a = c := (Label.cmp_eq_iff' a c).mp ho
    subst this
    have := Label.cmp_swap a b _ h1
    rw [h2] at this; simp [Ordering.swap] at this

/-- registry labels compare as the plain labels they stand for. -/
def RegLabel.label (R : Registry) : RegLabel → Label
  | .assigned k => .int (R.toI64 k)
  | .text t => .text t

theorem RegLabel.cmp_eq (R : Registry) (a b : RegLabel) : RegLabel.cmp R a b = Label.cmp (RegLabel.label R a) (RegLabel.label R b) := by
  cases a <;> cases b <;> simp [RegLabel.cmp, RegLabel.label, Label.cmp]

section
variable {α : Type} (cmp : α → α → Res Ordering)

/-- what the set operations need of a comparison. -/
structure StrictOrd : Prop where
  total : ∀ a b, ∃ o, cmp a b = .ok o
  swap : ∀ a b o, cmp a b = .ok o → cmp b a = .ok o.swap
  trans : ∀ a b c, cmp a b = .ok .lt → cmp b c = .ok .lt → cmp a c = .ok .lt

/-- strictly ascending. -/
def Asc (s : List α) : Prop := s.Pairwise (fun x y => cmp x y = .ok .lt)

variable {cmp}

theorem setInsert_asc (ho : StrictOrd cmp) : ∀ (s : List α) (x : α) (r : List α), Asc cmp s → setInsert cmp s x = .ok (some r) →
    Asc cmp r ∧ ∀ z, z ∈ r ↔ (z = x ∨ z ∈ s) := by
  intro s
  induction s with
  | nil => intro x r _ h; simp [setInsert] at h; subst h; simp [Asc]
  | cons y ys ih =>
    intro x r hs h
    simp only [setInsert] at h
    obtain ⟨o, hc⟩ := ho.total x y
    rw [hc] at h
    simp only [Asc, List.pairwise_cons] at hs
    cases o with
    | eq => simp at h
    | lt =>
      simp at h; subst h
      refine ⟨?_, by intro z; simp⟩
      simp only [Asc, List.pairwise_cons]
      refine ⟨?_, hs.1, hs.2⟩
      intro z hz
      rcases List.mem_cons.mp hz with rfl | hz'
      · exact hc
      · exact ho.trans x y z hc (hs.1 z hz')
    | gt =>
      simp only [] at h
      cases hr : setInsert cmp ys x with
      | ok orr =>
        cases orr with
        | none => simp [hr] at h
        | some r' =>
          simp [hr] at h; subst h
          obtain ⟨h1, h2⟩ := ih x r' hs.2 hr
          refine ⟨?_, ?_⟩
          · simp only [Asc, List.pairwise_cons]
            refine ⟨?_, h1⟩
            intro z hz
            rcases (h2 z).mp hz with rfl | hz'
            · have := ho.swap _ _ _ hc; simpa [Ordering.swap] using this
            · exact hs.1 z hz'
          · intro z; simp only [List.mem_cons, h2 z]
            constructor
            · rintro (h | h | h) <;> simp [h]
            · rintro (h | h | h) <;> simp [h]
      | err e => simp [hr] at h
      | panic p => simp [hr] at h

/-- appending an element above everything present is what insertion does. -/
theorem setInsert_append (ho : StrictOrd cmp) : ∀ (s : List α) (x : α), (∀ y ∈ s, cmp y x = .ok .lt) → setInsert cmp s x = .ok (some (s ++ [x])) := by
  intro s
  induction s with
  | nil => intro x _; rfl
  | cons y ys ih =>
    intro x h
    have h1 := ho.swap _ _ _ (h y (by simp))
    simp only [Ordering.swap] at h1
    simp [setInsert, h1, ih x (fun z hz => h z (by simp [hz]))]
end

theorem regLabel_strict (R : Registry) : StrictOrd (RegLabel.cmp R) := by
  refine ⟨?_, ?_, ?_⟩
  · intro a b; rw [RegLabel.cmp_eq]; exact Label.cmp_ok _ _
  · intro a b o h; rw [RegLabel.cmp_eq] at h ⊢; exact Label.cmp_swap _ _ _ h
  · intro a b c h1 h2; rw [RegLabel.cmp_eq] at h1 h2 ⊢; exact Label.lt_trans _ _ _ h1 h2

end Coset
