/-
  Transfer for COSE_Key / COSE_KeySet, CWT claims sets and the KDF context family.
-/
import CosetProofs.Roundtrip.TransferMessages
import CosetProofs.Roundtrip.Key
import CosetProofs.Roundtrip.Claims
namespace Coset
open Coset.Spec Coset.Cbor Coset.Props.C18

/-! ### key_ops: the rebuilt set holds exactly labels decoded from the wire array -/

theorem setInsert_src {α : Type} (cmp : α → α → Res Ordering) (x : α) : ∀ (s s' : List α), setInsert cmp s x = .ok (some s') →
    (∀ y ∈ s', y = x ∨ y ∈ s) ∧ s'.length = s.length + 1 := by
  intro s
  induction s with
  | nil => intro s' h; simp [setInsert] at h; subst h; simp
  | cons y ys ih =>
    intro s' h
    simp only [setInsert] at h
    cases hc : cmp x y with
    | ok o =>
      simp only [hc] at h
      cases o with
      | eq => simp at h
      | lt => simp at h; subst h; exact ⟨by intro z hz; simp at hz ⊢; exact hz, by simp⟩
      | gt =>
        simp only [] at h
        cases hr : setInsert cmp ys x with
        | ok o2 =>
          simp only [hr] at h
          cases o2 with
          | none => simp at h
          | some r =>
            simp at h; subst h
            obtain ⟨h1, h2⟩ := ih r hr
            refine ⟨?_, by simp [h2]⟩
            intro z hz
            rcases List.mem_cons.mp hz with rfl | hz'
            · right; simp
            · rcases h1 z hz' with rfl | hm
              · left; rfl
              · right; simp [hm]
        | err e => simp [hr] at h
        | panic p => simp [hr] at h
    | err e => simp [hc] at h
    | panic p => simp [hc] at h

theorem keyOpsLoop_src : ∀ (a : List Value) (s0 s : List RegLabel), keyOpsLoop a s0 = .ok s →
    (∀ x ∈ s, x ∈ s0 ∨ ∃ v ∈ a, RegLabel.fromValue Reg.keyOperation v = .ok x) ∧ s.length = s0.length + a.length := by
  intro a
  induction a with
  | nil => intro s0 s h; simp [keyOpsLoop] at h; subst h; exact ⟨fun x hx => Or.inl hx, by simp⟩
  | cons v vs ih =>
    intro s0 s h
    simp only [keyOpsLoop] at h
    cases hf : RegLabel.fromValue Reg.keyOperation v with
    | ok op =>
      simp only [hf] at h
      cases hi : setInsert (RegLabel.cmp Reg.keyOperation) s0 op with
      | ok o =>
        simp only [hi] at h
        cases o with
        | none => simp at h
        | some s1 =>
          simp only [] at h
          obtain ⟨h1, h2⟩ := ih s1 s h
          obtain ⟨i1, i2⟩ := setInsert_src _ op s0 s1 hi
          refine ⟨?_, by simp [h2, i2]; omega⟩
          intro x hx
          rcases h1 x hx with hx1 | ⟨w, hw, hfw⟩
          · rcases i1 x hx1 with rfl | hx0
            · exact Or.inr ⟨v, by simp, hf⟩
            · exact Or.inl hx0
          · exact Or.inr ⟨w, by simp [hw], hfw⟩
      | err e => simp [hi] at h
      | panic p => simp [hi] at h
    | err e => simp [hf] at h
    | panic p => simp [hf] at h

theorem keyL_mem (kty : RegLabel) (kid : Bytes) (alg : Option RegLabelPriv) (ops : List RegLabel) (biv : Bytes) (e : Label × Value)
    (he : e ∈ keyL kty kid alg ops biv) :
    e = (.int 1, RegLabel.value Reg.keyType kty) ∨ (kid ≠ [] ∧ e = (.int 2, .bytes kid)) ∨
    (∃ a, alg = some a ∧ e = (.int 3, RegLabelPriv.value Reg.algorithm a)) ∨
    (ops ≠ [] ∧ e = (.int 4, .array (ops.map opVal))) ∨ (biv ≠ [] ∧ e = (.int 5, .bytes biv)) := by
  unfold keyL at he
  simp only [List.mem_append, List.mem_map, Option.mem_toList, List.mem_singleton] at he
  rcases he with (((h1 | h2) | ⟨a, ha, rfl⟩) | h4) | h5
  · exact Or.inl h1
  · by_cases hc : kid.isEmpty = true
    · simp [hc] at h2
    · simp only [hc, Bool.not_eq_true, Bool.not_false, if_true, List.mem_singleton] at h2
      exact Or.inr (Or.inl ⟨by intro h0; subst h0; simp at hc, by simpa using h2⟩)
  · exact Or.inr (Or.inr (Or.inl ⟨a, ha, rfl⟩))
  · by_cases hc : ops.isEmpty = true
    · simp [hc] at h4
    · simp only [hc, Bool.not_eq_true, Bool.not_false, if_true, List.mem_singleton] at h4
      exact Or.inr (Or.inr (Or.inr (Or.inl ⟨by intro h0; subst h0; simp at hc, by simpa using h4⟩)))
  · by_cases hc : biv.isEmpty = true
    · simp [hc] at h5
    · simp only [hc, Bool.not_eq_true, Bool.not_false, if_true, List.mem_singleton] at h5
      exact Or.inr (Or.inr (Or.inr (Or.inr ⟨by intro h0; subst h0; simp at hc, by simpa using h5⟩)))

theorem keyL_length_le (kty kid alg ops biv) : (keyL kty kid alg ops biv).length ≤ 5 := by
  unfold keyL
  cases alg <;> by_cases h2 : kid.isEmpty <;> by_cases h4 : ops.isEmpty <;> by_cases h5 : biv.isEmpty <;> simp [h2, h4, h5]

theorem key_tame : TameConv CoseKey.fromValue CoseKey.toValue := by
  intro v k h hnv hzv
  obtain ⟨m, ls, rfl, hls, hnd, ko, hres, _⟩ := Coset.Props.C10.accepted_is_wellformed v k h
  simp only [Normal] at hnv
  simp only [Value.size] at hzv
  have hn := hnv.2
  have hlen : ls.length = (m.map (·.2)).length := by
    have := Coset.mapRes_length _ _ _ hls; simp [keyLabels] at this ⊢; exact this
  have hfst : (ls.zip (m.map (·.2))).map (·.1) = ls := by rw [List.map_fst_zip]; omega
  have hlg : ∀ l ∈ ls, LabelGood l := by
    intro l hl
    obtain ⟨kk, _, hkk⟩ := mapRes_mem _ _ _ hls l hl
    exact Label.fromValue_good kk l hkk
  have hwire : ∀ p ∈ ls.zip (m.map (·.2)), (labelValue p.1, p.2) ∈ m := by
    intro p hp
    obtain ⟨k', h1, h2⟩ := zip_mem_wire m ls hls p hp
    rw [labelValue_of_fromValue k' p.1 h2]; exact h1
  have hlk : ∀ L w, lookupL L (ls.zip (m.map (·.2))) = some w → (labelValue L, w) ∈ m :=
    fun L w hl => hwire (L, w) (lookupL_mem L _ w hl)
  have good_of_mem : ∀ q ∈ m, Normal q.1 ∧ Normal q.2 ∧ depthOf q.1 ≤ depthOfP m ∧ depthOf q.2 ≤ depthOfP m := by
    intro q hq
    have h1 := normalP_mem m hn q hq; have h2 := depthOfP_mem m q hq
    exact ⟨h1.1, h1.2, h2.1, h2.2⟩
  obtain ⟨kty, kid, alg, ops, biv, ps⟩ := k
  obtain ⟨T, K, A, O, B, P⟩ := ko
  simp only [CoseKey.default, List.nil_append] at T K A O B P hres
  have hp : ParamsGood ps := by
    rw [P]
    have hsub : List.Sublist (((ls.zip (m.map (·.2))).filter (fun p => p.1 ∉ keyLabels5)).map (·.1)) ls := by
      have := (List.filter_sublist (l := ls.zip (m.map (·.2))) (p := fun p => decide (p.1 ∉ keyLabels5))).map (·.1)
      rw [hfst] at this; exact this
    refine ⟨List.Nodup.sublist hsub hnd, ?_, fun l hl => hlg l (hsub.subset hl)⟩
    intro l hl
    simp only [List.mem_map, List.mem_filter] at hl
    obtain ⟨p, ⟨_, hp⟩, rfl⟩ := hl
    simpa using hp
  have hent : ∀ e ∈ keyL kty kid alg ops biv ++ ps,
      Normal (labelValue e.1) ∧ Normal e.2 ∧ depthOf (labelValue e.1) ≤ depthOfP m ∧ depthOf e.2 ≤ depthOfP m := by
    intro e he
    rcases List.mem_append.mp he with he | he
    · rcases keyL_mem _ _ _ _ _ e he with rfl | ⟨hc, rfl⟩ | ⟨a, ha, rfl⟩ | ⟨hc, rfl⟩ | ⟨hc, rfl⟩
      · apply good_of_mem (labelValue (.int 1), _)
        cases hl : lookupL (.int 1) (ls.zip (m.map (·.2))) with
        | none => simp only [hl] at T; exact absurd T hres
        | some v =>
          simp only [hl] at T
          obtain ⟨t, h1, h2⟩ := T
          rw [h2, RegLabel.value_of_fromValue _ _ _ h1]; exact hlk _ _ hl
      · apply good_of_mem (labelValue (.int 2), _)
        cases hl : lookupL (.int 2) (ls.zip (m.map (·.2))) with
        | none => simp only [hl] at K; exact absurd K hc
        | some v =>
          simp only [hl] at K
          obtain ⟨b, rfl, _, h3⟩ := K
          rw [h3]; exact hlk _ _ hl
      · apply good_of_mem (labelValue (.int 3), _)
        cases hl : lookupL (.int 3) (ls.zip (m.map (·.2))) with
        | none => simp only [hl] at A; rw [A] at ha; cases ha
        | some v =>
          simp only [hl] at A
          obtain ⟨a', h1, h2⟩ := A
          rw [h2] at ha; cases ha
          rw [RegLabelPriv.value_of_fromValue _ _ _ h1]; exact hlk _ _ hl
      · -- key_ops: re-sorted; every emitted operation is one of the wire array's items
        cases hl : lookupL (.int 4) (ls.zip (m.map (·.2))) with
        | none => simp only [hl] at O; exact absurd O hc
        | some v =>
          simp only [hl] at O
          obtain ⟨a, s, rfl, h2, _, h4⟩ := O
          rw [h4]
          have gw := good_of_mem _ (hlk _ _ hl)
          have hna : Normal (.array a) := gw.2.1
          have hda : depthOf (Value.array a) ≤ depthOfP m := gw.2.2.2
          simp only [Normal] at hna
          obtain ⟨s1, s2⟩ := keyOpsLoop_src a [] s h2
          have hsrc : ∀ y ∈ s.map opVal, y ∈ a := by
            intro y hy
            simp only [List.mem_map] at hy
            obtain ⟨x, hx, rfl⟩ := hy
            rcases s1 x hx with h0 | ⟨w, hw, hfw⟩
            · simp at h0
            · rw [show opVal x = w from RegLabel.value_of_fromValue _ _ _ hfw]; exact hw
          refine ⟨by simp [labelValue, Normal], ?_, by simp [labelValue, depthOf], ?_⟩
          · simp only [Normal]
            exact ⟨by simp at s2; simp [s2]; exact hna.1, normalL_of _ (fun y hy => normalL_mem a hna.2 y (hsrc y hy))⟩
          · rw [depthOf_array] at hda ⊢
            have : depthOfL (s.map opVal) ≤ depthOfL a := depthOfL_le _ _ (fun y hy => depthOfL_mem a y (hsrc y hy))
            omega
      · apply good_of_mem (labelValue (.int 5), _)
        cases hl : lookupL (.int 5) (ls.zip (m.map (·.2))) with
        | none => simp only [hl] at B; exact absurd B hc
        | some v =>
          simp only [hl] at B
          obtain ⟨b, rfl, _, h3⟩ := B
          rw [h3]; exact hlk _ _ hl
    · rw [P] at he
      simp only [List.mem_filter] at he
      exact good_of_mem _ (hwire e he.1)
  refine ⟨_, CoseKey.toValue_entries kty kid alg ops biv ps hp, ?_, ?_⟩
  · simp only [Normal]
    constructor
    · have h1 := keyL_length_le kty kid alg ops biv
      have h3 : ps.length ≤ m.length := by
        rw [P]
        have := List.length_filter_le (fun p : Label × Value => decide (p.1 ∉ keyLabels5)) (ls.zip (m.map (·.2)))
        have h4 : (ls.zip (m.map (·.2))).length ≤ m.length := by simp [List.length_zip]; omega
        omega
      have h5 := length_le_sizeP m
      simp only [pairsToValue, List.length_map, List.length_append]
      unfold sliceMax at hzv
      omega
    · apply normalP_of
      intro q hq
      simp only [pairsToValue, List.mem_map] at hq
      obtain ⟨e, he, rfl⟩ := hq
      have := hent e he
      exact ⟨this.1, this.2.1⟩
  · rw [depthOf_map, depthOf_map]
    have : depthOfP (pairsToValue (keyL kty kid alg ops biv ++ ps)) ≤ depthOfP m := by
      apply depthOfP_le
      intro q hq
      simp only [pairsToValue, List.mem_map] at hq
      obtain ⟨e, he, rfl⟩ := hq
      have := hent e he
      exact ⟨this.2.2.1, this.2.2.2⟩
    omega

theorem keyset_tame : TameConv CoseKeySet.fromValue CoseKeySet.toValue := by
  intro v ks h hn hz
  obtain ⟨a, rfl, ha⟩ := (Coset.Props.C10.keyset_iff v ks).mp h
  have hn' := hn; simp only [Normal] at hn'
  simp only [Value.size] at hz
  obtain ⟨ys, h1, h2, _, h3, h4⟩ := list_tame CoseKey.fromValue CoseKey.toValue (mapRes CoseKey.toValue) rfl
    (by intro a as y ys h1 h2; simp [mapRes, h1, h2]) key_tame a ks ha (members_small a hn'.2 (by omega))
  exact ⟨.array ys, by simp [CoseKeySet.toValue, h1], array_tame a ys hn h2 h3 h4⟩

/-! ### KDF context family: the emitted value *is* the decoded value -/

theorem kdf_tame : TameConv CoseKdfContext.fromValue CoseKdfContext.toValue :=
  fun v k h hn _ => ⟨v, kdf_emit v k h, hn, Nat.le_refl _⟩
theorem party_tame : TameConv PartyInfo.fromValue PartyInfo.toValue :=
  fun v p h hn _ => ⟨v, party_emit v p h, hn, Nat.le_refl _⟩
theorem supp_tame : TameConv SuppPubInfo.fromValue SuppPubInfo.toValue :=
  fun v s h hn _ => ⟨v, supp_emit v s h, hn, Nat.le_refl _⟩


/-! ### CWT claims sets -/

theorem zip_mem_gen {α : Type} (f : Value → Res α) : ∀ (m : List (Value × Value)) (ns : List α), mapRes f (m.map (·.1)) = .ok ns →
    ∀ p ∈ ns.zip (m.map (·.2)), ∃ k, (k, p.2) ∈ m ∧ f k = .ok p.1 := by
  intro m
  induction m with
  | nil => intro ns h p hp; simp [mapRes] at h; subst h; simp at hp
  | cons kv m ih =>
    obtain ⟨k, v⟩ := kv
    intro ns h p hp
    simp only [List.map_cons] at h
    rw [mapRes_cons_ok] at h
    obtain ⟨l, ns', hl, hns, rfl⟩ := h
    simp only [List.map_cons, List.zip_cons_cons, List.mem_cons] at hp
    rcases hp with rfl | hp'
    · exact ⟨k, by simp, hl⟩
    · obtain ⟨k', h1, h2⟩ := ih ns' hns p hp'
      exact ⟨k', by simp [h1], h2⟩

theorem lookupN_mem (L : RegLabelPriv) (ps : List (RegLabelPriv × Value)) (v : Value) (h : lookupN L ps = some v) : (L, v) ∈ ps := by
  simp only [lookupN, Option.map_eq_some_iff] at h
  obtain ⟨p, hp, rfl⟩ := h
  have h1 := List.mem_of_find?_eq_some hp
  have h2 := List.find?_some hp
  simp at h2; subst h2; exact h1

theorem tsValue_of_fromValue (v : Value) (t : Timestamp) (h : Timestamp.fromValue v = .ok t) : tsValue t = v := by
  rcases (timestamp v t).mp h with ⟨n, rfl, _, _, rfl⟩ | ⟨b, rfl, rfl⟩ <;> rfl

theorem claimL_mem (iss sub aud : Option Bytes) (exp nbf iat : Option Timestamp) (cti : Option Bytes) (e : RegLabelPriv × Value)
    (he : e ∈ claimL iss sub aud exp nbf iat cti) :
    (∃ t, iss = some t ∧ e = (cISS, .text t)) ∨ (∃ t, sub = some t ∧ e = (cSUB, .text t)) ∨ (∃ t, aud = some t ∧ e = (cAUD, .text t)) ∨
    (∃ t, exp = some t ∧ e = (cEXP, tsValue t)) ∨ (∃ t, nbf = some t ∧ e = (cNBF, tsValue t)) ∨ (∃ t, iat = some t ∧ e = (cIAT, tsValue t)) ∨
    (∃ b, cti = some b ∧ e = (cCTI, .bytes b)) := by
  unfold claimL at he
  simp only [List.mem_append, List.mem_map, Option.mem_toList] at he
  rcases he with (((((⟨t, h, rfl⟩ | ⟨t, h, rfl⟩) | ⟨t, h, rfl⟩) | ⟨t, h, rfl⟩) | ⟨t, h, rfl⟩) | ⟨t, h, rfl⟩) | ⟨t, h, rfl⟩
  · exact Or.inl ⟨t, h, rfl⟩
  · exact Or.inr (Or.inl ⟨t, h, rfl⟩)
  · exact Or.inr (Or.inr (Or.inl ⟨t, h, rfl⟩))
  · exact Or.inr (Or.inr (Or.inr (Or.inl ⟨t, h, rfl⟩)))
  · exact Or.inr (Or.inr (Or.inr (Or.inr (Or.inl ⟨t, h, rfl⟩))))
  · exact Or.inr (Or.inr (Or.inr (Or.inr (Or.inr (Or.inl ⟨t, h, rfl⟩)))))
  · exact Or.inr (Or.inr (Or.inr (Or.inr (Or.inr (Or.inr ⟨t, h, rfl⟩)))))

theorem claimL_length_le (iss sub aud exp nbf iat cti) : (claimL iss sub aud exp nbf iat cti).length ≤ 7 := by
  unfold claimL
  cases iss <;> cases sub <;> cases aud <;> cases exp <;> cases nbf <;> cases iat <;> cases cti <;> simp

theorem claims_tame : TameConv ClaimsSet.fromValue ClaimsSet.toValue := by
  intro v c h hnv hzv
  obtain ⟨m, ns, rfl, hns, hnd, co⟩ := claims_accepted_is_wellformed v c h
  simp only [Normal] at hnv
  simp only [Value.size] at hzv
  have hn := hnv.2
  have hwire : ∀ p ∈ ns.zip (m.map (·.2)), (nameVal p.1, p.2) ∈ m := by
    intro p hp
    obtain ⟨k', h1, h2⟩ := zip_mem_gen _ m ns hns p hp
    rw [show nameVal p.1 = k' from RegLabelPriv.value_of_fromValue _ _ _ h2]; exact h1
  have hlk : ∀ L w, lookupN L (ns.zip (m.map (·.2))) = some w → (nameVal L, w) ∈ m :=
    fun L w hl => hwire (L, w) (lookupN_mem L _ w hl)
  obtain ⟨iss, sub, aud, exp, nbf, iat, cti, rest⟩ := c
  obtain ⟨I, S, A, E, N, T, C, R⟩ := co
  simp only at I S A E N T C R
  have hent : ∀ e ∈ claimL iss sub aud exp nbf iat cti ++ rest, (nameVal e.1, e.2) ∈ m := by
    intro e he
    rcases List.mem_append.mp he with he | he
    · rcases claimL_mem _ _ _ _ _ _ _ e he with ⟨t, ht, rfl⟩ | ⟨t, ht, rfl⟩ | ⟨t, ht, rfl⟩ | ⟨t, ht, rfl⟩ | ⟨t, ht, rfl⟩ | ⟨t, ht, rfl⟩ | ⟨t, ht, rfl⟩
      · cases hl : lookupN cISS (ns.zip (m.map (·.2))) with
        | none => simp only [hl] at I; rw [I] at ht; cases ht
        | some w => simp only [hl] at I; obtain ⟨t', rfl, h2⟩ := I; rw [h2] at ht; cases ht; exact hlk _ _ hl
      · cases hl : lookupN cSUB (ns.zip (m.map (·.2))) with
        | none => simp only [hl] at S; rw [S] at ht; cases ht
        | some w => simp only [hl] at S; obtain ⟨t', rfl, h2⟩ := S; rw [h2] at ht; cases ht; exact hlk _ _ hl
      · cases hl : lookupN cAUD (ns.zip (m.map (·.2))) with
        | none => simp only [hl] at A; rw [A] at ht; cases ht
        | some w => simp only [hl] at A; obtain ⟨t', rfl, h2⟩ := A; rw [h2] at ht; cases ht; exact hlk _ _ hl
      · cases hl : lookupN cEXP (ns.zip (m.map (·.2))) with
        | none => simp only [hl] at E; rw [E] at ht; cases ht
        | some w =>
          simp only [hl] at E; obtain ⟨t', h1, h2⟩ := E; rw [h2] at ht; cases ht
          rw [tsValue_of_fromValue _ _ h1]; exact hlk _ _ hl
      · cases hl : lookupN cNBF (ns.zip (m.map (·.2))) with
        | none => simp only [hl] at N; rw [N] at ht; cases ht
        | some w =>
          simp only [hl] at N; obtain ⟨t', h1, h2⟩ := N; rw [h2] at ht; cases ht
          rw [tsValue_of_fromValue _ _ h1]; exact hlk _ _ hl
      · cases hl : lookupN cIAT (ns.zip (m.map (·.2))) with
        | none => simp only [hl] at T; rw [T] at ht; cases ht
        | some w =>
          simp only [hl] at T; obtain ⟨t', h1, h2⟩ := T; rw [h2] at ht; cases ht
          rw [tsValue_of_fromValue _ _ h1]; exact hlk _ _ hl
      · cases hl : lookupN cCTI (ns.zip (m.map (·.2))) with
        | none => simp only [hl] at C; rw [C] at ht; cases ht
        | some w => simp only [hl] at C; obtain ⟨t', rfl, h2⟩ := C; rw [h2] at ht; cases ht; exact hlk _ _ hl
    · rw [R] at he
      simp only [List.mem_filter] at he
      exact hwire e he.1
  refine ⟨_, ClaimsSet.toValue_entries iss sub aud exp nbf iat cti rest, ?_, ?_⟩
  · simp only [Normal]
    constructor
    · have h1 := claimL_length_le iss sub aud exp nbf iat cti
      have h3 : rest.length ≤ m.length := by
        rw [R]
        have := List.length_filter_le (fun p : RegLabelPriv × Value => decide (p.1 ∉ typedClaims)) (ns.zip (m.map (·.2)))
        have h4 : (ns.zip (m.map (·.2))).length ≤ m.length := by simp [List.length_zip]; omega
        omega
      have h5 := length_le_sizeP m
      simp only [namePairs, List.length_map, List.length_append]
      unfold sliceMax at hzv
      omega
    · apply normalP_of
      intro q hq
      simp only [namePairs, List.mem_map] at hq
      obtain ⟨e, he, rfl⟩ := hq
      exact normalP_mem m hn _ (hent e he)
  · rw [depthOf_map, depthOf_map]
    have : depthOfP (namePairs (claimL iss sub aud exp nbf iat cti ++ rest)) ≤ depthOfP m := by
      apply depthOfP_le
      intro q hq
      simp only [namePairs, List.mem_map] at hq
      obtain ⟨e, he, rfl⟩ := hq
      exact depthOfP_mem m _ (hent e he)
    omega

end Coset
