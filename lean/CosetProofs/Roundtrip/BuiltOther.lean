/-
  Encode-then-decode for built keys, key sets, claims sets and KDF contexts (C11).
-/
import CosetProofs.Roundtrip.BuiltMessages
import CosetProofs.Roundtrip.Key
import CosetProofs.Roundtrip.Claims
import CosetProofs.Roundtrip.Context
namespace Coset
open Coset.Spec Coset.Cbor

/-- a key the encoder accepts and the decoder takes back: registry labels valid, key type not the reserved value (the decoder's
    "missing kty" sentinel), `key_ops` a set in iteration order, extra parameters distinct and not among the five common labels. -/
structure CoseKey.WF (k : CoseKey) : Prop where
  good : KeyGood k.kty k.alg k.keyOps
  params : ParamsGood k.params
  kty : k.kty ≠ .assigned ktyReservedIdx

theorem key_rt (k : CoseKey) (hw : k.WF) :
    k.toValue = .ok (.map (pairsToValue (keyL k.kty k.keyId k.alg k.keyOps k.baseIv ++ k.params))) ∧
    CoseKey.fromValue (.map (pairsToValue (keyL k.kty k.keyId k.alg k.keyOps k.baseIv ++ k.params))) = .ok k := by
  obtain ⟨kty, kid, alg, ops, biv, ps⟩ := k
  refine ⟨CoseKey.toValue_entries kty kid alg ops biv ps hw.params, ?_⟩
  simp only [CoseKey.fromValue, tryAsMap, keyLoop_entries kty kid alg ops biv ps hw.good hw.params]
  have := hw.kty
  simp only at this
  simp [this]

theorem keyset_rt (ks : List CoseKey) (hw : ∀ k ∈ ks, k.WF) : ∃ vs, CoseKeySet.toValue ks = .ok (.array vs) ∧ CoseKeySet.fromValue (.array vs) = .ok ks := by
  have : ∃ vs, mapRes CoseKey.toValue ks = .ok vs ∧ mapRes CoseKey.fromValue vs = .ok ks := by
    induction ks with
    | nil => exact ⟨[], rfl, rfl⟩
    | cons k ks ih =>
      obtain ⟨vs, h1, h2⟩ := ih (fun x hx => hw x (by simp [hx]))
      obtain ⟨g1, g2⟩ := key_rt k (hw k (by simp))
      exact ⟨.map (pairsToValue (keyL k.kty k.keyId k.alg k.keyOps k.baseIv ++ k.params)) :: vs, by simp [mapRes, g1, h1], by simp [mapRes, g2, h2]⟩
  obtain ⟨vs, h1, h2⟩ := this
  exact ⟨vs, by simp [CoseKeySet.toValue, h1], (Coset.Props.C10.keyset_iff _ ks).mpr ⟨vs, rfl, h2⟩⟩

/-- a claims set the decoder takes back: times in range, other claims under distinct valid names none of which is a typed claim. -/
structure ClaimsSet.WF (c : ClaimsSet) : Prop where
  times : ClaimsGood c.expirationTime c.notBefore c.issuedAt
  rest : RestNames c.rest

theorem claims_rt (c : ClaimsSet) (hw : c.WF) :
    c.toValue = .ok (.map (namePairs (claimL c.issuer c.subject c.audience c.expirationTime c.notBefore c.issuedAt c.cwtId ++ c.rest))) ∧
    ClaimsSet.fromValue (.map (namePairs (claimL c.issuer c.subject c.audience c.expirationTime c.notBefore c.issuedAt c.cwtId ++ c.rest))) = .ok c := by
  obtain ⟨iss, sub, aud, exp, nbf, iat, cti, rest⟩ := c
  exact ⟨ClaimsSet.toValue_entries _ _ _ _ _ _ _ _, by simp only [ClaimsSet.fromValue]; exact claimsLoop_entries _ _ _ _ _ _ _ _ hw.times hw.rest⟩

/-! ### KDF context -/

def PartyInfo.WF (p : PartyInfo) : Prop := ∀ n, p.nonce = some (.integer n) → i64Min ≤ n ∧ n ≤ i64Max

theorem nullOrBytes_emit' (o : Option Bytes) : nullOrBytes (optBytesToValue o) = .ok o := by cases o <;> rfl

theorem party_rt (p : PartyInfo) (hw : p.WF) : ∃ x, p.toValue = .ok x ∧ PartyInfo.fromValue x = .ok p := by
  obtain ⟨ident, nonce, other⟩ := p
  refine ⟨_, rfl, ?_⟩
  simp only [PartyInfo.fromValue, tryAsArray, Gen.PartyInfo_arityBad, Gen.PartyInfo_removes]
  cases nonce with
  | none => simp [vremove, nullOrBytes_emit']
  | some nn =>
    cases nn with
    | bytes b => simp [vremove, nullOrBytes_emit']
    | integer n =>
      have := hw n rfl
      simp [vremove, nullOrBytes_emit', narrowI64, this.1, this.2]

structure SuppPubInfo.WF (s : SuppPubInfo) : Prop where
  len : 0 ≤ s.keyDataLength ∧ s.keyDataLength ≤ u64Max
  prot : ProtectedHeader.WF maxNest s.protected_

theorem supp_rt (s : SuppPubInfo) (hw : s.WF) :
    ∃ x s', s.toValue = .ok x ∧ SuppPubInfo.fromValue x = .ok s' ∧ s'.keyDataLength = s.keyDataLength ∧ s'.other = s.other ∧
      ProtectedHeader.erase s'.protected_ = ProtectedHeader.erase s.protected_ := by
  obtain ⟨len, p, other⟩ := s
  obtain ⟨b, p', h1, h2, h3, _⟩ := ph_api_rt p hw.prot
  have hl := hw.len
  simp only at hl
  cases other with
  | none =>
    refine ⟨.array [.int len, .bytes b], ⟨len, p', none⟩, by simp [SuppPubInfo.toValue, h1], ?_, rfl, rfl, h3⟩
    simp [SuppPubInfo.fromValue, tryAsArray, Gen.SuppPubInfo_arityBad, Gen.SuppPubInfo_removes, vremove, h2, tryAsInteger, narrowU64, hl.1, hl.2]
  | some o =>
    refine ⟨.array [.int len, .bytes b, .bytes o], ⟨len, p', some o⟩, by simp [SuppPubInfo.toValue, h1], ?_, rfl, rfl, h3⟩
    simp [SuppPubInfo.fromValue, tryAsArray, Gen.SuppPubInfo_arityBad, Gen.SuppPubInfo_removes, vremove, h2, tryAsInteger, narrowU64, hl.1, hl.2, tryAsBytes]

/-- the trailing loop on an emitted tail of byte strings. -/
theorem kdfTail_emit : ∀ (n : Nat) (bs : List Bytes) (pre : List Value) (acc : List Bytes), bs.length = n → pre.length = 4 →
    kdfTail (List.range' 4 n).reverse (pre ++ bs.map Value.bytes) acc = .ok (acc ++ bs.reverse, pre) := by
  intro n
  induction n with
  | zero =>
    intro bs pre acc hb _
    have : bs = [] := List.length_eq_zero_iff.mp hb
    subst this; simp [kdfTail]
  | succ n ih =>
    intro bs pre acc hb hp
    rcases List.eq_nil_or_concat bs with rfl | ⟨init, b, rfl⟩
    · simp at hb
    · rw [List.concat_eq_append] at hb ⊢
      have hi : init.length = n := by simp at hb; exact hb
      rw [List.range'_concat, List.reverse_append]
      simp only [List.reverse_cons, List.reverse_nil, List.nil_append, List.singleton_append, Nat.one_mul, kdfTail, List.map_append, List.map_cons, List.map_nil]
      have hg : (pre ++ (init.map Value.bytes ++ [Value.bytes b]))[4 + n]? = some (Value.bytes b) := by
        rw [← List.append_assoc, List.getElem?_append_right (by simp [hp, hi])]; simp [hp, hi]
      have he : (pre ++ (init.map Value.bytes ++ [Value.bytes b])).eraseIdx (4 + n) = pre ++ init.map Value.bytes := by
        rw [← List.append_assoc, List.eraseIdx_append_of_length_le (by simp [hp, hi])]; simp [hp, hi]
      simp only [vremove, hg, he, tryAsBytes]
      rw [ih init pre (acc ++ [b]) hi hp]
      simp

structure CoseKdfContext.WF (k : CoseKdfContext) : Prop where
  alg : GoodRegPriv Reg.algorithm k.algorithmId
  partyU : k.partyUInfo.WF
  partyV : k.partyVInfo.WF
  supp : k.suppPubInfo.WF

theorem kdf_rt (k : CoseKdfContext) (hw : k.WF) :
    ∃ x k', k.toValue = .ok x ∧ CoseKdfContext.fromValue x = .ok k' ∧ k'.algorithmId = k.algorithmId ∧ k'.partyUInfo = k.partyUInfo ∧
      k'.partyVInfo = k.partyVInfo ∧ k'.suppPrivInfo = k.suppPrivInfo ∧ k'.suppPubInfo.keyDataLength = k.suppPubInfo.keyDataLength ∧
      k'.suppPubInfo.other = k.suppPubInfo.other ∧
      ProtectedHeader.erase k'.suppPubInfo.protected_ = ProtectedHeader.erase k.suppPubInfo.protected_ := by
  obtain ⟨alg, pu, pv, supp, priv⟩ := k
  obtain ⟨xu, hu1, hu2⟩ := party_rt pu hw.partyU
  obtain ⟨xv, hv1, hv2⟩ := party_rt pv hw.partyV
  obtain ⟨xs, s', hs1, hs2, hs3, hs4, hs5⟩ := supp_rt supp hw.supp
  have ha := RegLabelPriv.roundtrip _ alg_values_nodup alg hw.alg
  refine ⟨.array ([RegLabelPriv.value Reg.algorithm alg, xu, xv, xs] ++ priv.map Value.bytes), ⟨alg, pu, pv, s', priv⟩,
    by simp [CoseKdfContext.toValue, RegLabelPriv.toValue_eq, hu1, hv1, hs1], ?_, rfl, rfl, rfl, rfl, hs3, hs4, hs5⟩
  have hlen : ¬ ([RegLabelPriv.value Reg.algorithm alg, xu, xv, xs] ++ priv.map Value.bytes).length < 4 := by simp
  have hn : ([RegLabelPriv.value Reg.algorithm alg, xu, xv, xs] ++ priv.map Value.bytes).length - 4 = priv.length := by simp
  simp only [CoseKdfContext.fromValue, tryAsArray, Gen.CoseKdfContext_arityBad, hlen, decide_false, Bool.false_eq_true, if_false, hn,
    kdfTail_emit priv.length priv [RegLabelPriv.value Reg.algorithm alg, xu, xv, xs] [] rfl rfl]
  simp [Gen.CoseKdfContext_removes, vremove, hs2, hv2, hu2, ha]

end Coset
