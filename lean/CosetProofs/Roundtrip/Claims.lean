/-
  CWT claims sets: decode results are fixed points of emit-then-decode (at `Value` level).
-/
import CosetProofs.Roundtrip.HeaderFixed
import CosetProofs.ClaimsSpec
namespace Coset
open Coset.Props.C18

abbrev nameVal := RegLabelPriv.value Reg.cwtClaimName

def GoodTs : Timestamp → Prop
  | .wholeSeconds n => i64Min ≤ n ∧ n ≤ i64Max
  | .fractionalSeconds _ => True

theorem ts_roundtrip (t : Timestamp) (h : GoodTs t) : Timestamp.fromValue (tsValue t) = .ok t := by
  cases t with
  | wholeSeconds n => obtain ⟨h1, h2⟩ := h; simp [tsValue, Timestamp.fromValue, narrowI64, h1, h2]
  | fractionalSeconds f => rfl

theorem ts_good (v : Value) (t : Timestamp) (h : Timestamp.fromValue v = .ok t) : GoodTs t := by
  rcases (timestamp v t).mp h with ⟨n, _, h1, h2, rfl⟩ | ⟨b, _, rfl⟩
  · exact ⟨h1, h2⟩
  · trivial

/-- entries for the seven typed claims, in emission order. -/
def claimL (iss sub aud : Option Bytes) (exp nbf iat : Option Timestamp) (cti : Option Bytes) : List (RegLabelPriv × Value) :=
  (iss.toList.map fun t => (cISS, Value.text t)) ++ (sub.toList.map fun t => (cSUB, Value.text t)) ++ (aud.toList.map fun t => (cAUD, Value.text t)) ++
  (exp.toList.map fun t => (cEXP, tsValue t)) ++ (nbf.toList.map fun t => (cNBF, tsValue t)) ++ (iat.toList.map fun t => (cIAT, tsValue t)) ++
  (cti.toList.map fun b => (cCTI, Value.bytes b))

def namePairs (ps : List (RegLabelPriv × Value)) : List (Value × Value) := ps.map fun p => (nameVal p.1, p.2)

theorem claimsRestToPairs_eq (ps : List (RegLabelPriv × Value)) : claimsRestToPairs ps = .ok (namePairs ps) := by
  induction ps with
  | nil => rfl
  | cons p ps ih => obtain ⟨l, v⟩ := p; simp [claimsRestToPairs, RegLabelPriv.toValue_eq, ih, namePairs]

theorem ClaimsSet.toValue_entries (iss sub aud exp nbf iat cti rest) :
    ClaimsSet.toValue ⟨iss, sub, aud, exp, nbf, iat, cti, rest⟩ = .ok (.map (namePairs (claimL iss sub aud exp nbf iat cti ++ rest))) := by
  have hv : nameVal cISS = .int Gen.cwt_ISS ∧ nameVal cSUB = .int Gen.cwt_SUB ∧ nameVal cAUD = .int Gen.cwt_AUD ∧ nameVal cEXP = .int Gen.cwt_EXP ∧
      nameVal cNBF = .int Gen.cwt_NBF ∧ nameVal cIAT = .int Gen.cwt_IAT ∧ nameVal cCTI = .int Gen.cwt_CTI := by
    have hi : Reg.cwtClaimName.toI64 Gen.cwt_ISS_idx = Gen.cwt_ISS ∧ Reg.cwtClaimName.toI64 Gen.cwt_SUB_idx = Gen.cwt_SUB ∧
        Reg.cwtClaimName.toI64 Gen.cwt_AUD_idx = Gen.cwt_AUD ∧ Reg.cwtClaimName.toI64 Gen.cwt_EXP_idx = Gen.cwt_EXP ∧
        Reg.cwtClaimName.toI64 Gen.cwt_NBF_idx = Gen.cwt_NBF ∧ Reg.cwtClaimName.toI64 Gen.cwt_IAT_idx = Gen.cwt_IAT ∧
        Reg.cwtClaimName.toI64 Gen.cwt_CTI_idx = Gen.cwt_CTI := by decide +kernel
    obtain ⟨i1, i2, i3, i4, i5, i6, i7⟩ := hi
    simp only [nameVal, RegLabelPriv.value, cISS, cSUB, cAUD, cEXP, cNBF, cIAT, cCTI, i1, i2, i3, i4, i5, i6, i7, and_self]
  obtain ⟨v1, v2, v3, v4, v5, v6, v7⟩ := hv
  simp only [ClaimsSet.toValue, claimsRestToPairs_eq]
  cases iss <;> cases sub <;> cases aud <;> cases exp <;> cases nbf <;> cases iat <;> cases cti <;>
    simp [optPush, claimL, namePairs, v1, v2, v3, v4, v5, v6, v7]

structure ClaimsGood (exp nbf iat : Option Timestamp) : Prop where
  exp : ∀ t, exp = some t → GoodTs t
  nbf : ∀ t, nbf = some t → GoodTs t
  iat : ∀ t, iat = some t → GoodTs t

theorem claims_ne : cISS ≠ cSUB ∧ cISS ≠ cAUD ∧ cISS ≠ cEXP ∧ cISS ≠ cNBF ∧ cISS ≠ cIAT ∧ cISS ≠ cCTI ∧ cSUB ≠ cAUD ∧ cSUB ≠ cEXP ∧ cSUB ≠ cNBF ∧
    cSUB ≠ cIAT ∧ cSUB ≠ cCTI ∧ cAUD ≠ cEXP ∧ cAUD ≠ cNBF ∧ cAUD ≠ cIAT ∧ cAUD ≠ cCTI ∧ cEXP ≠ cNBF ∧ cEXP ≠ cIAT ∧ cEXP ≠ cCTI ∧ cNBF ≠ cIAT ∧
    cNBF ≠ cCTI ∧ cIAT ≠ cCTI := by decide

theorem fold_claimL (iss sub aud exp nbf iat cti) (hg : ClaimsGood exp nbf iat) :
    foldRes claimStep (claimL iss sub aud exp nbf iat cti) ClaimsSet.default = .ok ⟨iss, sub, aud, exp, nbf, iat, cti, []⟩ := by
  obtain ⟨n12, n13, n14, n15, n16, n17, n23, n24, n25, n26, n27, n34, n35, n36, n37, n45, n46, n47, n56, n57, n67⟩ := claims_ne
  unfold claimL
  have s1 : foldRes claimStep (iss.toList.map fun t => (cISS, Value.text t)) ClaimsSet.default = .ok ⟨iss, none, none, none, none, none, none, []⟩ := by
    cases iss <;> simp [foldRes, claimStep, claimDispatch, tryAsString, ClaimsSet.default]
  have s2 : foldRes claimStep (sub.toList.map fun t => (cSUB, Value.text t)) ⟨iss, none, none, none, none, none, none, []⟩
      = .ok ⟨iss, sub, none, none, none, none, none, []⟩ := by
    cases sub <;> simp [foldRes, claimStep, claimDispatch, tryAsString, n12.symm]
  have s3 : foldRes claimStep (aud.toList.map fun t => (cAUD, Value.text t)) ⟨iss, sub, none, none, none, none, none, []⟩
      = .ok ⟨iss, sub, aud, none, none, none, none, []⟩ := by
    cases aud <;> simp [foldRes, claimStep, claimDispatch, tryAsString, n13.symm, n23.symm]
  have s4 : foldRes claimStep (exp.toList.map fun t => (cEXP, tsValue t)) ⟨iss, sub, aud, none, none, none, none, []⟩
      = .ok ⟨iss, sub, aud, exp, none, none, none, []⟩ := by
    cases exp with
    | none => rfl
    | some t => simp [foldRes, claimStep, claimDispatch, n14.symm, n24.symm, n34.symm, ts_roundtrip t (hg.exp t rfl)]
  have s5 : foldRes claimStep (nbf.toList.map fun t => (cNBF, tsValue t)) ⟨iss, sub, aud, exp, none, none, none, []⟩
      = .ok ⟨iss, sub, aud, exp, nbf, none, none, []⟩ := by
    cases nbf with
    | none => rfl
    | some t => simp [foldRes, claimStep, claimDispatch, n15.symm, n25.symm, n35.symm, n45.symm, ts_roundtrip t (hg.nbf t rfl)]
  have s6 : foldRes claimStep (iat.toList.map fun t => (cIAT, tsValue t)) ⟨iss, sub, aud, exp, nbf, none, none, []⟩
      = .ok ⟨iss, sub, aud, exp, nbf, iat, none, []⟩ := by
    cases iat with
    | none => rfl
    | some t => simp [foldRes, claimStep, claimDispatch, n16.symm, n26.symm, n36.symm, n46.symm, n56.symm, ts_roundtrip t (hg.iat t rfl)]
  have s7 : foldRes claimStep (cti.toList.map fun b => (cCTI, Value.bytes b)) ⟨iss, sub, aud, exp, nbf, iat, none, []⟩
      = .ok ⟨iss, sub, aud, exp, nbf, iat, cti, []⟩ := by
    cases cti <;> simp [foldRes, claimStep, claimDispatch, tryAsBytes, n17.symm, n27.symm, n37.symm, n47.symm, n57.symm, n67.symm]
  simp only [foldRes_append, s1, s2, s3, s4, s5, s6, s7]

theorem fold_claimRest : ∀ (ps : List (RegLabelPriv × Value)) (iss sub aud exp nbf iat cti r), (∀ l ∈ ps.map (·.1), l ∉ typedClaims) →
    foldRes claimStep ps ⟨iss, sub, aud, exp, nbf, iat, cti, r⟩ = .ok ⟨iss, sub, aud, exp, nbf, iat, cti, r ++ ps⟩ := by
  intro ps
  induction ps with
  | nil => intros; simp [foldRes]
  | cons q ps ih =>
    intro iss sub aud exp nbf iat cti r hl
    obtain ⟨l, v⟩ := q
    have hn : l ∉ typedClaims := hl l (by simp)
    simp only [typedClaims, List.mem_cons, List.not_mem_nil, or_false, not_or] at hn
    obtain ⟨m1, m2, m3, m4, m5, m6, m7⟩ := hn
    have hs : claimStep ⟨iss, sub, aud, exp, nbf, iat, cti, r⟩ (l, v) = .ok ⟨iss, sub, aud, exp, nbf, iat, cti, r ++ [(l, v)]⟩ := by
      simp [claimStep, claimDispatch, m1, m2, m3, m4, m5, m6, m7]
    simp only [foldRes, hs]
    rw [ih iss sub aud exp nbf iat cti (r ++ [(l, v)]) (fun x hx => hl x (by simp only [List.map_cons, List.mem_cons]; exact Or.inr hx))]
    simp

theorem claimL_names (iss sub aud exp nbf iat cti) : List.Sublist ((claimL iss sub aud exp nbf iat cti).map (·.1)) typedClaims := by
  unfold claimL typedClaims
  cases iss <;> cases sub <;> cases aud <;> cases exp <;> cases nbf <;> cases iat <;> cases cti <;> simp <;> decide

structure RestNames (ps : List (RegLabelPriv × Value)) : Prop where
  nodup : (ps.map (·.1)).Nodup
  nontyped : ∀ l ∈ ps.map (·.1), l ∉ typedClaims
  good : ∀ l ∈ ps.map (·.1), GoodRegPriv Reg.cwtClaimName l ∧ GoodName Reg.cwtClaimName l

theorem typed_good : ∀ l ∈ typedClaims, GoodRegPriv Reg.cwtClaimName l ∧ GoodName Reg.cwtClaimName l := by
  intro l hl
  simp only [typedClaims, List.mem_cons, List.not_mem_nil, or_false] at hl
  rcases hl with h | h | h | h | h | h | h <;> subst h <;>
    simp only [cISS, cSUB, cAUD, cEXP, cNBF, cIAT, cCTI, GoodRegPriv, GoodName] <;> decide +kernel

theorem names_pairs (E : List (RegLabelPriv × Value)) (hE : ∀ l ∈ E.map (·.1), GoodRegPriv Reg.cwtClaimName l) :
    mapRes (RegLabelPriv.fromValue Reg.cwtClaimName) ((namePairs E).map (·.1)) = .ok (E.map (·.1)) := by
  induction E with
  | nil => rfl
  | cons p E ih =>
    have h1 := RegLabelPriv.roundtrip _ cwt_values_nodup p.1 (hE p.1 (by simp))
    have h2 := ih (fun l hl => hE l (by simp only [List.map_cons, List.mem_cons]; exact Or.inr hl))
    simp [namePairs, mapRes, h1] at h2 ⊢
    simp [namePairs, h2]

theorem zip_namePairs (E : List (RegLabelPriv × Value)) : (E.map (·.1)).zip ((namePairs E).map (·.2)) = E := by
  induction E with
  | nil => rfl
  | cons p E ih => simp [namePairs] at ih ⊢; exact ih

theorem claimsLoop_entries (iss sub aud exp nbf iat cti rest) (hg : ClaimsGood exp nbf iat) (hr : RestNames rest) :
    claimsLoop (namePairs (claimL iss sub aud exp nbf iat cti ++ rest)) ClaimsSet.default [] = .ok ⟨iss, sub, aud, exp, nbf, iat, cti, rest⟩ := by
  rw [claimsLoop_eq_gen]
  rw [genLoop_ok_iff _ _ claimStep (GoodName Reg.cwtClaimName) claims_loop_hyps.1 claims_loop_hyps.2 _ _ _ [] (by simp)]
  have hstd : ∀ l ∈ (claimL iss sub aud exp nbf iat cti).map (·.1), l ∈ typedClaims := fun l hl => (claimL_names iss sub aud exp nbf iat cti).subset hl
  have hgood : ∀ l ∈ (claimL iss sub aud exp nbf iat cti ++ rest).map (·.1), GoodRegPriv Reg.cwtClaimName l := by
    intro l hl
    simp only [List.map_append, List.mem_append] at hl
    rcases hl with hl | hl
    · exact (typed_good l (hstd l hl)).1
    · exact (hr.good l hl).1
  refine ⟨_, names_pairs _ hgood, ⟨?_, by simp⟩, ?_⟩
  · rw [List.map_append, List.nodup_append]
    refine ⟨List.Nodup.sublist (claimL_names iss sub aud exp nbf iat cti) typed_distinct, hr.nodup, ?_⟩
    intro a ha b hb hab
    subst hab
    exact hr.nontyped a hb (hstd a ha)
  · rw [zip_namePairs]
    simp only [foldRes_append, fold_claimL iss sub aud exp nbf iat cti hg]
    simpa using fold_claimRest rest iss sub aud exp nbf iat cti [] hr.nontyped

/-- CWT claims set: what was accepted re-emits as a map that is accepted with the same result. -/
theorem claims_fixed (v : Value) (c : ClaimsSet) (h : ClaimsSet.fromValue v = .ok c) : ∃ x, c.toValue = .ok x ∧ ClaimsSet.fromValue x = .ok c := by
  obtain ⟨m, ns, rfl, hns, hnd, co⟩ := claims_accepted_is_wellformed v c h
  have hlen : ns.length = (m.map (·.2)).length := by
    have := Coset.mapRes_length _ _ _ hns; simp at this ⊢; exact this
  have hfst : (ns.zip (m.map (·.2))).map (·.1) = ns := by rw [List.map_fst_zip]; omega
  have hlg : ∀ l ∈ ns, GoodRegPriv Reg.cwtClaimName l ∧ GoodName Reg.cwtClaimName l := by
    intro l hl
    obtain ⟨kk, _, hkk⟩ := mapRes_mem _ _ _ hns l hl
    exact ⟨RegLabelPriv.fromValue_good _ kk l hkk, Coset.fromValue_good _ kk l hkk⟩
  obtain ⟨iss, sub, aud, exp, nbf, iat, cti, rest⟩ := c
  obtain ⟨_, _, _, E, N, I, _, R⟩ := co
  simp only at E N I R
  have hg : ClaimsGood exp nbf iat := by
    refine ⟨?_, ?_, ?_⟩
    · intro t ht
      cases hl : lookupN cEXP (ns.zip (m.map (·.2))) <;> simp only [hl] at E
      · rw [E] at ht; cases ht
      · obtain ⟨t', h1, h2⟩ := E; rw [h2] at ht; cases ht; exact ts_good _ _ h1
    · intro t ht
      cases hl : lookupN cNBF (ns.zip (m.map (·.2))) <;> simp only [hl] at N
      · rw [N] at ht; cases ht
      · obtain ⟨t', h1, h2⟩ := N; rw [h2] at ht; cases ht; exact ts_good _ _ h1
    · intro t ht
      cases hl : lookupN cIAT (ns.zip (m.map (·.2))) <;> simp only [hl] at I
      · rw [I] at ht; cases ht
      · obtain ⟨t', h1, h2⟩ := I; rw [h2] at ht; cases ht; exact ts_good _ _ h1
  have hr : RestNames rest := by
    rw [R]
    have hsub : List.Sublist (((ns.zip (m.map (·.2))).filter (fun p => p.1 ∉ typedClaims)).map (·.1)) ns := by
      have := (List.filter_sublist (l := ns.zip (m.map (·.2))) (p := fun p => decide (p.1 ∉ typedClaims))).map (·.1)
      rw [hfst] at this; exact this
    refine ⟨List.Nodup.sublist hsub hnd, ?_, fun l hl => hlg l (hsub.subset hl)⟩
    intro l hl
    simp only [List.mem_map, List.mem_filter] at hl
    obtain ⟨p, ⟨_, hp⟩, rfl⟩ := hl
    simpa using hp
  exact ⟨_, ClaimsSet.toValue_entries iss sub aud exp nbf iat cti rest, by simp only [ClaimsSet.fromValue]; exact claimsLoop_entries _ _ _ _ _ _ _ _ hg hr⟩

end Coset
