/-
  COSE_Key / COSE_KeySet: decode results are fixed points of emit-then-decode (at `Value` level).
-/
import CosetProofs.Roundtrip.HeaderFixed
import CosetProofs.Roundtrip.SetOrder
import CosetProofs.Props.C10
namespace Coset
open Coset.Spec

abbrev opCmp := RegLabel.cmp Reg.keyOperation
abbrev opVal := RegLabel.value Reg.keyOperation

theorem keyop_values_nodup : (Reg.keyOperation.rows.map (·.2)).Nodup := by decide +kernel
theorem keytype_values_nodup : (Reg.keyType.rows.map (·.2)).Nodup := by decide +kernel

/-- the `key_ops` loop keeps its set strictly ascending and made of decodable operations. -/
theorem keyOpsLoop_asc : ∀ (a : List Value) (s0 s : List RegLabel), keyOpsLoop a s0 = .ok s → Asc opCmp s0 → (∀ x ∈ s0, GoodReg Reg.keyOperation x) →
    Asc opCmp s ∧ ∀ x ∈ s, GoodReg Reg.keyOperation x := by
  intro a
  induction a with
  | nil => intro s0 s h h1 h2; simp [keyOpsLoop] at h; subst h; exact ⟨h1, h2⟩
  | cons v vs ih =>
    intro s0 s h h1 h2
    simp only [keyOpsLoop] at h
    cases hv : RegLabel.fromValue Reg.keyOperation v with
    | ok op =>
      simp only [hv] at h
      cases hi : setInsert (RegLabel.cmp Reg.keyOperation) s0 op with
      | ok r =>
        simp only [hi] at h
        cases r with
        | none => simp at h
        | some s1 =>
          simp only [] at h
          obtain ⟨a1, a2⟩ := setInsert_asc (regLabel_strict Reg.keyOperation) s0 op s1 h1 hi
          refine ih s1 s h a1 ?_
          intro x hx
          rcases (a2 x).mp hx with rfl | hx'
          · exact RegLabel.fromValue_good _ v _ hv
          · exact h2 x hx'
      | err e => simp [hi] at h
      | panic p => simp [hi] at h
    | err e => simp [hv] at h
    | panic p => simp [hv] at h

/-- a strictly ascending list of operations, emitted in order, is rebuilt by the loop. -/
theorem keyOpsLoop_rebuild : ∀ (ys s0 : List RegLabel), Asc opCmp (s0 ++ ys) → (∀ x ∈ ys, GoodReg Reg.keyOperation x) →
    keyOpsLoop (ys.map opVal) s0 = .ok (s0 ++ ys) := by
  intro ys
  induction ys with
  | nil => intro s0 _ _; simp [keyOpsLoop]
  | cons y ys ih =>
    intro s0 hasc hg
    have hy := RegLabel.roundtrip _ keyop_values_nodup y (hg y (by simp))
    have hins : setInsert (RegLabel.cmp Reg.keyOperation) s0 y = .ok (some (s0 ++ [y])) := by
      apply setInsert_append (regLabel_strict Reg.keyOperation)
      intro z hz
      simp only [Asc, List.pairwise_append] at hasc
      exact hasc.2.2 z hz y (by simp)
    simp only [List.map_cons, keyOpsLoop, opVal, hy, hins]
    have := ih (s0 ++ [y]) (by simpa using hasc) (fun x hx => hg x (by simp [hx]))
    simpa using this

/-- the label/value entries for the five common key parameters, in emission order. -/
def keyL (kty : RegLabel) (kid : Bytes) (alg : Option RegLabelPriv) (ops : List RegLabel) (biv : Bytes) : List (Label × Value) :=
  [(Label.int 1, RegLabel.value Reg.keyType kty)] ++
  (if !kid.isEmpty then [(Label.int 2, Value.bytes kid)] else []) ++
  (alg.toList.map fun a => (Label.int 3, RegLabelPriv.value Reg.algorithm a)) ++
  (if !ops.isEmpty then [(Label.int 4, Value.array (ops.map opVal))] else []) ++
  (if !biv.isEmpty then [(Label.int 5, Value.bytes biv)] else [])

structure KeyGood (kty : RegLabel) (alg : Option RegLabelPriv) (ops : List RegLabel) : Prop where
  kty : GoodReg Reg.keyType kty
  alg : ∀ a, alg = some a → GoodRegPriv Reg.algorithm a
  ops : Asc opCmp ops ∧ ∀ x ∈ ops, GoodReg Reg.keyOperation x

theorem key5 : kKTY = .int 1 ∧ kKID = .int 2 ∧ kALG = .int 3 ∧ kKEY_OPS = .int 4 ∧ kBASE_IV = .int 5 := key_labels

theorem fold_keyL (kty kid alg ops biv) (hg : KeyGood kty alg ops) :
    foldRes keyStep (keyL kty kid alg ops biv) CoseKey.default = .ok ⟨kty, kid, alg, ops, biv, []⟩ := by
  obtain ⟨e1, e2, e3, e4, e5⟩ := key5
  have nb : ∀ b : Bytes, b.isEmpty = false → tryAsNonemptyBytes (.bytes b) = .ok b := by
    intro b hb; simp [tryAsNonemptyBytes, tryAsBytes, hb]
  unfold keyL
  have s1 : foldRes keyStep [(Label.int 1, RegLabel.value Reg.keyType kty)] CoseKey.default = .ok ⟨kty, [], none, [], [], []⟩ := by
    simp [foldRes, keyStep, keyDispatch, e1, RegLabel.roundtrip _ keytype_values_nodup kty hg.kty, CoseKey.default]
  have s2 : foldRes keyStep (if !kid.isEmpty then [(Label.int 2, Value.bytes kid)] else []) ⟨kty, [], none, [], [], []⟩ = .ok ⟨kty, kid, none, [], [], []⟩ := by
    by_cases hc : kid.isEmpty = true
    · have : kid = [] := List.isEmpty_iff.mp hc
      subst this; simp [foldRes]
    · have hb : kid.isEmpty = false := by simpa using hc
      simp [hc, foldRes, keyStep, keyDispatch, e1, e2, nb kid hb]
  have s3 : foldRes keyStep (alg.toList.map fun a => (Label.int 3, RegLabelPriv.value Reg.algorithm a)) ⟨kty, kid, none, [], [], []⟩
      = .ok ⟨kty, kid, alg, [], [], []⟩ := by
    cases alg with
    | none => rfl
    | some a =>
      simp [foldRes, keyStep, keyDispatch, e1, e2, e3, RegLabelPriv.roundtrip _ alg_values_nodup a (hg.alg a rfl)]
  have s4 : foldRes keyStep (if !ops.isEmpty then [(Label.int 4, Value.array (ops.map opVal))] else []) ⟨kty, kid, alg, [], [], []⟩
      = .ok ⟨kty, kid, alg, ops, [], []⟩ := by
    by_cases hc : ops.isEmpty = true
    · have : ops = [] := List.isEmpty_iff.mp hc
      subst this; simp [foldRes]
    · have hb : ops.isEmpty = false := by simpa using hc
      have hl := keyOpsLoop_rebuild ops [] (by simpa using hg.ops.1) hg.ops.2
      simp only [List.nil_append] at hl
      simp [hc, foldRes, keyStep, keyDispatch, e1, e2, e3, e4, tryAsArray, hl, hb]
  have s5 : foldRes keyStep (if !biv.isEmpty then [(Label.int 5, Value.bytes biv)] else []) ⟨kty, kid, alg, ops, [], []⟩
      = .ok ⟨kty, kid, alg, ops, biv, []⟩ := by
    by_cases hc : biv.isEmpty = true
    · have : biv = [] := List.isEmpty_iff.mp hc
      subst this; simp [foldRes]
    · have hb : biv.isEmpty = false := by simpa using hc
      simp [hc, foldRes, keyStep, keyDispatch, e1, e2, e3, e4, e5, nb biv hb]
  simp only [foldRes_append, s1, s2, s3, s4, s5]

theorem fold_keyParams : ∀ (ps : List (Label × Value)) (kty kid alg ops biv r), (∀ l ∈ ps.map (·.1), l ∉ keyLabels5) →
    foldRes keyStep ps ⟨kty, kid, alg, ops, biv, r⟩ = .ok ⟨kty, kid, alg, ops, biv, r ++ ps⟩ := by
  intro ps
  induction ps with
  | nil => intros; simp [foldRes]
  | cons q ps ih =>
    intro kty kid alg ops biv r hl
    obtain ⟨l, v⟩ := q
    obtain ⟨e1, e2, e3, e4, e5⟩ := key5
    have hn : l ∉ keyLabels5 := hl l (by simp)
    simp only [keyLabels5, List.mem_cons, List.not_mem_nil, or_false, not_or] at hn
    obtain ⟨n1, n2, n3, n4, n5⟩ := hn
    have hs : keyStep ⟨kty, kid, alg, ops, biv, r⟩ (l, v) = .ok ⟨kty, kid, alg, ops, biv, r ++ [(l, v)]⟩ := by
      simp [keyStep, keyDispatch, e1, e2, e3, e4, e5, n1, n2, n3, n4, n5]
    simp only [foldRes, hs]
    rw [ih kty kid alg ops biv (r ++ [(l, v)]) (fun x hx => hl x (by simp only [List.map_cons, List.mem_cons]; exact Or.inr hx))]
    simp

structure ParamsGood (ps : List (Label × Value)) : Prop where
  nodup : (ps.map (·.1)).Nodup
  nonstd : ∀ l ∈ ps.map (·.1), l ∉ keyLabels5
  good : ∀ l ∈ ps.map (·.1), LabelGood l

theorem keyL_labels (kty kid alg ops biv) : List.Sublist ((keyL kty kid alg ops biv).map (·.1)) keyLabels5 := by
  unfold keyL keyLabels5
  cases alg <;> by_cases h2 : kid.isEmpty <;> by_cases h4 : ops.isEmpty <;> by_cases h5 : biv.isEmpty <;>
    simp [h2, h4, h5] <;> decide

theorem mapRes_toValue (R : Registry) (ls : List RegLabel) : mapRes (RegLabel.toValue R) ls = .ok (ls.map (RegLabel.value R)) := by
  induction ls with
  | nil => rfl
  | cons l ls ih => simp [mapRes, RegLabel.toValue_eq, ih]

theorem CoseKey.toValue_entries (kty kid alg ops biv ps) (hp : ParamsGood ps) :
    CoseKey.toValue ⟨kty, kid, alg, ops, biv, ps⟩ = .ok (.map (pairsToValue (keyL kty kid alg ops biv ++ ps))) := by
  have hc : Gen.key_KTY = 1 ∧ Gen.key_KID = 2 ∧ Gen.key_ALG = 3 ∧ Gen.key_KEY_OPS = 4 ∧ Gen.key_BASE_IV = 5 := by decide
  obtain ⟨c1, c2, c3, c4, c5⟩ := hc
  have hfin : ∀ m4 : List (Value × Value), m4 = pairsToValue (keyL kty kid alg ops biv) →
      restToPairs ps (typedSeen m4) m4 = .ok (pairsToValue (keyL kty kid alg ops biv ++ ps)) := by
    intro m4 hm; subst hm
    rw [restToPairs_ok ps _ _ hp.nodup]
    · simp [pairsToValue]
    · intro l hl hs
      exact hp.nonstd l hl (typedSeen_pairs keyLabels5 _ (fun x hx => (keyL_labels kty kid alg ops biv).subset hx) l hs)
  simp only [CoseKey.toValue, RegLabel.toValue_eq, RegLabelPriv.toValue_eq, regLabelsToValues, mapRes_toValue, c1, c2, c3, c4, c5]
  have hm : ∀ m4, m4 = pairsToValue (keyL kty kid alg ops biv) →
      (match restToPairs ps (typedSeen m4) m4 with
        | .ok m => Res.ok (Value.map m)
        | .err e => .err e
        | .panic p => .panic p) = .ok (.map (pairsToValue (keyL kty kid alg ops biv ++ ps))) := by
    intro m4 h4; rw [hfin m4 h4]
  cases alg <;> by_cases h2 : kid.isEmpty <;> by_cases h4 : ops.isEmpty <;> by_cases h5 : biv.isEmpty <;>
    simp only [h2, h4, h5, Bool.not_true, Bool.not_false, Bool.false_eq_true, if_false, if_true] <;>
    (apply hm; simp [keyL, pairsToValue, labelValue, h2, h4, h5, opVal])

theorem keyLoop_entries (kty kid alg ops biv ps) (hg : KeyGood kty alg ops) (hp : ParamsGood ps) :
    keyLoop (pairsToValue (keyL kty kid alg ops biv ++ ps)) CoseKey.default [] = .ok ⟨kty, kid, alg, ops, biv, ps⟩ := by
  rw [keyLoop_eq_gen]
  rw [genLoop_ok_iff Label.fromValue Label.cmp keyStep (fun _ => True) label_loop_hyps.1 label_loop_hyps.2 _ _ _ [] (by simp)]
  have hstd : ∀ l ∈ (keyL kty kid alg ops biv).map (·.1), l ∈ keyLabels5 := fun l hl => (keyL_labels kty kid alg ops biv).subset hl
  have hgood : ∀ l ∈ (keyL kty kid alg ops biv ++ ps).map (·.1), LabelGood l := by
    intro l hl
    simp only [List.map_append, List.mem_append] at hl
    rcases hl with hl | hl
    · have := hstd l hl
      simp only [keyLabels5, List.mem_cons, List.not_mem_nil, or_false] at this
      rcases this with h | h | h | h | h <;> subst h <;> simp [LabelGood, i64Min, i64Max]
    · exact hp.good l hl
  have hk := keyLabels_pairs _ hgood
  simp only [keyLabels] at hk
  refine ⟨_, hk, ⟨?_, by simp⟩, ?_⟩
  · rw [List.map_append, List.nodup_append]
    refine ⟨List.Nodup.sublist (keyL_labels kty kid alg ops biv) (by decide), hp.nodup, ?_⟩
    intro a ha b hb hab
    subst hab
    exact hp.nonstd a hb (hstd a ha)
  · rw [zip_pairs]
    simp only [foldRes_append, fold_keyL kty kid alg ops biv hg]
    simpa using fold_keyParams ps kty kid alg ops biv [] hp.nonstd

/-- COSE_Key: what was accepted re-emits as a map that is accepted with the same result. -/
theorem key_fixed (v : Value) (k : CoseKey) (h : CoseKey.fromValue v = .ok k) : ∃ x, k.toValue = .ok x ∧ CoseKey.fromValue x = .ok k := by
  obtain ⟨m, ls, rfl, hls, hnd, ko, hres, _⟩ := Coset.Props.C10.accepted_is_wellformed v k h
  have hlen : ls.length = (m.map (·.2)).length := by
    have := Coset.mapRes_length _ _ _ hls; simp [keyLabels] at this ⊢; exact this
  have hfst : (ls.zip (m.map (·.2))).map (·.1) = ls := by rw [List.map_fst_zip]; omega
  have hlg : ∀ l ∈ ls, LabelGood l := by
    intro l hl
    obtain ⟨kk, _, hkk⟩ := mapRes_mem _ _ _ hls l hl
    exact Label.fromValue_good kk l hkk
  obtain ⟨kty, kid, alg, ops, biv, ps⟩ := k
  obtain ⟨T, K, A, O, B, P⟩ := ko
  simp only [CoseKey.default, List.nil_append] at T K A O B P hres
  have hg : KeyGood kty alg ops := by
    refine ⟨?_, ?_, ?_⟩
    · cases hl : lookupL (.int 1) (ls.zip (m.map (·.2))) <;> simp only [hl] at T
      · exact absurd T hres
      · obtain ⟨t, h1, h2⟩ := T; rw [h2]; exact RegLabel.fromValue_good _ _ _ h1
    · intro a ha
      cases hl : lookupL (.int 3) (ls.zip (m.map (·.2))) <;> simp only [hl] at A
      · rw [A] at ha; cases ha
      · obtain ⟨a', h1, h2⟩ := A
        rw [h2] at ha; cases ha
        exact RegLabelPriv.fromValue_good _ _ _ h1
    · cases hl : lookupL (.int 4) (ls.zip (m.map (·.2))) <;> simp only [hl] at O
      · rw [O]; exact ⟨by simp [Asc], by simp⟩
      · obtain ⟨a, s, _, h2, _, h4⟩ := O
        rw [h4]
        exact keyOpsLoop_asc a [] s h2 (by simp [Asc]) (by simp)
  have hp : ParamsGood ps := by
    rw [P]
    have hsub : List.Sublist (((ls.zip (m.map (·.2))).filter (fun p => p.1 ∉ keyLabels5)).map (·.1)) ls := by
      have := (List.filter_sublist (l := ls.zip (m.map (·.2))) (p := fun p => decide (p.1 ∉ keyLabels5))).map (·.1)
      rw [hfst] at this; exact this
    refine ⟨List.Nodup.sublist hsub hnd, ?_, fun l hl => hlg l (hsub.subset hl)⟩
    intro l hl
    simp only [List.mem_map, List.mem_filter] at hl
    obtain ⟨p, ⟨_, hp⟩, rfl⟩ := hl
    simpa using hp
  refine ⟨_, CoseKey.toValue_entries kty kid alg ops biv ps hp, ?_⟩
  simp only [CoseKey.fromValue, tryAsMap, keyLoop_entries kty kid alg ops biv ps hg hp]
  simp [hres]

/-- what an accepted key satisfies: well-formed typed fields and extras, and any re-ordering of extras that is itself `ParamsGood`
    is accepted from its emitted entries (the `kty` check after the loop depends only on the typed fields). -/
theorem key_accepted_good (v : Value) (k : CoseKey) (h : CoseKey.fromValue v = .ok k) :
    KeyGood k.kty k.alg k.keyOps ∧ ParamsGood k.params ∧
    ∀ ps', ParamsGood ps' → CoseKey.fromValue (.map (pairsToValue (keyL k.kty k.keyId k.alg k.keyOps k.baseIv ++ ps'))) =
      .ok ⟨k.kty, k.keyId, k.alg, k.keyOps, k.baseIv, ps'⟩ := by
  obtain ⟨m, ls, rfl, hls, hnd, ko, hres, _⟩ := Coset.Props.C10.accepted_is_wellformed v k h
  have hlen : ls.length = (m.map (·.2)).length := by
    have := Coset.mapRes_length _ _ _ hls; simp [keyLabels] at this ⊢; exact this
  have hfst : (ls.zip (m.map (·.2))).map (·.1) = ls := by rw [List.map_fst_zip]; omega
  have hlg : ∀ l ∈ ls, LabelGood l := by
    intro l hl
    obtain ⟨kk, _, hkk⟩ := mapRes_mem _ _ _ hls l hl
    exact Label.fromValue_good kk l hkk
  obtain ⟨kty, kid, alg, ops, biv, ps⟩ := k
  obtain ⟨T, K, A, O, B, P⟩ := ko
  simp only [CoseKey.default, List.nil_append] at T K A O B P hres
  have hg : KeyGood kty alg ops := by
    refine ⟨?_, ?_, ?_⟩
    · cases hl : lookupL (.int 1) (ls.zip (m.map (·.2))) <;> simp only [hl] at T
      · exact absurd T hres
      · obtain ⟨t, h1, h2⟩ := T; rw [h2]; exact RegLabel.fromValue_good _ _ _ h1
    · intro a ha
      cases hl : lookupL (.int 3) (ls.zip (m.map (·.2))) <;> simp only [hl] at A
      · rw [A] at ha; cases ha
      · obtain ⟨a', h1, h2⟩ := A
        rw [h2] at ha; cases ha
        exact RegLabelPriv.fromValue_good _ _ _ h1
    · cases hl : lookupL (.int 4) (ls.zip (m.map (·.2))) <;> simp only [hl] at O
      · rw [O]; exact ⟨by simp [Asc], by simp⟩
      · obtain ⟨a, s, _, h2, _, h4⟩ := O
        rw [h4]
        exact keyOpsLoop_asc a [] s h2 (by simp [Asc]) (by simp)
  have hp : ParamsGood ps := by
    rw [P]
    have hsub : List.Sublist (((ls.zip (m.map (·.2))).filter (fun p => p.1 ∉ keyLabels5)).map (·.1)) ls := by
      have := (List.filter_sublist (l := ls.zip (m.map (·.2))) (p := fun p => decide (p.1 ∉ keyLabels5))).map (·.1)
      rw [hfst] at this; exact this
    refine ⟨List.Nodup.sublist hsub hnd, ?_, fun l hl => hlg l (hsub.subset hl)⟩
    intro l hl
    simp only [List.mem_map, List.mem_filter] at hl
    obtain ⟨p, ⟨_, hp⟩, rfl⟩ := hl
    simpa using hp
  refine ⟨hg, hp, ?_⟩
  intro ps' hp'
  simp only [CoseKey.fromValue, tryAsMap, keyLoop_entries kty kid alg ops biv ps' hg hp']
  simp [hres]


theorem keyset_fixed (v : Value) (ks : List CoseKey) (h : CoseKeySet.fromValue v = .ok ks) :
    ∃ x, CoseKeySet.toValue ks = .ok x ∧ CoseKeySet.fromValue x = .ok ks := by
  obtain ⟨a, rfl, ha⟩ := (Coset.Props.C10.keyset_iff v ks).mp h
  obtain ⟨ys, h1, h2⟩ := list_fixed' CoseKey.fromValue CoseKey.toValue key_fixed a ks ha
  exact ⟨.array ys, by simp [CoseKeySet.toValue, h1], (Coset.Props.C10.keyset_iff _ ks).mpr ⟨ys, rfl, h2⟩⟩

end Coset
