/-
  `Header::to_cbor_value` as one list of label/value entries, and the decoder run on it.
-/
import CosetProofs.Roundtrip.HeaderEmit
namespace Coset
open Coset.Spec

/-- labels a decoder can have produced (integers within i64). -/
def LabelGood : Label → Prop
  | .int i => i64Min ≤ i ∧ i ≤ i64Max
  | .text _ => True

theorem Label.fromValue_good (v : Value) (l : Label) (h : Label.fromValue v = .ok l) : LabelGood l := by
  cases v with
  | int i =>
    simp only [Label.fromValue, narrowI64] at h
    by_cases hc : i64Min ≤ i ∧ i ≤ i64Max
    · simp [hc] at h; subst h; exact hc
    · simp [hc] at h
  | text t => simp [Label.fromValue] at h; subst h; trivial
  | _ => simp [Label.fromValue, typeError] at h

theorem Label.roundtrip (l : Label) (h : LabelGood l) : Label.fromValue (labelValue l) = .ok l := by
  cases l with
  | int i => obtain ⟨h1, h2⟩ := h; simp [labelValue, Label.fromValue, narrowI64, h1, h2]
  | text t => rfl

theorem Label.toValue_eq (l : Label) : Label.toValue l = .ok (labelValue l) := by cases l <;> rfl

/-- what the counter-signature list contributes to the map: nothing, one signature inline, or an array of them. -/
def csValue : List CoseSignature → Res (Option Value)
  | [] => .ok none
  | [s] =>
    match CoseSignature.toValue s with
    | .ok v => .ok (some v)
    | .err e => .err e
    | .panic p => .panic p
  | s :: s2 :: ss =>
    match sigsToValues (s :: s2 :: ss) with
    | .ok vs => .ok (some (.array vs))
    | .err e => .err e
    | .panic p => .panic p

def csL : Option Value → List (Label × Value)
  | none => []
  | some v => [(.int 7, v)]

theorem typedSeen_pairs (S : List Label) (E : List (Label × Value)) (hE : ∀ l ∈ E.map (·.1), l ∈ S) : ∀ l ∈ typedSeen (pairsToValue E), l ∈ S := by
  intro l hl
  simp only [typedSeen, pairsToValue, List.mem_filterMap, List.mem_map] at hl
  obtain ⟨p, ⟨q, hq, rfl⟩, hp⟩ := hl
  have hq1 := hE q.1 (List.mem_map.mpr ⟨q, hq, rfl⟩)
  cases hq1' : q.1 with
  | int i => simp [labelValue, hq1'] at hp; subst hp; rw [← hq1']; exact hq1
  | text t => simp [labelValue, hq1'] at hp

theorem restToPairs_ok : ∀ (rest : List (Label × Value)) (seen : List Label) (acc : List (Value × Value)),
    (rest.map (·.1)).Nodup → (∀ l ∈ rest.map (·.1), l ∉ seen) → restToPairs rest seen acc = .ok (acc ++ pairsToValue rest) := by
  intro rest
  induction rest with
  | nil => intro seen acc _ _; simp [restToPairs, pairsToValue]
  | cons p r ih =>
    intro seen acc hnd hdis
    obtain ⟨l, v⟩ := p
    have hl : l ∉ seen := hdis l (by simp)
    simp only [restToPairs, setContains_label, hl, decide_false, Label.toValue_eq]
    simp only [List.map_cons, List.nodup_cons] at hnd
    rw [ih (seen ++ [l]) (acc ++ [(labelValue l, v)]) hnd.2]
    · simp [pairsToValue]
    · intro x hx hs
      rcases List.mem_append.mp hs with h | h
      · exact hdis x (by simp [List.mem_map] at hx ⊢; exact Or.inr hx) h
      · simp at h; subst h; exact hnd.1 hx

theorem typedL_labels (alg crit ct kid iv piv) : List.Sublist ((typedL alg crit ct kid iv piv).map (·.1)) [.int 1, .int 2, .int 3, .int 4, .int 5, .int 6] := by
  unfold typedL
  cases alg <;> cases ct <;> by_cases h2 : crit.isEmpty <;> by_cases h4 : kid.isEmpty <;> by_cases h5 : iv.isEmpty <;> by_cases h6 : piv.isEmpty <;>
    simp [h2, h4, h5, h6] <;> decide

theorem keyLabels_pairs (E : List (Label × Value)) (hE : ∀ l ∈ E.map (·.1), LabelGood l) : keyLabels (pairsToValue E) = .ok (E.map (·.1)) := by
  induction E with
  | nil => rfl
  | cons p E ih =>
    have h1 := Label.roundtrip p.1 (hE p.1 (by simp))
    have h2 := ih (fun l hl => hE l (by simp only [List.map_cons, List.mem_cons]; exact Or.inr hl))
    simp only [keyLabels] at h2 ⊢
    simp [pairsToValue, mapRes, h1] at h2 ⊢
    simp [pairsToValue, h2]

theorem zip_pairs (E : List (Label × Value)) : (E.map (·.1)).zip ((pairsToValue E).map (·.2)) = E := by
  induction E with
  | nil => rfl
  | cons p E ih => simp [pairsToValue] at ih ⊢; exact ih

section
variable (d : Nat) (sf : Value → Res CoseSignature)

/-- entries under non-standard labels go to `rest`, in order. -/
theorem fold_restL : ∀ (rest : List (Label × Value)) (a c ct k i p cs r), (∀ l ∈ rest.map (·.1), l ∉ stdLabels) → ¬ (i ≠ [] ∧ p ≠ []) →
    foldRes (headerStep d sf) rest (.mk a c ct k i p cs r) = .ok (.mk a c ct k i p cs (r ++ rest)) := by
  intro rest
  induction rest with
  | nil => intros; simp [foldRes]
  | cons q rest ih =>
    intro a c ct k i p cs r hl hiv
    obtain ⟨l, v⟩ := q
    obtain ⟨e1, e2, e3, e4, e5, e6, e7⟩ := std7
    have hn : l ∉ stdLabels := hl l (by simp)
    simp only [stdLabels, List.mem_cons, List.not_mem_nil, or_false, not_or] at hn
    obtain ⟨n1, n2, n3, n4, n5, n6, n7⟩ := hn
    have hb : (!i.isEmpty && !p.isEmpty) = false := by
      cases i <;> cases p <;> simp_all
    have hs : headerStep d sf (.mk a c ct k i p cs r) (l, v) = .ok (.mk a c ct k i p cs (r ++ [(l, v)])) := by
      simp [headerStep, headerDispatch, e1, e2, e3, e4, e5, e6, e7, n1, n2, n3, n4, n5, n6, n7, Header.setRest, Header.rest, Header.iv, Header.partialIv, hb]
    simp only [foldRes, hs]
    rw [ih a c ct k i p cs (r ++ [(l, v)]) (fun x hx => hl x (by simp only [List.map_cons, List.mem_cons]; exact Or.inr hx)) hiv]
    simp

/-- the counter-signature entry (if any) decodes to `cs`. -/
def ArmOk (ov : Option Value) (cs : List CoseSignature) : Prop :=
  match ov with
  | none => cs = []
  | some v => counterSigArm d sf v = .ok cs

theorem fold_csL (ov : Option Value) (cs : List CoseSignature) (a c ct k i p)
    (h : ArmOk d sf ov cs) (hiv : ¬ (i ≠ [] ∧ p ≠ [])) :
    foldRes (headerStep d sf) (csL ov) (.mk a c ct k i p [] []) = .ok (.mk a c ct k i p cs []) := by
  cases ov with
  | none => simp only [ArmOk] at h; subst h; simp [csL, foldRes]
  | some v =>
    simp only [ArmOk] at h
    obtain ⟨e1, e2, e3, e4, e5, e6, e7⟩ := std7
    have hb : (!i.isEmpty && !p.isEmpty) = false := by
      cases i <;> cases p <;> simp_all
    simp [csL, foldRes, headerStep, headerDispatch, e1, e2, e3, e4, e5, e6, e7, h, Header.setCounterSignatures, Header.counterSignatures, Header.iv,
      Header.partialIv, hb]

/-- the rest entries of a header that can be emitted and read back. -/
structure RestGood (rest : List (Label × Value)) : Prop where
  nodup : (rest.map (·.1)).Nodup
  nonstd : ∀ l ∈ rest.map (·.1), l ∉ stdLabels
  good : ∀ l ∈ rest.map (·.1), LabelGood l

/-- all entries of a header, in emission order. -/
def entries (alg : Option RegLabelPriv) (crit : List RegLabel) (ct : Option RegLabel) (kid iv piv : Bytes) (ov : Option Value) (rest : List (Label × Value)) : List (Label × Value) :=
  typedL alg crit ct kid iv piv ++ csL ov ++ rest

theorem Header.toValue_entries (alg crit ct kid iv piv cs rest) (ov : Option Value) (hcs : csValue cs = .ok ov) (hr : RestGood rest) :
    Header.toValue (.mk alg crit ct kid iv piv cs rest) = .ok (.map (pairsToValue (entries alg crit ct kid iv piv ov rest))) := by
  have hfin : ∀ E : List (Label × Value), (∀ l ∈ E.map (·.1), l ∈ stdLabels) →
      headerFinish (pairsToValue E) rest = .ok (.map (pairsToValue (E ++ rest))) := by
    intro E hE
    simp only [headerFinish]
    rw [restToPairs_ok rest _ _ hr.nodup]
    · simp [pairsToValue]
    · intro l hl hs; exact hr.nonstd l hl (typedSeen_pairs stdLabels E hE l hs)
  have hsub : ∀ l ∈ (typedL alg crit ct kid iv piv).map (·.1), l ∈ stdLabels := by
    intro l hl
    have := (typedL_labels alg crit ct kid iv piv).subset hl
    simp only [stdLabels, List.mem_cons, List.not_mem_nil, or_false] at this ⊢
    rcases this with h | h | h | h | h | h <;> simp [h]
  have h7 : Gen.header_COUNTER_SIG = 7 := by decide
  unfold entries
  match cs, hcs with
  | [], hcs =>
    simp only [csValue, Res.ok.injEq] at hcs; subst hcs
    simp only [Header.toValue, headerTypedPairs_eq, csL, List.append_nil]
    exact hfin _ hsub
  | [s], hcs =>
    simp only [csValue] at hcs
    simp only [Header.toValue, headerTypedPairs_eq]
    cases hv : CoseSignature.toValue s with
    | ok v =>
      simp only [hv, Res.ok.injEq] at hcs; subst hcs
      simp only [h7]
      have := hfin (typedL alg crit ct kid iv piv ++ [(.int 7, v)]) (by
        intro l hl
        simp only [List.map_append, List.mem_append, List.map_cons, List.map_nil, List.mem_singleton] at hl
        rcases hl with hl | hl
        · exact hsub l hl
        · subst hl; simp [stdLabels])
      simpa [pairsToValue, csL, labelValue] using this
    | err e => simp [hv] at hcs
    | panic q => simp [hv] at hcs
  | s :: s2 :: ss, hcs =>
    simp only [csValue] at hcs
    simp only [Header.toValue, headerTypedPairs_eq]
    cases hv : sigsToValues (s :: s2 :: ss) with
    | ok vs =>
      simp only [hv, Res.ok.injEq] at hcs; subst hcs
      simp only [h7]
      have := hfin (typedL alg crit ct kid iv piv ++ [(.int 7, .array vs)]) (by
        intro l hl
        simp only [List.map_append, List.mem_append, List.map_cons, List.map_nil, List.mem_singleton] at hl
        rcases hl with hl | hl
        · exact hsub l hl
        · subst hl; simp [stdLabels])
      simpa [pairsToValue, csL, labelValue] using this
    | err e => simp [hv] at hcs
    | panic q => simp [hv] at hcs

/-- the decoder run on the emitted entries gives the header back. -/
theorem headerLoop_entries (alg crit ct kid iv piv cs rest) (ov : Option Value) (hg : TypedGood alg crit ct iv piv)
    (harm : ArmOk d sf ov cs) (hr : RestGood rest) :
    headerLoop d sf (pairsToValue (entries alg crit ct kid iv piv ov rest)) Header.default [] = .ok (.mk alg crit ct kid iv piv cs rest) := by
  rw [headerLoop_ok_iff]
  have hstd : ∀ l ∈ (typedL alg crit ct kid iv piv ++ csL ov).map (·.1), l ∈ stdLabels := by
    intro l hl
    simp only [List.map_append, List.mem_append] at hl
    rcases hl with hl | hl
    · have := (typedL_labels alg crit ct kid iv piv).subset hl
      simp only [stdLabels, List.mem_cons, List.not_mem_nil, or_false] at this ⊢
      rcases this with h | h | h | h | h | h <;> simp [h]
    · cases ov <;> simp [csL] at hl
      subst hl; simp [stdLabels]
  have hgood : ∀ l ∈ (entries alg crit ct kid iv piv ov rest).map (·.1), LabelGood l := by
    intro l hl
    simp only [entries, List.map_append, List.mem_append] at hl
    rcases hl with hl | hl
    · have := hstd l (by simpa [List.map_append, List.mem_append] using hl)
      simp only [stdLabels, List.mem_cons, List.not_mem_nil, or_false] at this
      rcases this with h | h | h | h | h | h | h <;> subst h <;> simp [LabelGood, i64Min, i64Max]
    · exact hr.good l hl
  refine ⟨_, keyLabels_pairs _ hgood, ⟨?_, by simp⟩, ?_⟩
  · -- distinct labels
    simp only [entries, List.map_append]
    rw [← List.map_append, List.nodup_append]
    refine ⟨?_, hr.nodup, ?_⟩
    · have hsub : List.Sublist ((typedL alg crit ct kid iv piv ++ csL ov).map (·.1)) [.int 1, .int 2, .int 3, .int 4, .int 5, .int 6, .int 7] := by
        rw [List.map_append]
        have h1 := typedL_labels alg crit ct kid iv piv
        have h2 : List.Sublist ((csL ov).map (·.1)) [Label.int 7] := by cases ov <;> simp [csL]
        exact List.Sublist.append h1 h2
      exact List.Nodup.sublist hsub (by decide)
    · intro a ha b hb hab
      subst hab
      exact hr.nonstd a hb (hstd a ha)
  · rw [zip_pairs]
    simp only [entries, foldRes_append, fold_typed d sf alg crit ct kid iv piv hg, fold_csL d sf ov cs alg crit ct kid iv piv harm hg.ivs]
    simpa using fold_restL d sf rest alg crit ct kid iv piv cs [] hr.nonstd hg.ivs
end

end Coset
