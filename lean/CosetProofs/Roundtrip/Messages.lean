/-
  The eight message types: decode results are fixed points of emit-then-decode (at `Value` level).
-/
import CosetProofs.Roundtrip.HeaderFixed
namespace Coset
open Coset.Spec

theorem optBytes_roundtrip (x : Value) (o : Option Bytes) (h : optBytes x = .ok o) : optBytesToValue o = x := by
  cases x <;> simp [optBytes, typeError] at h <;> subst h <;> rfl

/-- the two header slots of a decoded message re-emit as values that decode to the same two headers. -/
theorem slots_fixed (x0 x1 : Value) (p : ProtectedHeader) (u : Header) (hp : phFromBstr x0 = .ok p) (hu : hdrFromValue x1 = .ok u) :
    ∃ y1, headerSlots p u = .ok [x0, y1] ∧ hdrFromValue y1 = .ok u := by
  obtain ⟨y1, h1, h2⟩ := header_fixed _ _ x1 u hu
  refine ⟨y1, ?_, h2⟩
  simp [headerSlots, protected_fixed _ _ x0 p hp, h1]

theorem sign1_fixed (v : Value) (m : CoseSign1) (h : CoseSign1.fromValue v = .ok m) :
    ∃ x, m.toValue = .ok x ∧ CoseSign1.fromValue x = .ok m := by
  obtain ⟨x0, x1, x2, rfl, hp, hu, ho⟩ := (sign1_ok_iff v m).mp h
  obtain ⟨y1, hs, hy⟩ := slots_fixed x0 x1 _ _ hp hu
  refine ⟨.array [x0, y1, x2, .bytes m.signature], by simp [CoseSign1.toValue, hs, optBytes_roundtrip x2 _ ho], ?_⟩
  exact (sign1_ok_iff _ m).mpr ⟨x0, y1, x2, rfl, hp, hy, ho⟩

theorem mac0_fixed (v : Value) (m : CoseMac0) (h : CoseMac0.fromValue v = .ok m) :
    ∃ x, m.toValue = .ok x ∧ CoseMac0.fromValue x = .ok m := by
  obtain ⟨x0, x1, x2, rfl, hp, hu, ho⟩ := (mac0_ok_iff v m).mp h
  obtain ⟨y1, hs, hy⟩ := slots_fixed x0 x1 _ _ hp hu
  refine ⟨.array [x0, y1, x2, .bytes m.tag], by simp [CoseMac0.toValue, hs, optBytes_roundtrip x2 _ ho], ?_⟩
  exact (mac0_ok_iff _ m).mpr ⟨x0, y1, x2, rfl, hp, hy, ho⟩

theorem encrypt0_fixed (v : Value) (m : CoseEncrypt0) (h : CoseEncrypt0.fromValue v = .ok m) :
    ∃ x, m.toValue = .ok x ∧ CoseEncrypt0.fromValue x = .ok m := by
  obtain ⟨x0, x1, x2, rfl, hp, hu, ho⟩ := (encrypt0_ok_iff v m).mp h
  obtain ⟨y1, hs, hy⟩ := slots_fixed x0 x1 _ _ hp hu
  refine ⟨.array [x0, y1, x2], by simp [CoseEncrypt0.toValue, hs, optBytes_roundtrip x2 _ ho], ?_⟩
  exact (encrypt0_ok_iff _ m).mpr ⟨x0, y1, x2, rfl, hp, hy, ho⟩

/-- generic: a list decoded element-wise by `f` re-emits element-wise and decodes to the same list. -/
theorem list_fixed {α : Type} (f : Value → Res α) (g : α → Res Value) (gs : List α → Res (List Value))
    (hnil : gs [] = .ok [])
    (hcons : ∀ a as y ys, g a = .ok y → gs as = .ok ys → gs (a :: as) = .ok (y :: ys))
    (hfix : ∀ v a, f v = .ok a → ∃ y, g a = .ok y ∧ f y = .ok a) :
    ∀ (vs : List Value) (as : List α), mapRes f vs = .ok as → ∃ ys, gs as = .ok ys ∧ mapRes f ys = .ok as := by
  intro vs
  induction vs with
  | nil => intro as h; simp [mapRes] at h; subst h; exact ⟨[], hnil, rfl⟩
  | cons v vs ih =>
    intro as h
    rw [mapRes_cons_ok] at h
    obtain ⟨a, as', ha, has, rfl⟩ := h
    obtain ⟨ys, h1, h2⟩ := ih as' has
    obtain ⟨y, hy1, hy2⟩ := hfix v a ha
    exact ⟨y :: ys, hcons a as' y ys hy1 h1, by simp [mapRes, hy2, h2]⟩

theorem sign_fixed (v : Value) (m : CoseSign) (h : CoseSign.fromValue v = .ok m) :
    ∃ x, m.toValue = .ok x ∧ CoseSign.fromValue x = .ok m := by
  obtain ⟨x0, x1, x2, sigs, rfl, hp, hu, ho, hs⟩ := (sign_ok_iff v m).mp h
  obtain ⟨y1, hsl, hy⟩ := slots_fixed x0 x1 _ _ hp hu
  obtain ⟨ys, hy1, hy2⟩ := list_fixed (fun s => (sigFromValue s).mapErr .unexpectedItem) CoseSignature.toValue sigsToValues rfl
    (by intro a as y ys h1 h2; simp [sigsToValues, h1, h2])
    (by
      intro v a hv
      cases hsv : sigFromValue v with
      | ok s =>
        simp [hsv, Res.mapErr] at hv; subst hv
        obtain ⟨y, h1, h2⟩ := signature_fixed _ _ v s hsv
        exact ⟨y, h1, by simp only [sigFromValue]; rw [h2]; rfl⟩
      | err e => simp [hsv, Res.mapErr] at hv
      | panic q => simp [hsv, Res.mapErr] at hv) sigs m.signatures hs
  refine ⟨.array [x0, y1, x2, .array ys], by simp [CoseSign.toValue, hsl, hy1, optBytes_roundtrip x2 _ ho], ?_⟩
  exact (sign_ok_iff _ m).mpr ⟨x0, y1, x2, ys, rfl, hp, hy, ho, hy2⟩

theorem sizeL_mem (x : Value) : ∀ xs : List Value, x ∈ xs → x.size ≤ Value.sizeL xs := by
  intro xs
  induction xs with
  | nil => intro h; cases h
  | cons y ys ih =>
    intro h
    simp only [Value.sizeL]
    rcases List.mem_cons.mp h with rfl | h'
    · omega
    · have := ih h'; omega

/-- element-wise version with a per-element side condition carried by membership. -/
theorem list_fixed_mem {α : Type} (f : Value → Res α) (g : α → Res Value) (gs : List α → Res (List Value)) (f' : Value → Res α)
    (hnil : gs [] = .ok [])
    (hcons : ∀ a as y ys, g a = .ok y → gs as = .ok ys → gs (a :: as) = .ok (y :: ys))
    (Q : Value → Prop)
    (hfix : ∀ v a, f v = .ok a → ∃ y, g a = .ok y ∧ Q y) :
    ∀ (vs : List Value) (as : List α), mapRes f vs = .ok as → ∃ ys, gs as = .ok ys ∧ ys.length = as.length ∧ (∀ y ∈ ys, Q y) ∧
      ((∀ y a, Q y → g a = .ok y → f' y = .ok a) → mapRes f' ys = .ok as) := by
  intro vs
  induction vs with
  | nil => intro as h; simp [mapRes] at h; subst h; exact ⟨[], hnil, rfl, by simp, fun _ => rfl⟩
  | cons v vs ih =>
    intro as h
    rw [mapRes_cons_ok] at h
    obtain ⟨a, as', ha, has, rfl⟩ := h
    obtain ⟨ys, h1, hl, h2, h3⟩ := ih as' has
    obtain ⟨y, hy1, hy2⟩ := hfix v a ha
    refine ⟨y :: ys, hcons a as' y ys hy1 h1, by simp [hl], ?_, ?_⟩
    · intro z hz
      rcases List.mem_cons.mp hz with rfl | hz'
      · exact hy2
      · exact h2 z hz'
    · intro hq
      simp [mapRes, hq y a hy2 hy1, h3 hq]

/-- a decoded recipient re-emits as a value that decodes to the same recipient with any fuel above the emitted value's size. -/
theorem recipient_fixed : ∀ (f : Nat) (v : Value) (r : CoseRecipient), CoseRecipient.fromValue f v = .ok r →
    ∃ x, r.toValue = .ok x ∧ ∀ f', x.size < f' → CoseRecipient.fromValue f' x = .ok r := by
  intro f
  induction f with
  | zero => intro v r h; simp [CoseRecipient.fromValue] at h
  | succ f ih =>
    intro v r h
    cases r with
    | mk p u ct rcps =>
      rcases (recipient_ok_iff f v p u ct rcps).mp h with ⟨x0, x1, x2, rfl, hp, hu, ho, rfl⟩ | ⟨x0, x1, x2, rs, rfl, hp, hu, ho, hrs⟩
      · obtain ⟨y1, hs, hy⟩ := slots_fixed x0 x1 _ _ hp hu
        refine ⟨.array [x0, y1, x2], by simp [CoseRecipient.toValue, hs, optBytes_roundtrip x2 _ ho], ?_⟩
        intro f' hf'
        cases f' with
        | zero => omega
        | succ f'' => exact (recipient_ok_iff f'' _ p u ct []).mpr (Or.inl ⟨x0, y1, x2, rfl, hp, hy, ho, rfl⟩)
      · obtain ⟨y1, hs, hy⟩ := slots_fixed x0 x1 _ _ hp hu
        -- nested recipients, by the induction hypothesis
        have hnest : ∃ ys, recipientsToValues rcps = .ok ys ∧ ys.length = rcps.length ∧
            ∀ f'', Value.sizeL ys < f'' → mapRes (CoseRecipient.fromValue f'') ys = .ok rcps := by
          clear h hp hu ho hs hy
          induction rs generalizing rcps with
          | nil => simp [mapRes] at hrs; subst hrs; exact ⟨[], by simp [recipientsToValues], rfl, fun _ _ => rfl⟩
          | cons w ws ihw =>
            rw [mapRes_cons_ok] at hrs
            obtain ⟨a, as', ha, has, rfl⟩ := hrs
            obtain ⟨ys, h1, hl, h2⟩ := ihw as' has
            obtain ⟨y, hy1, hy2⟩ := ih w a ha
            refine ⟨y :: ys, by simp [recipientsToValues, hy1, h1], by simp [hl], ?_⟩
            intro f'' hf''
            simp only [Value.sizeL] at hf''
            simp [mapRes, hy2 f'' (by omega), h2 f'' (by omega)]
        obtain ⟨ys, hn1, hn2, hn3⟩ := hnest
        cases rcps with
        | nil =>
          refine ⟨.array [x0, y1, x2], by simp [CoseRecipient.toValue, hs, optBytes_roundtrip x2 _ ho], ?_⟩
          intro f' hf'
          cases f' with
          | zero => omega
          | succ f'' => exact (recipient_ok_iff f'' _ p u ct []).mpr (Or.inl ⟨x0, y1, x2, rfl, hp, hy, ho, rfl⟩)
        | cons r0 rcps' =>
          refine ⟨.array [x0, y1, x2, .array ys], by simp [CoseRecipient.toValue, hs, hn1, optBytes_roundtrip x2 _ ho], ?_⟩
          intro f' hf'
          cases f' with
          | zero => omega
          | succ f'' =>
            refine (recipient_ok_iff f'' _ p u ct _).mpr (Or.inr ⟨x0, y1, x2, ys, rfl, hp, hy, ho, hn3 f'' ?_⟩)
            simp only [Value.size, Value.sizeL] at hf'
            omega

theorem rcp_fixed (v : Value) (r : CoseRecipient) (h : rcpFromValue v = .ok r) : ∃ x, r.toValue = .ok x ∧ rcpFromValue x = .ok r := by
  obtain ⟨x, h1, h2⟩ := recipient_fixed _ v r h
  exact ⟨x, h1, h2 _ (by omega)⟩

theorem rcps_fixed (vs : List Value) (rs : List CoseRecipient) (h : mapRes rcpFromValue vs = .ok rs) :
    ∃ ys, recipientsToValues rs = .ok ys ∧ mapRes rcpFromValue ys = .ok rs :=
  list_fixed rcpFromValue CoseRecipient.toValue recipientsToValues (by simp [recipientsToValues])
    (by intro a as y ys h1 h2; simp [recipientsToValues, h1, h2]) rcp_fixed vs rs h

theorem encrypt_fixed (v : Value) (m : CoseEncrypt) (h : CoseEncrypt.fromValue v = .ok m) :
    ∃ x, m.toValue = .ok x ∧ CoseEncrypt.fromValue x = .ok m := by
  obtain ⟨x0, x1, x2, rs, rfl, hp, hu, ho, hs⟩ := (encrypt_ok_iff v m).mp h
  obtain ⟨y1, hsl, hy⟩ := slots_fixed x0 x1 _ _ hp hu
  obtain ⟨ys, hy1, hy2⟩ := rcps_fixed rs _ hs
  refine ⟨.array [x0, y1, x2, .array ys], by simp [CoseEncrypt.toValue, hsl, hy1, optBytes_roundtrip x2 _ ho], ?_⟩
  exact (encrypt_ok_iff _ m).mpr ⟨x0, y1, x2, ys, rfl, hp, hy, ho, hy2⟩

theorem mac_fixed (v : Value) (m : CoseMac) (h : CoseMac.fromValue v = .ok m) :
    ∃ x, m.toValue = .ok x ∧ CoseMac.fromValue x = .ok m := by
  obtain ⟨x0, x1, x2, rs, rfl, hp, hu, ho, hs⟩ := (mac_ok_iff v m).mp h
  obtain ⟨y1, hsl, hy⟩ := slots_fixed x0 x1 _ _ hp hu
  obtain ⟨ys, hy1, hy2⟩ := rcps_fixed rs _ hs
  refine ⟨.array [x0, y1, x2, .bytes m.tag, .array ys], by simp [CoseMac.toValue, hsl, hy1, optBytes_roundtrip x2 _ ho], ?_⟩
  exact (mac_ok_iff _ m).mpr ⟨x0, y1, x2, ys, rfl, hp, hy, ho, hy2⟩

end Coset
