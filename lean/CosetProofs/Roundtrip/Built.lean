/-
  Encode-then-decode for *built* values (C11): a well-formed in-memory header / signature / protected header encodes, and decoding the
  result gives the same value up to the byte strings the encoder assigned to protected headers.
-/
import CosetProofs.Roundtrip.HeaderFixed
import CosetProofs.Fuel
import CosetProofs.Cbor.Roundtrip
namespace Coset
open Coset.Spec Coset.Cbor

mutual
/-- well-formed at nesting budget `d`: what the setters and decoders can produce and the decoder will take back. -/
def Header.WF : Nat → Header → Prop
  | d, .mk alg crit ct _ iv piv cs rest => TypedGood alg crit ct iv piv ∧ RestGood rest ∧ (cs ≠ [] → d ≠ 0) ∧ sigsWF (d - 1) cs
def CoseSignature.WF : Nat → CoseSignature → Prop
  | d, .mk p u _ => ProtectedHeader.WF d p ∧ Header.WF d u
/-- a protected header either carries bytes it was decoded from (and is then exactly their decoding), or was built: then its header is
    well-formed and, unless empty, its map is one the serializer represents faithfully. -/
def ProtectedHeader.WF : Nat → ProtectedHeader → Prop
  | d, .mk (some data) h => ProtectedHeader.fromBstr (3 * d + 2) d (.bytes data) = .ok (.mk (some data) h)
  | d, .mk none h => Header.WF d h ∧ (h.isEmpty = true ∨ ∃ x, Header.toValue h = .ok x ∧ Normal x ∧ depthOf x ≤ recursionLimit)
def sigsWF : Nat → List CoseSignature → Prop
  | _, [] => True
  | d, s :: ss => CoseSignature.WF d s ∧ sigsWF d ss
end

mutual
/-- forget which bytes protected headers carry (the parsed content stays). -/
def Header.erase : Header → Header
  | .mk a c ct k i p cs r => .mk a c ct k i p (eraseSigs cs) r
def CoseSignature.erase : CoseSignature → CoseSignature
  | .mk p u s => .mk (ProtectedHeader.erase p) (Header.erase u) s
def ProtectedHeader.erase : ProtectedHeader → ProtectedHeader
  | .mk _ h => .mk none (Header.erase h)
def eraseSigs : List CoseSignature → List CoseSignature
  | [] => []
  | s :: ss => CoseSignature.erase s :: eraseSigs ss
end

/-- the decoders at exactly sufficient fuel. -/
abbrev Hd (d : Nat) := Header.fromValue (3 * d + 1) d
abbrev Pd (d : Nat) := ProtectedHeader.fromBstr (3 * d + 2) d
abbrev Sd (d : Nat) := CoseSignature.fromValue (3 * d + 3) d

/-- the decoded signature carries the protected bytes the built one emits, and the same signature bytes. -/
def SigSame (s' s : CoseSignature) : Prop :=
  ProtectedHeader.cborBstr s'.protected_ = ProtectedHeader.cborBstr s.protected_ ∧ s'.signature = s.signature

def sigsSame : List CoseSignature → List CoseSignature → Prop
  | [], [] => True
  | s' :: ss', s :: ss => SigSame s' s ∧ sigsSame ss' ss
  | _, _ => False

theorem sigsSame_get : ∀ (ss' ss : List CoseSignature), sigsSame ss' ss → ∀ (i : Nat) (s : CoseSignature), ss[i]? = some s → ∃ s', ss'[i]? = some s' ∧ SigSame s' s := by
  intro ss'
  induction ss' with
  | nil => intro ss h i s hs; cases ss <;> simp [sigsSame] at h; simp at hs
  | cons a as ih =>
    intro ss h i s hs
    cases ss with
    | nil => simp [sigsSame] at h
    | cons c cs =>
      simp only [sigsSame] at h
      cases i with
      | zero => simp at hs; subst hs; exact ⟨a, by simp, h.1⟩
      | succ j => simp at hs ⊢; exact ih cs h.2 j s hs

theorem cborBstr_of_orig (p : ProtectedHeader) (b : Bytes) (h : p.originalData = some b) : ProtectedHeader.cborBstr p = .ok (.bytes b) := by
  cases p with
  | mk o hd => simp only [ProtectedHeader.originalData] at h; subst h; rfl

def HdrRT (d : Nat) : Prop := ∀ h, Header.WF d h → ∃ x h', Header.toValue h = .ok x ∧ Hd d x = .ok h' ∧ Header.erase h' = Header.erase h
def PhRT (d : Nat) : Prop := ∀ p, ProtectedHeader.WF d p →
  ∃ b p', ProtectedHeader.cborBstr p = .ok (.bytes b) ∧ Pd d (.bytes b) = .ok p' ∧ ProtectedHeader.erase p' = ProtectedHeader.erase p ∧
    p'.originalData = some b
def SigRT (d : Nat) : Prop := ∀ s, CoseSignature.WF d s →
  ∃ b tl s', CoseSignature.toValue s = .ok (.array (.bytes b :: tl)) ∧ Sd d (.array (.bytes b :: tl)) = .ok s' ∧ CoseSignature.erase s' = CoseSignature.erase s ∧
    SigSame s' s

theorem enc_ne_nil (v : Value) : enc v ≠ [] := by
  have := nsize_le v
  intro h
  cases v <;> simp [nsize] at this <;> rw [h] at this <;> simp at this

theorem isEmpty_default (h : Header) (he : h.isEmpty = true) : h = Header.default := by
  cases h with
  | mk a c ct k i p cs r =>
    simp only [Header.isEmpty, Header.alg, Header.crit, Header.contentType, Header.keyId, Header.iv, Header.partialIv, Header.counterSignatures, Header.rest,
      Bool.and_eq_true, Option.isNone_iff_eq_none, List.isEmpty_iff] at he
    obtain ⟨⟨⟨⟨⟨⟨⟨h1, h2⟩, h3⟩, h4⟩, h5⟩, h6⟩, h7⟩, h8⟩ := he
    subst h1 h2 h3 h4 h5 h6 h7 h8; rfl

theorem ph_rt (d : Nat) (hH : HdrRT d) : PhRT d := by
  intro p hp
  cases p with
  | mk orig h =>
    cases orig with
    | some data =>
      simp only [ProtectedHeader.WF] at hp
      exact ⟨data, _, rfl, hp, rfl, rfl⟩
    | none =>
      simp only [ProtectedHeader.WF] at hp
      obtain ⟨hw, hf⟩ := hp
      by_cases he : h.isEmpty = true
      · have := isEmpty_default h he; subst this
        refine ⟨[], .mk (some []) Header.default, by simp [ProtectedHeader.cborBstr, he], ?_, rfl, rfl⟩
        simp [Pd, ProtectedHeader.fromBstr, tryAsBytes]
      · rcases hf with hf | ⟨x, hx, hn, hdp⟩
        · exact absurd hf he
        · obtain ⟨x', h', h1, h2, h3⟩ := hH h hw
          rw [hx] at h1; simp at h1; subst h1
          refine ⟨enc x, .mk (some (enc x)) h', by simp [ProtectedHeader.cborBstr, he, hx], ?_, by simp [ProtectedHeader.erase, h3], rfl⟩
          have hne : (enc x).isEmpty = false := by
            cases hh : enc x with
            | nil => exact absurd hh (enc_ne_nil x)
            | cons _ _ => rfl
          simp only [Pd, ProtectedHeader.fromBstr, tryAsBytes, hne, Bool.false_eq_true, if_false, readToValue_enc x hn hdp]
          simp only [Hd] at h2
          rw [h2]

theorem sig_rt (d : Nat) (hH : HdrRT d) (hP : PhRT d) : SigRT d := by
  intro s hs
  cases s with
  | mk p u sg =>
    simp only [CoseSignature.WF] at hs
    obtain ⟨b, p', h1, h2, h3, h4⟩ := hP p hs.1
    obtain ⟨x, u', g1, g2, g3⟩ := hH u hs.2
    refine ⟨b, [x, .bytes sg], .mk p' u' sg, by simp [CoseSignature.toValue, h1, g1], ?_, by simp [CoseSignature.erase, h3, g3],
      by simp [SigSame, CoseSignature.protected_, CoseSignature.signature, cborBstr_of_orig p' b h4, h1]⟩
    have e1 : Header.fromValue (3 * d + 2) d x = .ok u' := by
      rw [(fuel_independent d).1 (3 * d + 2) x (by omega)]; exact g2
    exact (signature_ok_iff (3 * d + 2) d _ (.mk p' u' sg)).mpr ⟨.bytes b, x, rfl, h2, e1⟩

/-- a list of well-formed signatures encodes element-wise and decodes to an equivalent list. -/
theorem sigs_rt (d : Nat) (hS : SigRT d) : ∀ ss, sigsWF d ss →
    ∃ vs ss', sigsToValues ss = .ok vs ∧ mapRes (Sd d) vs = .ok ss' ∧ eraseSigs ss' = eraseSigs ss ∧ vs.length = ss.length ∧ ss'.length = ss.length ∧
      (∀ x ∈ vs, ∃ b tl, x = .array (.bytes b :: tl)) ∧ sigsSame ss' ss := by
  intro ss
  induction ss with
  | nil => intro _; exact ⟨[], [], rfl, rfl, rfl, rfl, rfl, by simp, trivial⟩
  | cons s ss ih =>
    intro hw
    simp only [sigsWF] at hw
    obtain ⟨vs, ss', h1, h2, h3, h4, h5, h6, h7⟩ := ih hw.2
    obtain ⟨b, tl, s', g1, g2, g3, g4⟩ := hS s hw.1
    refine ⟨.array (.bytes b :: tl) :: vs, s' :: ss', by simp [sigsToValues, g1, h1], by simp [mapRes, g2, h2], by simp [eraseSigs, g3, h3],
      by simp [h4], by simp [h5], ?_, ⟨g4, h7⟩⟩
    intro y hy
    rcases List.mem_cons.mp hy with rfl | hy'
    · exact ⟨b, tl, rfl⟩
    · exact h6 y hy'

theorem hdr_rt (d : Nat) (hS : d ≠ 0 → SigRT (d - 1)) : HdrRT d := by
  intro h hw
  cases h with
  | mk alg crit ct kid iv piv cs rest =>
    simp only [Header.WF] at hw
    obtain ⟨hg, hr, hd, hcs⟩ := hw
    -- the counter-signature entry
    have hcsv : ∃ ov cs', csValue cs = .ok ov ∧
        ArmOk d (CoseSignature.fromValue (3 * d) (d - 1)) ov cs' ∧
        eraseSigs cs' = eraseSigs cs := by
      cases cs with
      | nil => exact ⟨none, [], rfl, rfl, rfl⟩
      | cons s0 ss0 =>
        have hd0 : d ≠ 0 := hd (by simp)
        have hsf : CoseSignature.fromValue (3 * d) (d - 1) = Sd (d - 1) := by
          have : 3 * d = 3 * (d - 1) + 3 := by omega
          simp only [Sd, this]
        obtain ⟨vs, ss', h1, h2, h3, h4, h5, h6, _⟩ := sigs_rt (d - 1) (hS hd0) (s0 :: ss0) hcs
        rw [hsf]
        match ss0, vs, ss', h1, h2, h3, h4, h5, h6 with
        | [], [x], [s'], h1, h2, h3, _, _, h6 =>
          obtain ⟨b, tl, rfl⟩ := h6 x (by simp)
          simp only [sigsToValues] at h1
          cases ht : CoseSignature.toValue s0 with
          | ok y =>
            simp [ht] at h1; subst h1
            rw [mapRes_cons_ok] at h2
            obtain ⟨y, ys, hy, _, hyy⟩ := h2
            simp at hyy; obtain ⟨rfl, _⟩ := hyy
            refine ⟨some (.array (.bytes b :: tl)), [s'], by simp [csValue, ht], ?_, h3⟩
            simp [ArmOk, counterSigArm, tryAsArray, hd0, vindex, hy]
          | err e => simp [ht] at h1
          | panic q => simp [ht] at h1
        | s2 :: ss2, x :: vs', ss', h1, h2, h3, _, _, h6 =>
          obtain ⟨b, tl, rfl⟩ := h6 x (by simp)
          refine ⟨some (.array (.array (.bytes b :: tl) :: vs')), ss', by simp [csValue, h1], ?_, h3⟩
          simp [ArmOk, counterSigArm, tryAsArray, hd0, vindex, h2]
        | [], [], _, _, _, _, h4, _, _ => simp at h4
        | [], _ :: _ :: _, _, _, _, _, h4, _, _ => simp at h4
        | [], [_], [], _, _, _, _, h5, _ => simp at h5
        | [], [_], _ :: _ :: _, _, _, _, _, h5, _ => simp at h5
        | _ :: _, [], _, _, _, _, h4, _, _ => simp at h4
    obtain ⟨ov, cs', hv, harm, her⟩ := hcsv
    refine ⟨_, .mk alg crit ct kid iv piv cs' rest, Header.toValue_entries _ _ _ _ _ _ _ _ ov hv hr, ?_, by simp [Header.erase, her]⟩
    simp only [Hd, Header.fromValue, tryAsMap, Nat.add_sub_cancel]
    exact headerLoop_entries d _ _ _ _ _ _ _ cs' _ ov hg harm hr

/-- all three, at every nesting budget. -/
theorem built_rt : ∀ d, HdrRT d ∧ PhRT d ∧ SigRT d := by
  intro d
  induction d with
  | zero =>
    have hH := hdr_rt 0 (fun h => absurd rfl h)
    have hP := ph_rt 0 hH
    exact ⟨hH, hP, sig_rt 0 hH hP⟩
  | succ d ih =>
    have hH := hdr_rt (d + 1) (fun _ => by simpa using ih.2.2)
    have hP := ph_rt (d + 1) hH
    exact ⟨hH, hP, sig_rt (d + 1) hH hP⟩

end Coset
