/-
  Round trips of the label types: `from_cbor_value (to_cbor_value l) = l` for labels as produced by decoding or the builders.
-/
import CosetProofs.ClaimsLoop
namespace Coset

/-- registry-restricted labels as produced by decoding or the builders. -/
def GoodReg (R : Registry) : RegLabel → Prop
  | .assigned k => k < R.rows.length ∧ i64Min ≤ R.toI64 k ∧ R.toI64 k ≤ i64Max
  | .text _ => True

def GoodRegPriv (R : Registry) : RegLabelPriv → Prop
  | .assigned k => k < R.rows.length ∧ i64Min ≤ R.toI64 k ∧ R.toI64 k ≤ i64Max
  | .privateUse i => R.fromI64 i = none ∧ R.private? i = true ∧ i64Min ≤ i ∧ i ≤ i64Max
  | .text _ => True

theorem RegLabel.roundtrip (R : Registry) (hnd : (R.rows.map (·.2)).Nodup) (l : RegLabel) (h : GoodReg R l) :
    RegLabel.fromValue R (RegLabel.value R l) = .ok l := by
  cases l with
  | assigned k =>
    obtain ⟨hk, h1, h2⟩ := h
    simp [RegLabel.value, RegLabel.fromValue, narrowI64, h1, h2, Coset.Props.C17.from_to R hnd k hk]
  | text t => rfl

theorem RegLabelPriv.roundtrip (R : Registry) (hnd : (R.rows.map (·.2)).Nodup) (l : RegLabelPriv) (h : GoodRegPriv R l) :
    RegLabelPriv.fromValue R (RegLabelPriv.value R l) = .ok l := by
  cases l with
  | assigned k =>
    obtain ⟨hk, h1, h2⟩ := h
    simp [RegLabelPriv.value, RegLabelPriv.fromValue, narrowI64, h1, h2, Coset.Props.C17.from_to R hnd k hk]
  | privateUse i =>
    obtain ⟨hf, hp, h1, h2⟩ := h
    simp [RegLabelPriv.value, RegLabelPriv.fromValue, narrowI64, h1, h2, hf, hp]
  | text t => rfl

theorem RegLabel.toValue_eq (R : Registry) (l : RegLabel) : RegLabel.toValue R l = .ok (RegLabel.value R l) := by cases l <;> rfl
theorem RegLabelPriv.toValue_eq (R : Registry) (l : RegLabelPriv) : RegLabelPriv.toValue R l = .ok (RegLabelPriv.value R l) := by cases l <;> rfl

/-- what decoding produces is good. -/
theorem RegLabel.fromValue_good (R : Registry) (v : Value) (l : RegLabel) (h : RegLabel.fromValue R v = .ok l) : GoodReg R l := by
  cases v with
  | int i =>
    simp only [RegLabel.fromValue] at h
    by_cases hr : i64Min ≤ i ∧ i ≤ i64Max
    · simp only [narrowI64, hr, and_self, if_true] at h
      cases hf : R.fromI64 i with
      | some k =>
        simp [hf] at h; subst h
        have ht := Coset.Props.C17.to_from R i k hf
        unfold Registry.fromI64 at hf
        rw [List.findIdx?_eq_some_iff_getElem] at hf
        exact ⟨hf.1, by rw [ht]; exact hr.1, by rw [ht]; exact hr.2⟩
      | none => simp [hf] at h
    · simp [narrowI64, hr] at h
  | text t => simp [RegLabel.fromValue] at h; subst h; trivial
  | _ => simp [RegLabel.fromValue, typeError] at h

theorem RegLabelPriv.fromValue_good (R : Registry) (v : Value) (l : RegLabelPriv) (h : RegLabelPriv.fromValue R v = .ok l) : GoodRegPriv R l := by
  cases v with
  | int i =>
    simp only [RegLabelPriv.fromValue] at h
    by_cases hr : i64Min ≤ i ∧ i ≤ i64Max
    · simp only [narrowI64, hr, and_self, if_true] at h
      cases hf : R.fromI64 i with
      | some k =>
        simp [hf] at h; subst h
        have ht := Coset.Props.C17.to_from R i k hf
        unfold Registry.fromI64 at hf
        rw [List.findIdx?_eq_some_iff_getElem] at hf
        exact ⟨hf.1, by rw [ht]; exact hr.1, by rw [ht]; exact hr.2⟩
      | none =>
        simp only [hf] at h
        by_cases hp : R.private? i = true
        · simp [hp] at h; subst h; exact ⟨hf, hp, hr.1, hr.2⟩
        · simp [hp] at h
    · simp [narrowI64, hr] at h
  | text t => simp [RegLabelPriv.fromValue] at h; subst h; trivial
  | _ => simp [RegLabelPriv.fromValue, typeError] at h

theorem mapRes_roundtrip {α : Type} (f : Value → Res α) (g : α → Value) (P : α → Prop) (hfg : ∀ x, P x → f (g x) = .ok x) :
    ∀ xs : List α, (∀ x ∈ xs, P x) → mapRes f (xs.map g) = .ok xs := by
  intro xs
  induction xs with
  | nil => intro _; rfl
  | cons x xs ih =>
    intro h
    simp only [List.map_cons, mapRes, hfg x (h x (by simp)), ih (fun y hy => h y (by simp [hy]))]

theorem mapRes_good {α : Type} (f : Value → Res α) (P : α → Prop) (hf : ∀ v x, f v = .ok x → P x) :
    ∀ (vs : List Value) (xs : List α), mapRes f vs = .ok xs → ∀ x ∈ xs, P x := by
  intro vs
  induction vs with
  | nil => intro xs h; simp [mapRes] at h; subst h; simp
  | cons v vs ih =>
    intro xs h
    rw [mapRes_cons_ok] at h
    obtain ⟨y, ys, hy, hys, rfl⟩ := h
    intro x hx
    rcases List.mem_cons.mp hx with rfl | hx'
    · exact hf v _ hy
    · exact ih ys hys x hx'

end Coset
