/-
  What a well-formed *built* value emits is a value the serializer represents faithfully — derived from conditions on the fields,
  not assumed of the emitted value.  The conditions (`…N`) are what Rust's types already guarantee (a `String` is valid UTF-8, a
  `Vec` length fits `u64`, an `i64` is an `i64`) plus, for the uninterpreted `Value`s a caller puts into extra parameters, that they
  are themselves `Normal` and shallow enough for the parser's recursion budget.
-/
import CosetProofs.Roundtrip.BuiltMessages
import CosetProofs.Roundtrip.BuiltOther
import CosetProofs.Roundtrip.TransferKeyClaims
namespace Coset
open Coset.Spec Coset.Cbor

/-- a text held in a Rust `String`: valid UTF-8, length a `u64`. -/
def TextOK (t : Bytes) : Prop := Utf8.valid t = true ∧ t.length < 2 ^ 64

def LabelN : Label → Prop
  | .int i => i64Min ≤ i ∧ i ≤ i64Max
  | .text t => TextOK t
def RegN (R : Registry) : RegLabel → Prop
  | .assigned k => i64Min ≤ R.toI64 k ∧ R.toI64 k ≤ i64Max
  | .text t => TextOK t
def RegPrivN (R : Registry) : RegLabelPriv → Prop
  | .assigned k => i64Min ≤ R.toI64 k ∧ R.toI64 k ≤ i64Max
  | .privateUse i => i64Min ≤ i ∧ i ≤ i64Max
  | .text t => TextOK t

theorem normal_int_i64 (i : Int) (h : i64Min ≤ i ∧ i ≤ i64Max) : Normal (.int i) := by
  simp only [Normal]; unfold i64Min i64Max at h; omega

theorem normal_labelValue (l : Label) (h : LabelN l) : Normal (labelValue l) ∧ depthOf (labelValue l) = 0 := by
  cases l with
  | int i => exact ⟨normal_int_i64 i h, by simp [labelValue, depthOf]⟩
  | text t => exact ⟨by simp only [labelValue, Normal]; exact ⟨h.2, h.1⟩, by simp [labelValue, depthOf]⟩

theorem normal_regValue (R : Registry) (l : RegLabel) (h : RegN R l) : Normal (RegLabel.value R l) ∧ depthOf (RegLabel.value R l) = 0 := by
  cases l with
  | assigned k => exact ⟨normal_int_i64 _ h, by simp [RegLabel.value, depthOf]⟩
  | text t => exact ⟨by simp only [RegLabel.value, Normal]; exact ⟨h.2, h.1⟩, by simp [RegLabel.value, depthOf]⟩

theorem normal_regPrivValue (R : Registry) (l : RegLabelPriv) (h : RegPrivN R l) :
    Normal (RegLabelPriv.value R l) ∧ depthOf (RegLabelPriv.value R l) = 0 := by
  cases l with
  | assigned k => exact ⟨normal_int_i64 _ h, by simp [RegLabelPriv.value, depthOf]⟩
  | privateUse i => exact ⟨normal_int_i64 _ h, by simp [RegLabelPriv.value, depthOf]⟩
  | text t => exact ⟨by simp only [RegLabelPriv.value, Normal]; exact ⟨h.2, h.1⟩, by simp [RegLabelPriv.value, depthOf]⟩

/-- the six simple typed fields of a header; `k` is the nesting budget left for the values of the header map. -/
structure TypedN (k : Nat) (alg : Option RegLabelPriv) (crit : List RegLabel) (ct : Option RegLabel) (kid iv piv : Bytes) : Prop where
  alg : ∀ a, alg = some a → RegPrivN Reg.algorithm a
  crit : (∀ l ∈ crit, RegN Reg.headerParameter l) ∧ crit.length < 2 ^ 64 ∧ (crit ≠ [] → 1 ≤ k)
  ct : ∀ c, ct = some c → RegN Reg.coapContentFormat c
  lens : kid.length < 2 ^ 64 ∧ iv.length < 2 ^ 64 ∧ piv.length < 2 ^ 64

/-- the extra parameters: labels as above, values `Normal` and within the budget; room for the typed entries in the map's length. -/
def RestN (k : Nat) (rest : List (Label × Value)) : Prop :=
  rest.length + 8 < 2 ^ 64 ∧ ∀ p ∈ rest, LabelN p.1 ∧ Normal p.2 ∧ depthOf p.2 ≤ k

def EntryN (k : Nat) (e : Label × Value) : Prop := Normal (labelValue e.1) ∧ depthOf (labelValue e.1) ≤ k ∧ Normal e.2 ∧ depthOf e.2 ≤ k

theorem typedL_entries (k : Nat) (alg crit ct kid iv piv) (h : TypedN k alg crit ct kid iv piv) :
    ∀ e ∈ typedL alg crit ct kid iv piv, EntryN k e := by
  intro e he
  have lab : ∀ n : Int, n = 1 ∨ n = 2 ∨ n = 3 ∨ n = 4 ∨ n = 5 ∨ n = 6 → Normal (labelValue (.int n)) ∧ depthOf (labelValue (.int n)) ≤ k := by
    intro n hn
    exact ⟨by simp only [labelValue, Normal]; omega, by simp [labelValue, depthOf]⟩
  rcases typedL_mem _ _ _ _ _ _ e he with ⟨a, ha, rfl⟩ | ⟨hc, rfl⟩ | ⟨c, hc, rfl⟩ | ⟨hc, rfl⟩ | ⟨hc, rfl⟩ | ⟨hc, rfl⟩
  · have := normal_regPrivValue _ a (h.alg a ha)
    exact ⟨(lab 1 (by simp)).1, (lab 1 (by simp)).2, this.1, by rw [this.2]; omega⟩
  · refine ⟨(lab 2 (by simp)).1, (lab 2 (by simp)).2, ?_, ?_⟩
    · simp only [Normal]
      refine ⟨by simp; exact h.crit.2.1, normalL_of _ ?_⟩
      intro y hy
      simp only [List.mem_map] at hy
      obtain ⟨l, hl, rfl⟩ := hy
      exact (normal_regValue _ l (h.crit.1 l hl)).1
    · rw [depthOf_array]
      have : depthOfL (crit.map (RegLabel.value Reg.headerParameter)) ≤ 0 := by
        apply depthOfL_le
        intro y hy
        simp only [List.mem_map] at hy
        obtain ⟨l, hl, rfl⟩ := hy
        rw [(normal_regValue _ l (h.crit.1 l hl)).2]; exact Nat.le_refl _
      have := h.crit.2.2 hc
      omega
  · have := normal_regValue _ c (h.ct c hc)
    exact ⟨(lab 3 (by simp)).1, (lab 3 (by simp)).2, this.1, by rw [this.2]; omega⟩
  · exact ⟨(lab 4 (by simp)).1, (lab 4 (by simp)).2, by simp only [Normal]; exact h.lens.1, by simp [depthOf]⟩
  · exact ⟨(lab 5 (by simp)).1, (lab 5 (by simp)).2, by simp only [Normal]; exact h.lens.2.1, by simp [depthOf]⟩
  · exact ⟨(lab 6 (by simp)).1, (lab 6 (by simp)).2, by simp only [Normal]; exact h.lens.2.2, by simp [depthOf]⟩

mutual
/-- field-level normality of a header whose map's values may nest `k` levels. -/
def Header.NF : Nat → Header → Prop
  | k, .mk alg crit ct kid iv piv cs rest => TypedN k alg crit ct kid iv piv ∧ RestN k rest ∧ csNF k cs
/-- the counter-signature entry: nothing, one signature inline (budget `k`), or an array of them (budget `k - 1` each). -/
def csNF : Nat → List CoseSignature → Prop
  | _, [] => True
  | k, [s] => CoseSignature.NF k s
  | k, s :: s2 :: ss => 1 ≤ k ∧ (s :: s2 :: ss).length < 2 ^ 64 ∧ CoseSignature.NF (k - 1) s ∧ CoseSignature.NF (k - 1) s2 ∧ sigsNF (k - 1) ss
def sigsNF : Nat → List CoseSignature → Prop
  | _, [] => True
  | j, s :: ss => CoseSignature.NF j s ∧ sigsNF j ss
/-- a signature emitted with nesting budget `j` for the three-element array. -/
def CoseSignature.NF : Nat → CoseSignature → Prop
  | j, .mk p u sg => 2 ≤ j ∧ ProtectedHeader.NF p ∧ Header.NF (j - 2) u ∧ sg.length < 2 ^ 64
/-- a protected header emits a byte string: the stored bytes, the empty string, or the serialised map — of `u64` length. -/
def ProtectedHeader.NF : ProtectedHeader → Prop
  | .mk (some d) _ => d.length < 2 ^ 64
  | .mk none h => h.isEmpty = true ∨ ∃ x, Header.toValue h = .ok x ∧ (enc x).length < 2 ^ 64
end

theorem ph_emit_normal (p : ProtectedHeader) (hn : ProtectedHeader.NF p) (b : Value) (hb : ProtectedHeader.cborBstr p = .ok b) :
    Normal b ∧ depthOf b = 0 := by
  cases p with
  | mk orig h =>
    cases orig with
    | some d =>
      simp only [ProtectedHeader.NF] at hn
      simp [ProtectedHeader.cborBstr] at hb; subst hb
      exact ⟨by simp only [Normal]; exact hn, by simp [depthOf]⟩
    | none =>
      simp only [ProtectedHeader.NF] at hn
      simp only [ProtectedHeader.cborBstr] at hb
      by_cases he : h.isEmpty = true
      · simp [he] at hb; subst hb; exact ⟨by simp [Normal], by simp [depthOf]⟩
      · simp only [he, Bool.false_eq_true, if_false] at hb
        rcases hn with hn | ⟨x, hx, hl⟩
        · exact absurd hn he
        · simp [hx] at hb; subst hb
          exact ⟨by simp only [Normal]; exact hl, by simp [depthOf]⟩

def HdrEmitN (d : Nat) : Prop :=
  ∀ k h, Header.WF d h → Header.NF k h → ∃ x, Header.toValue h = .ok x ∧ Normal x ∧ depthOf x ≤ k + 1
def SigEmitN (d : Nat) : Prop :=
  ∀ j s, CoseSignature.WF d s → CoseSignature.NF j s → ∃ x, CoseSignature.toValue s = .ok x ∧ Normal x ∧ depthOf x ≤ j

theorem sig_emitN (d : Nat) (hH : HdrEmitN d) : SigEmitN d := by
  intro j s hw hn
  cases s with
  | mk p u sg =>
    simp only [CoseSignature.WF] at hw
    simp only [CoseSignature.NF] at hn
    obtain ⟨hj, hpn, hun, hsg⟩ := hn
    obtain ⟨x, hx, hxn, hxd⟩ := hH (j - 2) u hw.2 hun
    obtain ⟨b, p', hb, _, _, _⟩ := (built_rt d).2.1 p hw.1
    obtain ⟨hbn, hbd⟩ := ph_emit_normal p hpn _ hb
    refine ⟨.array [.bytes b, x, .bytes sg], by simp [CoseSignature.toValue, hb, hx], ?_, ?_⟩
    · simp only [Normal, NormalL]; exact ⟨by simp, hbn, hxn, hsg, trivial⟩
    · simp only [depthOf, depthOfL] at hbd ⊢; omega

theorem sigs_emitN (d j : Nat) (hS : SigEmitN d) : ∀ ss, sigsWF d ss → sigsNF j ss →
    ∃ vs, sigsToValues ss = .ok vs ∧ vs.length = ss.length ∧ (∀ y ∈ vs, Normal y ∧ depthOf y ≤ j) := by
  intro ss
  induction ss with
  | nil => intro _ _; exact ⟨[], rfl, rfl, by simp⟩
  | cons s ss ih =>
    intro hw hn
    simp only [sigsWF] at hw
    simp only [sigsNF] at hn
    obtain ⟨vs, h1, h2, h3⟩ := ih hw.2 hn.2
    obtain ⟨x, hx, hxn, hxd⟩ := hS j s hw.1 hn.1
    refine ⟨x :: vs, by simp [sigsToValues, hx, h1], by simp [h2], ?_⟩
    intro y hy
    rcases List.mem_cons.mp hy with rfl | hy'
    · exact ⟨hxn, hxd⟩
    · exact h3 y hy'

theorem hdr_emitN (d : Nat) (hS : d ≠ 0 → SigEmitN (d - 1)) : HdrEmitN d := by
  intro k h hw hn
  cases h with
  | mk alg crit ct kid iv piv cs rest =>
    simp only [Header.WF] at hw
    obtain ⟨hg, hr, hd, hcs⟩ := hw
    simp only [Header.NF] at hn
    obtain ⟨htn, hrn, hcn⟩ := hn
    -- the counter-signature entry
    have hcsv : ∃ ov, csValue cs = .ok ov ∧ ∀ e ∈ csL ov, EntryN k e := by
      cases cs with
      | nil => exact ⟨none, rfl, by simp [csL]⟩
      | cons s0 ss0 =>
        have hd0 : d ≠ 0 := hd (by simp)
        have l7 : Normal (labelValue (.int 7)) ∧ depthOf (labelValue (.int 7)) ≤ k :=
          ⟨by simp [labelValue, Normal], by simp [labelValue, depthOf]⟩
        cases ss0 with
        | nil =>
          simp only [csNF] at hcn
          simp only [sigsWF] at hcs
          obtain ⟨x, hx, hxn, hxd⟩ := hS hd0 k s0 hcs.1 hcn
          exact ⟨some x, by simp [csValue, hx], by intro e he; simp [csL] at he; subst he; exact ⟨l7.1, l7.2, hxn, hxd⟩⟩
        | cons s1 ss1 =>
          simp only [csNF] at hcn
          obtain ⟨hk1, hlen, n0, n1, nss⟩ := hcn
          obtain ⟨vs, h1, h2, h3⟩ := sigs_emitN (d - 1) (k - 1) (hS hd0) (s0 :: s1 :: ss1) hcs (by simp only [sigsNF]; exact ⟨n0, n1, nss⟩)
          refine ⟨some (.array vs), by simp [csValue, h1], ?_⟩
          intro e he; simp [csL] at he; subst he
          refine ⟨l7.1, l7.2, ?_, ?_⟩
          · simp only [Normal]; exact ⟨by rw [h2]; exact hlen, normalL_of vs (fun y hy => (h3 y hy).1)⟩
          · rw [depthOf_array]
            have := depthOfL_le (k - 1) vs (fun y hy => (h3 y hy).2)
            omega
    obtain ⟨ov, hv, hce⟩ := hcsv
    refine ⟨_, Header.toValue_entries _ _ _ _ _ _ _ _ ov hv hr, ?_, ?_⟩
    · simp only [Normal]
      constructor
      · have h1 := typedL_length_le alg crit ct kid iv piv
        have h2 : (csL ov).length ≤ 1 := by cases ov <;> simp [csL]
        have := hrn.1
        simp only [pairsToValue, entries, List.length_map, List.length_append]
        omega
      · apply normalP_of
        intro q hq
        simp only [pairsToValue, entries, List.mem_map, List.mem_append] at hq
        obtain ⟨e, he, rfl⟩ := hq
        rcases he with (he | he) | he
        · have := typedL_entries k _ _ _ _ _ _ htn e he; exact ⟨this.1, this.2.2.1⟩
        · have := hce e he; exact ⟨this.1, this.2.2.1⟩
        · have := hrn.2 e he; exact ⟨(normal_labelValue e.1 this.1).1, this.2.1⟩
    · rw [depthOf_map]
      have : depthOfP (pairsToValue (entries alg crit ct kid iv piv ov rest)) ≤ k := by
        apply depthOfP_le
        intro q hq
        simp only [pairsToValue, entries, List.mem_map, List.mem_append] at hq
        obtain ⟨e, he, rfl⟩ := hq
        rcases he with (he | he) | he
        · have := typedL_entries k _ _ _ _ _ _ htn e he; exact ⟨this.2.1, this.2.2.2⟩
        · have := hce e he; exact ⟨this.2.1, this.2.2.2⟩
        · have := hrn.2 e he; exact ⟨by rw [(normal_labelValue e.1 this.1).2]; omega, this.2.2⟩
      omega

/-- headers and signatures at every nesting budget. -/
theorem emitN_all : ∀ d, HdrEmitN d ∧ SigEmitN d := by
  intro d
  induction d with
  | zero =>
    have hH := hdr_emitN 0 (fun h => absurd rfl h)
    exact ⟨hH, sig_emitN 0 hH⟩
  | succ d ih =>
    have hH := hdr_emitN (d + 1) (fun _ => by simpa using ih.2)
    exact ⟨hH, sig_emitN (d + 1) hH⟩

theorem header_emit_normal (h : Header) (k : Nat) (hw : Header.WF maxNest h) (hn : Header.NF k h) :
    ∃ x, Header.toValue h = .ok x ∧ Normal x ∧ depthOf x ≤ k + 1 := (emitN_all maxNest).1 k h hw hn


theorem signature_emit_normal (s : CoseSignature) (j : Nat) (hw : CoseSignature.WF maxNest s) (hn : CoseSignature.NF j s) :
    ∃ x, CoseSignature.toValue s = .ok x ∧ Normal x ∧ depthOf x ≤ j := (emitN_all maxNest).2 j s hw hn

/-! ### messages: the emitted array is `Normal` and within the parser's budget, so the bytes decode to the message -/

/-- the two header slots of a message whose unprotected header's values may nest `k` levels. -/
theorem slots_emit_normal (p : ProtectedHeader) (u : Header) (k : Nat) (hp : ProtectedHeader.WF maxNest p) (hu : Header.WF maxNest u)
    (hpn : ProtectedHeader.NF p) (hun : Header.NF k u) (pv y : Value) (hs : headerSlots p u = .ok [pv, y]) :
    Normal pv ∧ depthOf pv = 0 ∧ Normal y ∧ depthOf y ≤ k + 1 := by
  have hb := slots_first p u pv y hs
  obtain ⟨h1, h2⟩ := ph_emit_normal p hpn pv hb
  obtain ⟨x, hx, hxn, hxd⟩ := header_emit_normal u k hu hun
  have : y = x := by
    simp only [headerSlots, hb, hx] at hs
    simp at hs; exact hs.symm
  subst this
  exact ⟨h1, h2, hxn, hxd⟩

theorem normal_optBytes (o : Option Bytes) (h : ∀ b, o = some b → b.length < 2 ^ 64) : Normal (optBytesToValue o) ∧ depthOf (optBytesToValue o) = 0 := by
  cases o with
  | none => simp [optBytesToValue, Normal, depthOf]
  | some b => exact ⟨by simp only [optBytesToValue, Normal]; exact h b rfl, by simp [optBytesToValue, depthOf]⟩

/-- COSE_Sign1 built in memory: from conditions on its fields alone, `to_vec` succeeds and `from_slice` of those bytes gives the
    message back (up to the bytes the encoder assigned to the protected header).  `k + 2 ≤ 256`: the unprotected header's extra
    values may nest up to 254 levels. -/
theorem sign1_built_bytes (m : CoseSign1) (k : Nat) (hk : k + 2 ≤ recursionLimit)
    (hp : ProtectedHeader.WF maxNest m.protected_) (hu : Header.WF maxNest m.unprotected)
    (hpn : ProtectedHeader.NF m.protected_) (hun : Header.NF k m.unprotected)
    (hpl : ∀ b, m.payload = some b → b.length < 2 ^ 64) (hsg : m.signature.length < 2 ^ 64) :
    ∃ bs m', toVec CoseSign1.toValue m = .ok bs ∧ fromSlice CoseSign1.fromValue bs = .ok m' ∧
      ProtectedHeader.erase m'.protected_ = ProtectedHeader.erase m.protected_ ∧ Header.erase m'.unprotected = Header.erase m.unprotected ∧
      m'.payload = m.payload ∧ m'.signature = m.signature := by
  obtain ⟨b, y, p', u', hs, g2, g3, g4, g5, _⟩ := slots_rt _ _ hp hu
  have h1 : m.toValue = .ok (.array [.bytes b, y, optBytesToValue m.payload, .bytes m.signature]) := by simp [CoseSign1.toValue, hs]
  have h2 : CoseSign1.fromValue (.array [.bytes b, y, optBytesToValue m.payload, .bytes m.signature]) = .ok ⟨p', u', m.payload, m.signature⟩ :=
    (sign1_ok_iff _ _).mpr ⟨.bytes b, y, _, rfl, g2, g3, optBytes_emit _⟩
  obtain ⟨n1, d1, n2, d2⟩ := slots_emit_normal _ _ k hp hu hpn hun _ _ hs
  obtain ⟨n3, d3⟩ := normal_optBytes m.payload hpl
  have hn : Normal (.array [.bytes b, y, optBytesToValue m.payload, .bytes m.signature]) := by
    simp only [Normal, NormalL]; exact ⟨by simp, n1, n2, n3, hsg, trivial⟩
  have hd : depthOf (.array [.bytes b, y, optBytesToValue m.payload, .bytes m.signature]) ≤ recursionLimit := by
    simp only [depthOf, depthOfL] at d1 d3 ⊢; omega
  refine ⟨enc (.array [.bytes b, y, optBytesToValue m.payload, .bytes m.signature]), ⟨p', u', m.payload, m.signature⟩, ?_, ?_, g4, g5, rfl, rfl⟩
  · simp only [toVec, h1]
  · simp only [fromSlice, readToValue_enc _ hn hd, h2]

/-- COSE_Mac0 built in memory. -/
theorem mac0_built_bytes (m : CoseMac0) (k : Nat) (hk : k + 2 ≤ recursionLimit)
    (hp : ProtectedHeader.WF maxNest m.protected_) (hu : Header.WF maxNest m.unprotected)
    (hpn : ProtectedHeader.NF m.protected_) (hun : Header.NF k m.unprotected)
    (hpl : ∀ b, m.payload = some b → b.length < 2 ^ 64) (htg : m.tag.length < 2 ^ 64) :
    ∃ bs m', toVec CoseMac0.toValue m = .ok bs ∧ fromSlice CoseMac0.fromValue bs = .ok m' ∧
      ProtectedHeader.erase m'.protected_ = ProtectedHeader.erase m.protected_ ∧ Header.erase m'.unprotected = Header.erase m.unprotected ∧
      m'.payload = m.payload ∧ m'.tag = m.tag := by
  obtain ⟨b, y, p', u', hs, g2, g3, g4, g5, _⟩ := slots_rt _ _ hp hu
  have h1 : m.toValue = .ok (.array [.bytes b, y, optBytesToValue m.payload, .bytes m.tag]) := by simp [CoseMac0.toValue, hs]
  have h2 : CoseMac0.fromValue (.array [.bytes b, y, optBytesToValue m.payload, .bytes m.tag]) = .ok ⟨p', u', m.payload, m.tag⟩ :=
    (mac0_ok_iff _ _).mpr ⟨.bytes b, y, _, rfl, g2, g3, optBytes_emit _⟩
  obtain ⟨n1, d1, n2, d2⟩ := slots_emit_normal _ _ k hp hu hpn hun _ _ hs
  obtain ⟨n3, d3⟩ := normal_optBytes m.payload hpl
  have hn : Normal (.array [.bytes b, y, optBytesToValue m.payload, .bytes m.tag]) := by
    simp only [Normal, NormalL]; exact ⟨by simp, n1, n2, n3, htg, trivial⟩
  have hd : depthOf (.array [.bytes b, y, optBytesToValue m.payload, .bytes m.tag]) ≤ recursionLimit := by
    simp only [depthOf, depthOfL] at d1 d3 ⊢; omega
  refine ⟨enc (.array [.bytes b, y, optBytesToValue m.payload, .bytes m.tag]), ⟨p', u', m.payload, m.tag⟩, ?_, ?_, g4, g5, rfl, rfl⟩
  · simp only [toVec, h1]
  · simp only [fromSlice, readToValue_enc _ hn hd, h2]

/-- COSE_Encrypt0 built in memory. -/
theorem encrypt0_built_bytes (m : CoseEncrypt0) (k : Nat) (hk : k + 2 ≤ recursionLimit)
    (hp : ProtectedHeader.WF maxNest m.protected_) (hu : Header.WF maxNest m.unprotected)
    (hpn : ProtectedHeader.NF m.protected_) (hun : Header.NF k m.unprotected)
    (hct : ∀ b, m.ciphertext = some b → b.length < 2 ^ 64) :
    ∃ bs m', toVec CoseEncrypt0.toValue m = .ok bs ∧ fromSlice CoseEncrypt0.fromValue bs = .ok m' ∧
      ProtectedHeader.erase m'.protected_ = ProtectedHeader.erase m.protected_ ∧ Header.erase m'.unprotected = Header.erase m.unprotected ∧
      m'.ciphertext = m.ciphertext := by
  obtain ⟨b, y, p', u', hs, g2, g3, g4, g5, _⟩ := slots_rt _ _ hp hu
  have h1 : m.toValue = .ok (.array [.bytes b, y, optBytesToValue m.ciphertext]) := by simp [CoseEncrypt0.toValue, hs]
  have h2 : CoseEncrypt0.fromValue (.array [.bytes b, y, optBytesToValue m.ciphertext]) = .ok ⟨p', u', m.ciphertext⟩ :=
    (encrypt0_ok_iff _ _).mpr ⟨.bytes b, y, _, rfl, g2, g3, optBytes_emit _⟩
  obtain ⟨n1, d1, n2, d2⟩ := slots_emit_normal _ _ k hp hu hpn hun _ _ hs
  obtain ⟨n3, d3⟩ := normal_optBytes m.ciphertext hct
  have hn : Normal (.array [.bytes b, y, optBytesToValue m.ciphertext]) := by
    simp only [Normal, NormalL]; exact ⟨by simp, n1, n2, n3, trivial⟩
  have hd : depthOf (.array [.bytes b, y, optBytesToValue m.ciphertext]) ≤ recursionLimit := by
    simp only [depthOf, depthOfL] at d1 d3 ⊢; omega
  refine ⟨enc (.array [.bytes b, y, optBytesToValue m.ciphertext]), ⟨p', u', m.ciphertext⟩, ?_, ?_, g4, g5, rfl⟩
  · simp only [toVec, h1]
  · simp only [fromSlice, readToValue_enc _ hn hd, h2]

/-- COSE_Sign built in memory, any number of signers (each signer's array may nest `j` levels). -/
theorem sign_built_bytes (m : CoseSign) (k j : Nat) (hk : k + 2 ≤ recursionLimit) (hj : j + 2 ≤ recursionLimit)
    (hp : ProtectedHeader.WF maxNest m.protected_) (hu : Header.WF maxNest m.unprotected) (hs : sigsWF maxNest m.signatures)
    (hpn : ProtectedHeader.NF m.protected_) (hun : Header.NF k m.unprotected) (hsn : sigsNF j m.signatures)
    (hsl : m.signatures.length < 2 ^ 64) (hpl : ∀ b, m.payload = some b → b.length < 2 ^ 64) :
    ∃ bs m', toVec CoseSign.toValue m = .ok bs ∧ fromSlice CoseSign.fromValue bs = .ok m' ∧
      ProtectedHeader.erase m'.protected_ = ProtectedHeader.erase m.protected_ ∧ Header.erase m'.unprotected = Header.erase m.unprotected ∧
      m'.payload = m.payload ∧ eraseSigs m'.signatures = eraseSigs m.signatures := by
  obtain ⟨b, y, p', u', hsl', g2, g3, g4, g5, _⟩ := slots_rt _ _ hp hu
  obtain ⟨vs, ss', e1, e2, e3, _⟩ := signers_rt _ hs
  obtain ⟨vs2, f1, f2, f3⟩ := sigs_emitN maxNest j (emitN_all maxNest).2 m.signatures hs hsn
  rw [e1] at f1; simp at f1; subst f1
  have h1 : m.toValue = .ok (.array [.bytes b, y, optBytesToValue m.payload, .array vs]) := by simp [CoseSign.toValue, hsl', e1]
  have h2 : CoseSign.fromValue (.array [.bytes b, y, optBytesToValue m.payload, .array vs]) = .ok ⟨p', u', m.payload, ss'⟩ :=
    (sign_ok_iff _ _).mpr ⟨.bytes b, y, _, vs, rfl, g2, g3, optBytes_emit _, e2⟩
  obtain ⟨n1, d1, n2, d2⟩ := slots_emit_normal _ _ k hp hu hpn hun _ _ hsl'
  obtain ⟨n3, d3⟩ := normal_optBytes m.payload hpl
  have n4 : Normal (.array vs) := by simp only [Normal]; exact ⟨by rw [f2]; exact hsl, normalL_of vs (fun z hz => (f3 z hz).1)⟩
  have d4 : depthOf (.array vs) ≤ j + 1 := by
    rw [depthOf_array]; have := depthOfL_le j vs (fun z hz => (f3 z hz).2); omega
  have hn : Normal (.array [.bytes b, y, optBytesToValue m.payload, .array vs]) := by
    simp only [Normal, NormalL]; exact ⟨by simp, n1, n2, n3, n4, trivial⟩
  have hd : depthOf (.array [.bytes b, y, optBytesToValue m.payload, .array vs]) ≤ recursionLimit := by
    simp only [depthOf, depthOfL] at d1 d3 ⊢
    rw [depthOf_array] at d4
    omega
  refine ⟨enc (.array [.bytes b, y, optBytesToValue m.payload, .array vs]), ⟨p', u', m.payload, ss'⟩, ?_, ?_, g4, g5, rfl, e3⟩
  · simp only [toVec, h1]
  · simp only [fromSlice, readToValue_enc _ hn hd, h2]

/-- what the three single-layer messages emit is `Normal` and within the budget (the form used by C06's byte-level wire theorems). -/
theorem sign1_emitted_normal (m : CoseSign1) (k : Nat) (hk : k + 2 ≤ recursionLimit)
    (hp : ProtectedHeader.WF maxNest m.protected_) (hu : Header.WF maxNest m.unprotected)
    (hpn : ProtectedHeader.NF m.protected_) (hun : Header.NF k m.unprotected)
    (hpl : ∀ b, m.payload = some b → b.length < 2 ^ 64) (hsg : m.signature.length < 2 ^ 64) (x : Value) (hx : m.toValue = .ok x) :
    Normal x ∧ depthOf x ≤ recursionLimit := by
  obtain ⟨b, y, p', u', hs, _⟩ := slots_rt _ _ hp hu
  have h1 : m.toValue = .ok (.array [.bytes b, y, optBytesToValue m.payload, .bytes m.signature]) := by simp [CoseSign1.toValue, hs]
  rw [h1] at hx; cases hx
  obtain ⟨n1, d1, n2, d2⟩ := slots_emit_normal _ _ k hp hu hpn hun _ _ hs
  obtain ⟨n3, d3⟩ := normal_optBytes m.payload hpl
  exact ⟨by simp only [Normal, NormalL]; exact ⟨by simp, n1, n2, n3, hsg, trivial⟩, by simp only [depthOf, depthOfL] at d1 d3 ⊢; omega⟩

theorem mac0_emitted_normal (m : CoseMac0) (k : Nat) (hk : k + 2 ≤ recursionLimit)
    (hp : ProtectedHeader.WF maxNest m.protected_) (hu : Header.WF maxNest m.unprotected)
    (hpn : ProtectedHeader.NF m.protected_) (hun : Header.NF k m.unprotected)
    (hpl : ∀ b, m.payload = some b → b.length < 2 ^ 64) (htg : m.tag.length < 2 ^ 64) (x : Value) (hx : m.toValue = .ok x) :
    Normal x ∧ depthOf x ≤ recursionLimit := by
  obtain ⟨b, y, p', u', hs, _⟩ := slots_rt _ _ hp hu
  have h1 : m.toValue = .ok (.array [.bytes b, y, optBytesToValue m.payload, .bytes m.tag]) := by simp [CoseMac0.toValue, hs]
  rw [h1] at hx; cases hx
  obtain ⟨n1, d1, n2, d2⟩ := slots_emit_normal _ _ k hp hu hpn hun _ _ hs
  obtain ⟨n3, d3⟩ := normal_optBytes m.payload hpl
  exact ⟨by simp only [Normal, NormalL]; exact ⟨by simp, n1, n2, n3, htg, trivial⟩, by simp only [depthOf, depthOfL] at d1 d3 ⊢; omega⟩

theorem encrypt0_emitted_normal (m : CoseEncrypt0) (k : Nat) (hk : k + 2 ≤ recursionLimit)
    (hp : ProtectedHeader.WF maxNest m.protected_) (hu : Header.WF maxNest m.unprotected)
    (hpn : ProtectedHeader.NF m.protected_) (hun : Header.NF k m.unprotected)
    (hct : ∀ b, m.ciphertext = some b → b.length < 2 ^ 64) (x : Value) (hx : m.toValue = .ok x) :
    Normal x ∧ depthOf x ≤ recursionLimit := by
  obtain ⟨b, y, p', u', hs, _⟩ := slots_rt _ _ hp hu
  have h1 : m.toValue = .ok (.array [.bytes b, y, optBytesToValue m.ciphertext]) := by simp [CoseEncrypt0.toValue, hs]
  rw [h1] at hx; cases hx
  obtain ⟨n1, d1, n2, d2⟩ := slots_emit_normal _ _ k hp hu hpn hun _ _ hs
  obtain ⟨n3, d3⟩ := normal_optBytes m.ciphertext hct
  exact ⟨by simp only [Normal, NormalL]; exact ⟨by simp, n1, n2, n3, trivial⟩, by simp only [depthOf, depthOfL] at d1 d3 ⊢; omega⟩

/-! ### recipients (nested to any depth), COSE_Encrypt, COSE_Mac -/

mutual
/-- field-level normality of a recipient emitted with nesting budget `j` for its array. -/
def CoseRecipient.NF : Nat → CoseRecipient → Prop
  | j, .mk p u ct rs => 2 ≤ j ∧ ProtectedHeader.NF p ∧ Header.NF (j - 2) u ∧ (∀ b, ct = some b → b.length < 2 ^ 64) ∧
      rs.length < 2 ^ 64 ∧ rcpsNF (j - 2) rs
def rcpsNF : Nat → List CoseRecipient → Prop
  | _, [] => True
  | j, r :: rs => CoseRecipient.NF j r ∧ rcpsNF j rs
end

theorem headerSlots_of_rt (p : ProtectedHeader) (u : Header) (hp : ProtectedHeader.WF maxNest p) (hu : Header.WF maxNest u) :
    ∃ b y, headerSlots p u = .ok [.bytes b, y] := by
  obtain ⟨b, y, _, _, hs, _⟩ := slots_rt p u hp hu
  exact ⟨b, y, hs⟩

theorem recipient_emit_normal : ∀ (n : Nat) (r : CoseRecipient) (j : Nat), r.height ≤ n → r.WF → CoseRecipient.NF j r →
    ∃ x, r.toValue = .ok x ∧ Normal x ∧ depthOf x ≤ j := by
  intro n
  induction n with
  | zero => intro r j h; cases r; simp [CoseRecipient.height] at h
  | succ n ih =>
    intro r j hh hw hn
    cases r with
    | mk p u ct rs =>
      simp only [CoseRecipient.WF] at hw
      simp only [CoseRecipient.NF] at hn
      simp only [CoseRecipient.height] at hh
      obtain ⟨hj, hpn, hun, hct, hrl, hrn⟩ := hn
      obtain ⟨b, y, hs⟩ := headerSlots_of_rt p u hw.1 hw.2.1
      obtain ⟨n1, d1, n2, d2⟩ := slots_emit_normal p u (j - 2) hw.1 hw.2.1 hpn hun _ _ hs
      obtain ⟨n3, d3⟩ := normal_optBytes ct hct
      -- the nested recipients
      have hnest : ∀ rs : List CoseRecipient, heightL rs ≤ n → rcpsWF rs → rcpsNF (j - 2) rs →
          ∃ ys, recipientsToValues rs = .ok ys ∧ ys.length = rs.length ∧ ∀ z ∈ ys, Normal z ∧ depthOf z ≤ j - 2 := by
        intro rs
        induction rs with
        | nil => intro _ _ _; exact ⟨[], by simp [recipientsToValues], rfl, by simp⟩
        | cons r0 rs0 ihr =>
          intro h1 h2 h3
          simp only [rcpsWF] at h2
          simp only [rcpsNF] at h3
          simp only [heightL] at h1
          obtain ⟨ys, a1, a2, a3⟩ := ihr (by omega) h2.2 h3.2
          obtain ⟨x0, b1, b2, b3⟩ := ih r0 (j - 2) (by omega) h2.1 h3.1
          refine ⟨x0 :: ys, by simp [recipientsToValues, b1, a1], by simp [a2], ?_⟩
          intro z hz
          rcases List.mem_cons.mp hz with rfl | hz'
          · exact ⟨b2, b3⟩
          · exact a3 z hz'
      have hnest := hnest rs (by omega) hw.2.2 hrn
      obtain ⟨ys, e1, e2, e3⟩ := hnest
      cases rs with
      | nil =>
        refine ⟨.array [.bytes b, y, optBytesToValue ct], by simp [CoseRecipient.toValue, hs], ?_, ?_⟩
        · simp only [Normal, NormalL]; exact ⟨by simp, n1, n2, n3, trivial⟩
        · simp only [depthOf, depthOfL] at d1 d3 ⊢; omega
      | cons r0 rs0 =>
        have n4 : Normal (.array ys) := by simp only [Normal]; exact ⟨by rw [e2]; exact hrl, normalL_of ys (fun z hz => (e3 z hz).1)⟩
        have d4 : depthOfL ys ≤ j - 2 := depthOfL_le (j - 2) ys (fun z hz => (e3 z hz).2)
        refine ⟨.array [.bytes b, y, optBytesToValue ct, .array ys], by simp [CoseRecipient.toValue, hs, e1], ?_, ?_⟩
        · simp only [Normal, NormalL]; exact ⟨by simp, n1, n2, n3, n4, trivial⟩
        · simp only [depthOf, depthOfL] at d1 d3 ⊢; omega

theorem rcps_emit_normal (j : Nat) : ∀ rs, rcpsWF rs → rcpsNF j rs →
    ∃ ys, recipientsToValues rs = .ok ys ∧ ys.length = rs.length ∧ ∀ z ∈ ys, Normal z ∧ depthOf z ≤ j := by
  intro rs
  induction rs with
  | nil => intro _ _; exact ⟨[], by simp [recipientsToValues], rfl, by simp⟩
  | cons r rs ih =>
    intro hw hn
    simp only [rcpsWF] at hw
    simp only [rcpsNF] at hn
    obtain ⟨ys, a1, a2, a3⟩ := ih hw.2 hn.2
    obtain ⟨x, b1, b2, b3⟩ := recipient_emit_normal r.height r j (Nat.le_refl _) hw.1 hn.1
    refine ⟨x :: ys, by simp [recipientsToValues, b1, a1], by simp [a2], ?_⟩
    intro z hz
    rcases List.mem_cons.mp hz with rfl | hz'
    · exact ⟨b2, b3⟩
    · exact a3 z hz'

/-- COSE_Encrypt built in memory, recipients nested to any depth within the budget. -/
theorem encrypt_built_bytes (m : CoseEncrypt) (k j : Nat) (hk : k + 2 ≤ recursionLimit) (hj : j + 2 ≤ recursionLimit)
    (hp : ProtectedHeader.WF maxNest m.protected_) (hu : Header.WF maxNest m.unprotected) (hr : rcpsWF m.recipients)
    (hpn : ProtectedHeader.NF m.protected_) (hun : Header.NF k m.unprotected) (hrn : rcpsNF j m.recipients)
    (hrl : m.recipients.length < 2 ^ 64) (hct : ∀ b, m.ciphertext = some b → b.length < 2 ^ 64) :
    ∃ bs m', toVec CoseEncrypt.toValue m = .ok bs ∧ fromSlice CoseEncrypt.fromValue bs = .ok m' ∧
      ProtectedHeader.erase m'.protected_ = ProtectedHeader.erase m.protected_ ∧ Header.erase m'.unprotected = Header.erase m.unprotected ∧
      m'.ciphertext = m.ciphertext ∧ eraseRcps m'.recipients = eraseRcps m.recipients := by
  obtain ⟨b, y, p', u', hs, g2, g3, g4, g5, _⟩ := slots_rt _ _ hp hu
  obtain ⟨ys, rs', e1, e2, e3⟩ := rcps_rt _ hr
  obtain ⟨ys2, f1, f2, f3⟩ := rcps_emit_normal j m.recipients hr hrn
  rw [e1] at f1; simp at f1; subst f1
  have h1 : m.toValue = .ok (.array [.bytes b, y, optBytesToValue m.ciphertext, .array ys]) := by simp [CoseEncrypt.toValue, hs, e1]
  have h2 : CoseEncrypt.fromValue (.array [.bytes b, y, optBytesToValue m.ciphertext, .array ys]) = .ok ⟨p', u', m.ciphertext, rs'⟩ :=
    (encrypt_ok_iff _ _).mpr ⟨.bytes b, y, _, ys, rfl, g2, g3, optBytes_emit _, e2⟩
  obtain ⟨n1, d1, n2, d2⟩ := slots_emit_normal _ _ k hp hu hpn hun _ _ hs
  obtain ⟨n3, d3⟩ := normal_optBytes m.ciphertext hct
  have n4 : Normal (.array ys) := by simp only [Normal]; exact ⟨by rw [f2]; exact hrl, normalL_of ys (fun z hz => (f3 z hz).1)⟩
  have d4 : depthOfL ys ≤ j := depthOfL_le j ys (fun z hz => (f3 z hz).2)
  have hn : Normal (.array [.bytes b, y, optBytesToValue m.ciphertext, .array ys]) := by
    simp only [Normal, NormalL]; exact ⟨by simp, n1, n2, n3, n4, trivial⟩
  have hd : depthOf (.array [.bytes b, y, optBytesToValue m.ciphertext, .array ys]) ≤ recursionLimit := by
    simp only [depthOf, depthOfL] at d1 d3 ⊢; omega
  refine ⟨enc (.array [.bytes b, y, optBytesToValue m.ciphertext, .array ys]), ⟨p', u', m.ciphertext, rs'⟩, ?_, ?_, g4, g5, rfl, e3⟩
  · simp only [toVec, h1]
  · simp only [fromSlice, readToValue_enc _ hn hd, h2]

/-- COSE_Mac built in memory. -/
theorem mac_built_bytes (m : CoseMac) (k j : Nat) (hk : k + 2 ≤ recursionLimit) (hj : j + 2 ≤ recursionLimit)
    (hp : ProtectedHeader.WF maxNest m.protected_) (hu : Header.WF maxNest m.unprotected) (hr : rcpsWF m.recipients)
    (hpn : ProtectedHeader.NF m.protected_) (hun : Header.NF k m.unprotected) (hrn : rcpsNF j m.recipients)
    (hrl : m.recipients.length < 2 ^ 64) (hpl : ∀ b, m.payload = some b → b.length < 2 ^ 64) (htg : m.tag.length < 2 ^ 64) :
    ∃ bs m', toVec CoseMac.toValue m = .ok bs ∧ fromSlice CoseMac.fromValue bs = .ok m' ∧
      ProtectedHeader.erase m'.protected_ = ProtectedHeader.erase m.protected_ ∧ Header.erase m'.unprotected = Header.erase m.unprotected ∧
      m'.payload = m.payload ∧ m'.tag = m.tag ∧ eraseRcps m'.recipients = eraseRcps m.recipients := by
  obtain ⟨b, y, p', u', hs, g2, g3, g4, g5, _⟩ := slots_rt _ _ hp hu
  obtain ⟨ys, rs', e1, e2, e3⟩ := rcps_rt _ hr
  obtain ⟨ys2, f1, f2, f3⟩ := rcps_emit_normal j m.recipients hr hrn
  rw [e1] at f1; simp at f1; subst f1
  have h1 : m.toValue = .ok (.array [.bytes b, y, optBytesToValue m.payload, .bytes m.tag, .array ys]) := by simp [CoseMac.toValue, hs, e1]
  have h2 : CoseMac.fromValue (.array [.bytes b, y, optBytesToValue m.payload, .bytes m.tag, .array ys]) = .ok ⟨p', u', m.payload, m.tag, rs'⟩ :=
    (mac_ok_iff _ _).mpr ⟨.bytes b, y, _, ys, rfl, g2, g3, optBytes_emit _, e2⟩
  obtain ⟨n1, d1, n2, d2⟩ := slots_emit_normal _ _ k hp hu hpn hun _ _ hs
  obtain ⟨n3, d3⟩ := normal_optBytes m.payload hpl
  have n4 : Normal (.array ys) := by simp only [Normal]; exact ⟨by rw [f2]; exact hrl, normalL_of ys (fun z hz => (f3 z hz).1)⟩
  have d4 : depthOfL ys ≤ j := depthOfL_le j ys (fun z hz => (f3 z hz).2)
  have hn : Normal (.array [.bytes b, y, optBytesToValue m.payload, .bytes m.tag, .array ys]) := by
    simp only [Normal, NormalL]; exact ⟨by simp, n1, n2, n3, htg, n4, trivial⟩
  have hd : depthOf (.array [.bytes b, y, optBytesToValue m.payload, .bytes m.tag, .array ys]) ≤ recursionLimit := by
    simp only [depthOf, depthOfL] at d1 d3 ⊢; omega
  refine ⟨enc (.array [.bytes b, y, optBytesToValue m.payload, .bytes m.tag, .array ys]), ⟨p', u', m.payload, m.tag, rs'⟩, ?_, ?_, g4, g5, rfl, rfl, e3⟩
  · simp only [toVec, h1]
  · simp only [fromSlice, readToValue_enc _ hn hd, h2]

/-- what the three multi-layer messages emit is `Normal` and within the budget. -/
theorem sign_emitted_normal (m : CoseSign) (k j : Nat) (hk : k + 2 ≤ recursionLimit) (hj : j + 2 ≤ recursionLimit)
    (hp : ProtectedHeader.WF maxNest m.protected_) (hu : Header.WF maxNest m.unprotected) (hs : sigsWF maxNest m.signatures)
    (hpn : ProtectedHeader.NF m.protected_) (hun : Header.NF k m.unprotected) (hsn : sigsNF j m.signatures)
    (hsl : m.signatures.length < 2 ^ 64) (hpl : ∀ b, m.payload = some b → b.length < 2 ^ 64) (x : Value) (hx : m.toValue = .ok x) :
    Normal x ∧ depthOf x ≤ recursionLimit := by
  obtain ⟨b, y, p', u', hsl', _⟩ := slots_rt _ _ hp hu
  obtain ⟨vs, f1, f2, f3⟩ := sigs_emitN maxNest j (emitN_all maxNest).2 m.signatures hs hsn
  have h1 : m.toValue = .ok (.array [.bytes b, y, optBytesToValue m.payload, .array vs]) := by simp [CoseSign.toValue, hsl', f1]
  rw [h1] at hx; cases hx
  obtain ⟨n1, d1, n2, d2⟩ := slots_emit_normal _ _ k hp hu hpn hun _ _ hsl'
  obtain ⟨n3, d3⟩ := normal_optBytes m.payload hpl
  have n4 : Normal (.array vs) := by simp only [Normal]; exact ⟨by rw [f2]; exact hsl, normalL_of vs (fun z hz => (f3 z hz).1)⟩
  have d4 : depthOfL vs ≤ j := depthOfL_le j vs (fun z hz => (f3 z hz).2)
  exact ⟨by simp only [Normal, NormalL]; exact ⟨by simp, n1, n2, n3, n4, trivial⟩, by simp only [depthOf, depthOfL] at d1 d3 ⊢; omega⟩

theorem encrypt_emitted_normal (m : CoseEncrypt) (k j : Nat) (hk : k + 2 ≤ recursionLimit) (hj : j + 2 ≤ recursionLimit)
    (hp : ProtectedHeader.WF maxNest m.protected_) (hu : Header.WF maxNest m.unprotected) (hr : rcpsWF m.recipients)
    (hpn : ProtectedHeader.NF m.protected_) (hun : Header.NF k m.unprotected) (hrn : rcpsNF j m.recipients)
    (hrl : m.recipients.length < 2 ^ 64) (hct : ∀ b, m.ciphertext = some b → b.length < 2 ^ 64) (x : Value) (hx : m.toValue = .ok x) :
    Normal x ∧ depthOf x ≤ recursionLimit := by
  obtain ⟨b, y, p', u', hs, _⟩ := slots_rt _ _ hp hu
  obtain ⟨ys, f1, f2, f3⟩ := rcps_emit_normal j m.recipients hr hrn
  have h1 : m.toValue = .ok (.array [.bytes b, y, optBytesToValue m.ciphertext, .array ys]) := by simp [CoseEncrypt.toValue, hs, f1]
  rw [h1] at hx; cases hx
  obtain ⟨n1, d1, n2, d2⟩ := slots_emit_normal _ _ k hp hu hpn hun _ _ hs
  obtain ⟨n3, d3⟩ := normal_optBytes m.ciphertext hct
  have n4 : Normal (.array ys) := by simp only [Normal]; exact ⟨by rw [f2]; exact hrl, normalL_of ys (fun z hz => (f3 z hz).1)⟩
  have d4 : depthOfL ys ≤ j := depthOfL_le j ys (fun z hz => (f3 z hz).2)
  exact ⟨by simp only [Normal, NormalL]; exact ⟨by simp, n1, n2, n3, n4, trivial⟩, by simp only [depthOf, depthOfL] at d1 d3 ⊢; omega⟩

theorem mac_emitted_normal (m : CoseMac) (k j : Nat) (hk : k + 2 ≤ recursionLimit) (hj : j + 2 ≤ recursionLimit)
    (hp : ProtectedHeader.WF maxNest m.protected_) (hu : Header.WF maxNest m.unprotected) (hr : rcpsWF m.recipients)
    (hpn : ProtectedHeader.NF m.protected_) (hun : Header.NF k m.unprotected) (hrn : rcpsNF j m.recipients)
    (hrl : m.recipients.length < 2 ^ 64) (hpl : ∀ b, m.payload = some b → b.length < 2 ^ 64) (htg : m.tag.length < 2 ^ 64)
    (x : Value) (hx : m.toValue = .ok x) : Normal x ∧ depthOf x ≤ recursionLimit := by
  obtain ⟨b, y, p', u', hs, _⟩ := slots_rt _ _ hp hu
  obtain ⟨ys, f1, f2, f3⟩ := rcps_emit_normal j m.recipients hr hrn
  have h1 : m.toValue = .ok (.array [.bytes b, y, optBytesToValue m.payload, .bytes m.tag, .array ys]) := by simp [CoseMac.toValue, hs, f1]
  rw [h1] at hx; cases hx
  obtain ⟨n1, d1, n2, d2⟩ := slots_emit_normal _ _ k hp hu hpn hun _ _ hs
  obtain ⟨n3, d3⟩ := normal_optBytes m.payload hpl
  have n4 : Normal (.array ys) := by simp only [Normal]; exact ⟨by rw [f2]; exact hrl, normalL_of ys (fun z hz => (f3 z hz).1)⟩
  have d4 : depthOfL ys ≤ j := depthOfL_le j ys (fun z hz => (f3 z hz).2)
  exact ⟨by simp only [Normal, NormalL]; exact ⟨by simp, n1, n2, n3, htg, n4, trivial⟩, by simp only [depthOf, depthOfL] at d1 d3 ⊢; omega⟩

/-- a single recipient as a standalone message. -/
theorem recipient_emitted_normal (r : CoseRecipient) (j : Nat) (hj : j ≤ recursionLimit) (hw : r.WF) (hn : CoseRecipient.NF j r)
    (x : Value) (hx : r.toValue = .ok x) : Normal x ∧ depthOf x ≤ recursionLimit := by
  obtain ⟨x', h1, h2, h3⟩ := recipient_emit_normal r.height r j (Nat.le_refl _) hw hn
  rw [h1] at hx; cases hx
  exact ⟨h2, by omega⟩

/-! ### keys and claims sets -/

/-- field-level normality of a COSE_Key (`k`: nesting budget for the values of the extra parameters). -/
structure CoseKey.NF (k : Nat) (key : CoseKey) : Prop where
  kty : RegN Reg.keyType key.kty
  alg : ∀ a, key.alg = some a → RegPrivN Reg.algorithm a
  ops : (∀ l ∈ key.keyOps, RegN Reg.keyOperation l) ∧ key.keyOps.length < 2 ^ 64 ∧ (key.keyOps ≠ [] → 1 ≤ k)
  lens : key.keyId.length < 2 ^ 64 ∧ key.baseIv.length < 2 ^ 64
  params : RestN k key.params

theorem key_emit_normal (key : CoseKey) (k : Nat) (hw : key.WF) (hn : CoseKey.NF k key) :
    ∃ x, key.toValue = .ok x ∧ Normal x ∧ depthOf x ≤ k + 1 ∧ CoseKey.fromValue x = .ok key := by
  obtain ⟨h1, h2⟩ := key_rt key hw
  have lab : ∀ n : Int, n = 1 ∨ n = 2 ∨ n = 3 ∨ n = 4 ∨ n = 5 → Normal (labelValue (.int n)) ∧ depthOf (labelValue (.int n)) ≤ k := by
    intro n hn'
    exact ⟨by simp only [labelValue, Normal]; omega, by simp [labelValue, depthOf]⟩
  have hent : ∀ e ∈ keyL key.kty key.keyId key.alg key.keyOps key.baseIv ++ key.params, EntryN k e := by
    intro e he
    rcases List.mem_append.mp he with he | he
    · rcases keyL_mem _ _ _ _ _ e he with rfl | ⟨hc, rfl⟩ | ⟨a, ha, rfl⟩ | ⟨hc, rfl⟩ | ⟨hc, rfl⟩
      · have := normal_regValue _ _ hn.kty
        exact ⟨(lab 1 (by simp)).1, (lab 1 (by simp)).2, this.1, by rw [this.2]; omega⟩
      · exact ⟨(lab 2 (by simp)).1, (lab 2 (by simp)).2, by simp only [Normal]; exact hn.lens.1, by simp [depthOf]⟩
      · have := normal_regPrivValue _ a (hn.alg a ha)
        exact ⟨(lab 3 (by simp)).1, (lab 3 (by simp)).2, this.1, by rw [this.2]; omega⟩
      · refine ⟨(lab 4 (by simp)).1, (lab 4 (by simp)).2, ?_, ?_⟩
        · simp only [Normal]
          refine ⟨by simp; exact hn.ops.2.1, normalL_of _ ?_⟩
          intro y hy
          simp only [List.mem_map] at hy
          obtain ⟨l, hl, rfl⟩ := hy
          exact (normal_regValue _ l (hn.ops.1 l hl)).1
        · rw [depthOf_array]
          have : depthOfL (key.keyOps.map opVal) ≤ 0 := by
            apply depthOfL_le
            intro y hy
            simp only [List.mem_map] at hy
            obtain ⟨l, hl, rfl⟩ := hy
            rw [show opVal l = RegLabel.value Reg.keyOperation l from rfl, (normal_regValue _ l (hn.ops.1 l hl)).2]; exact Nat.le_refl _
          have := hn.ops.2.2 hc
          omega
      · exact ⟨(lab 5 (by simp)).1, (lab 5 (by simp)).2, by simp only [Normal]; exact hn.lens.2, by simp [depthOf]⟩
    · have := hn.params.2 e he
      exact ⟨(normal_labelValue e.1 this.1).1, by rw [(normal_labelValue e.1 this.1).2]; omega, this.2.1, this.2.2⟩
  refine ⟨_, h1, ?_, ?_, h2⟩
  · simp only [Normal]
    constructor
    · have := keyL_length_le key.kty key.keyId key.alg key.keyOps key.baseIv
      have := hn.params.1
      simp only [pairsToValue, List.length_map, List.length_append]; omega
    · apply normalP_of
      intro q hq
      simp only [pairsToValue, List.mem_map] at hq
      obtain ⟨e, he, rfl⟩ := hq
      have := hent e he; exact ⟨this.1, this.2.2.1⟩
  · rw [depthOf_map]
    have : depthOfP (pairsToValue (keyL key.kty key.keyId key.alg key.keyOps key.baseIv ++ key.params)) ≤ k := by
      apply depthOfP_le
      intro q hq
      simp only [pairsToValue, List.mem_map] at hq
      obtain ⟨e, he, rfl⟩ := hq
      have := hent e he; exact ⟨this.2.1, this.2.2.2⟩
    omega

/-- COSE_Key built in memory: `to_vec` then `from_slice` is the identity, from conditions on the fields alone. -/
theorem key_built_bytes (key : CoseKey) (k : Nat) (hk : k + 1 ≤ recursionLimit) (hw : key.WF) (hn : CoseKey.NF k key) :
    ∃ bs, toVec CoseKey.toValue key = .ok bs ∧ fromSlice CoseKey.fromValue bs = .ok key := by
  obtain ⟨x, h1, h2, h3, h4⟩ := key_emit_normal key k hw hn
  exact ⟨enc x, by simp only [toVec, h1], by simp only [fromSlice, readToValue_enc x h2 (by omega), h4]⟩


/-- field-level normality of a CWT claims set. -/
structure ClaimsSet.NF (k : Nat) (c : ClaimsSet) : Prop where
  texts : (∀ t, c.issuer = some t → TextOK t) ∧ (∀ t, c.subject = some t → TextOK t) ∧ (∀ t, c.audience = some t → TextOK t)
  cti : ∀ b, c.cwtId = some b → b.length < 2 ^ 64
  rest : c.rest.length + 8 < 2 ^ 64 ∧ ∀ p ∈ c.rest, RegPrivN Reg.cwtClaimName p.1 ∧ Normal p.2 ∧ depthOf p.2 ≤ k

theorem typed_claims_N : ∀ n ∈ typedClaims, RegPrivN Reg.cwtClaimName n := by
  intro n hn
  simp only [typedClaims, List.mem_cons, List.not_mem_nil, or_false] at hn
  rcases hn with rfl | rfl | rfl | rfl | rfl | rfl | rfl <;> (simp only [RegPrivN, cISS, cSUB, cAUD, cEXP, cNBF, cIAT, cCTI]; decide +kernel)

theorem normal_tsValue (t : Timestamp) (h : GoodTs t) : Normal (tsValue t) ∧ depthOf (tsValue t) = 0 := by
  cases t with
  | wholeSeconds n => exact ⟨normal_int_i64 n h, by simp [tsValue, depthOf]⟩
  | fractionalSeconds f => exact ⟨by simp [tsValue, Normal], by simp [tsValue, depthOf]⟩

theorem claims_emit_normal (c : ClaimsSet) (k : Nat) (hw : c.WF) (hn : ClaimsSet.NF k c) :
    ∃ x, c.toValue = .ok x ∧ Normal x ∧ depthOf x ≤ k + 1 ∧ ClaimsSet.fromValue x = .ok c := by
  obtain ⟨h1, h2⟩ := claims_rt c hw
  have tn : ∀ n ∈ typedClaims, Normal (nameVal n) ∧ depthOf (nameVal n) = 0 := fun n hn' => normal_regPrivValue _ n (typed_claims_N n hn')
  have hent : ∀ e ∈ claimL c.issuer c.subject c.audience c.expirationTime c.notBefore c.issuedAt c.cwtId ++ c.rest,
      Normal (nameVal e.1) ∧ depthOf (nameVal e.1) ≤ k ∧ Normal e.2 ∧ depthOf e.2 ≤ k := by
    intro e he
    have txt : ∀ t, TextOK t → Normal (Value.text t) ∧ depthOf (Value.text t) ≤ k :=
      fun t ht => ⟨by simp only [Normal]; exact ⟨ht.2, ht.1⟩, by simp [depthOf]⟩
    rcases List.mem_append.mp he with he | he
    · rcases claimL_mem _ _ _ _ _ _ _ e he with ⟨t, ht, rfl⟩ | ⟨t, ht, rfl⟩ | ⟨t, ht, rfl⟩ | ⟨t, ht, rfl⟩ | ⟨t, ht, rfl⟩ | ⟨t, ht, rfl⟩ | ⟨t, ht, rfl⟩
      · have a := tn cISS (by simp [typedClaims]); have b := txt t (hn.texts.1 t ht)
        exact ⟨a.1, by rw [a.2]; omega, b.1, b.2⟩
      · have a := tn cSUB (by simp [typedClaims]); have b := txt t (hn.texts.2.1 t ht)
        exact ⟨a.1, by rw [a.2]; omega, b.1, b.2⟩
      · have a := tn cAUD (by simp [typedClaims]); have b := txt t (hn.texts.2.2 t ht)
        exact ⟨a.1, by rw [a.2]; omega, b.1, b.2⟩
      · have a := tn cEXP (by simp [typedClaims]); have b := normal_tsValue t (hw.times.exp t ht)
        exact ⟨a.1, by rw [a.2]; omega, b.1, by rw [b.2]; omega⟩
      · have a := tn cNBF (by simp [typedClaims]); have b := normal_tsValue t (hw.times.nbf t ht)
        exact ⟨a.1, by rw [a.2]; omega, b.1, by rw [b.2]; omega⟩
      · have a := tn cIAT (by simp [typedClaims]); have b := normal_tsValue t (hw.times.iat t ht)
        exact ⟨a.1, by rw [a.2]; omega, b.1, by rw [b.2]; omega⟩
      · have a := tn cCTI (by simp [typedClaims])
        exact ⟨a.1, by rw [a.2]; omega, by simp only [Normal]; exact hn.cti t ht, by simp [depthOf]⟩
    · have := hn.rest.2 e he
      have a := normal_regPrivValue _ e.1 this.1
      exact ⟨a.1, by rw [a.2]; omega, this.2.1, this.2.2⟩
  refine ⟨_, h1, ?_, ?_, h2⟩
  · simp only [Normal]
    constructor
    · have := claimL_length_le c.issuer c.subject c.audience c.expirationTime c.notBefore c.issuedAt c.cwtId
      have := hn.rest.1
      simp only [namePairs, List.length_map, List.length_append]; omega
    · apply normalP_of
      intro q hq
      simp only [namePairs, List.mem_map] at hq
      obtain ⟨e, he, rfl⟩ := hq
      have := hent e he; exact ⟨this.1, this.2.2.1⟩
  · rw [depthOf_map]
    have : depthOfP (namePairs (claimL c.issuer c.subject c.audience c.expirationTime c.notBefore c.issuedAt c.cwtId ++ c.rest)) ≤ k := by
      apply depthOfP_le
      intro q hq
      simp only [namePairs, List.mem_map] at hq
      obtain ⟨e, he, rfl⟩ := hq
      have := hent e he; exact ⟨this.2.1, this.2.2.2⟩
    omega

/-- CWT claims set built in memory: `from_slice (to_vec c) = c`. -/
theorem claims_built_bytes (c : ClaimsSet) (k : Nat) (hk : k + 1 ≤ recursionLimit) (hw : c.WF) (hn : ClaimsSet.NF k c) :
    ∃ bs, toVec ClaimsSet.toValue c = .ok bs ∧ fromSlice ClaimsSet.fromValue bs = .ok c := by
  obtain ⟨x, h1, h2, h3, h4⟩ := claims_emit_normal c k hw hn
  exact ⟨enc x, by simp only [toVec, h1], by simp only [fromSlice, readToValue_enc x h2 (by omega), h4]⟩

/-! ### KDF context -/

structure PartyInfo.NF (p : PartyInfo) : Prop where
  identity : ∀ b, p.identity = some b → b.length < 2 ^ 64
  nonce : ∀ b, p.nonce = some (.bytes b) → b.length < 2 ^ 64
  other : ∀ b, p.other = some b → b.length < 2 ^ 64

def nonceValue : Option Nonce → Value
  | none => .null
  | some (.bytes b) => .bytes b
  | some (.integer i) => .int i

theorem PartyInfo.toValue_eq (p : PartyInfo) :
    p.toValue = .ok (.array [optBytesToValue p.identity, nonceValue p.nonce, optBytesToValue p.other]) := by
  obtain ⟨ident, nonce, other⟩ := p
  cases nonce with
  | none => rfl
  | some nn => cases nn <;> rfl

theorem normal_nonce (o : Option Nonce) (h1 : ∀ b, o = some (.bytes b) → b.length < 2 ^ 64)
    (h2 : ∀ i, o = some (.integer i) → i64Min ≤ i ∧ i ≤ i64Max) : Normal (nonceValue o) ∧ depthOf (nonceValue o) = 0 := by
  cases o with
  | none => simp [nonceValue, Normal, depthOf]
  | some nn =>
    cases nn with
    | bytes b => exact ⟨by simp only [nonceValue, Normal]; exact h1 b rfl, by simp [nonceValue, depthOf]⟩
    | integer i => exact ⟨normal_int_i64 i (h2 i rfl), by simp [nonceValue, depthOf]⟩

theorem party_emit_normal (p : PartyInfo) (hw : p.WF) (hn : PartyInfo.NF p) :
    ∃ x, p.toValue = .ok x ∧ Normal x ∧ depthOf x = 1 ∧ PartyInfo.fromValue x = .ok p := by
  obtain ⟨x, h1, h2⟩ := party_rt p hw
  rw [PartyInfo.toValue_eq] at h1
  cases h1
  obtain ⟨n1, d1⟩ := normal_optBytes p.identity hn.identity
  obtain ⟨n3, d3⟩ := normal_optBytes p.other hn.other
  obtain ⟨n2, d2⟩ := normal_nonce p.nonce hn.nonce hw
  refine ⟨_, PartyInfo.toValue_eq p, ?_, ?_, h2⟩
  · simp only [Normal, NormalL]; exact ⟨by simp, n1, n2, n3, trivial⟩
  · simp only [depthOf, depthOfL, d1, d2, d3]; simp

structure SuppPubInfo.NF (s : SuppPubInfo) : Prop where
  prot : ProtectedHeader.NF s.protected_
  other : ∀ b, s.other = some b → b.length < 2 ^ 64

theorem supp_emit_normal (s : SuppPubInfo) (hw : s.WF) (hn : SuppPubInfo.NF s) (x : Value) (hx : s.toValue = .ok x) :
    Normal x ∧ depthOf x = 1 := by
  obtain ⟨len, p, other⟩ := s
  obtain ⟨b, p', h1, _⟩ := ph_api_rt p hw.prot
  obtain ⟨n2, d2⟩ := ph_emit_normal p hn.prot _ h1
  have hl := hw.len
  simp only at hl
  have n1 : Normal (.int len) := by simp only [Normal]; unfold u64Max at hl; omega
  cases other with
  | none =>
    simp [SuppPubInfo.toValue, h1] at hx; subst hx
    exact ⟨by simp only [Normal, NormalL]; exact ⟨by simp, n1, n2, trivial⟩, by simp [depthOf, depthOfL]⟩
  | some o =>
    simp [SuppPubInfo.toValue, h1] at hx; subst hx
    have n3 : Normal (.bytes o) := by simp only [Normal]; exact hn.other o rfl
    exact ⟨by simp only [Normal, NormalL]; exact ⟨by simp, n1, n2, n3, trivial⟩, by simp [depthOf, depthOfL]⟩

structure CoseKdfContext.NF (k : CoseKdfContext) : Prop where
  alg : RegPrivN Reg.algorithm k.algorithmId
  partyU : PartyInfo.NF k.partyUInfo
  partyV : PartyInfo.NF k.partyVInfo
  supp : SuppPubInfo.NF k.suppPubInfo
  priv : k.suppPrivInfo.length + 4 < 2 ^ 64 ∧ ∀ b ∈ k.suppPrivInfo, b.length < 2 ^ 64

theorem kdf_emitted_normal (k : CoseKdfContext) (hw : k.WF) (hn : CoseKdfContext.NF k) (x : Value) (hx : k.toValue = .ok x) :
    Normal x ∧ depthOf x ≤ 2 := by
  obtain ⟨alg, pu, pv, supp, priv⟩ := k
  obtain ⟨xu, hu1, nu, du, _⟩ := party_emit_normal pu hw.partyU hn.partyU
  obtain ⟨xv, hv1, nv, dv, _⟩ := party_emit_normal pv hw.partyV hn.partyV
  obtain ⟨xs, s', hs1, _⟩ := supp_rt supp hw.supp
  obtain ⟨ns, ds⟩ := supp_emit_normal supp hw.supp hn.supp xs hs1
  obtain ⟨na, da⟩ := normal_regPrivValue Reg.algorithm alg hn.alg
  have h1 : CoseKdfContext.toValue ⟨alg, pu, pv, supp, priv⟩ = .ok (.array ([RegLabelPriv.value Reg.algorithm alg, xu, xv, xs] ++ priv.map Value.bytes)) := by
    simp [CoseKdfContext.toValue, RegLabelPriv.toValue_eq, hu1, hv1, hs1]
  rw [h1] at hx; cases hx
  have hp := hn.priv
  simp only at hp
  have hall : ∀ z ∈ [RegLabelPriv.value Reg.algorithm alg, xu, xv, xs] ++ priv.map Value.bytes, Normal z ∧ depthOf z ≤ 1 := by
    intro z hz
    rcases List.mem_append.mp hz with hz | hz
    · simp only [List.mem_cons, List.not_mem_nil, or_false] at hz
      rcases hz with rfl | rfl | rfl | rfl
      · exact ⟨na, by omega⟩
      · exact ⟨nu, by omega⟩
      · exact ⟨nv, by omega⟩
      · exact ⟨ns, by omega⟩
    · obtain ⟨b, hb, rfl⟩ := List.mem_map.mp hz
      exact ⟨by simp only [Normal]; exact hp.2 b hb, by simp [depthOf]⟩
  refine ⟨?_, ?_⟩
  · simp only [Normal]
    exact ⟨by simp; omega, normalL_of _ (fun z hz => (hall z hz).1)⟩
  · rw [depthOf_array]
    have := depthOfL_le 1 _ (fun z hz => (hall z hz).2)
    omega

/-- KDF context built in memory: the bytes of `to_vec` decode back to it (up to the bytes assigned to the protected header). -/
theorem kdf_built_bytes (k : CoseKdfContext) (hw : k.WF) (hn : CoseKdfContext.NF k) :
    ∃ bs k', toVec CoseKdfContext.toValue k = .ok bs ∧ fromSlice CoseKdfContext.fromValue bs = .ok k' ∧
      k'.algorithmId = k.algorithmId ∧ k'.partyUInfo = k.partyUInfo ∧ k'.partyVInfo = k.partyVInfo ∧ k'.suppPrivInfo = k.suppPrivInfo ∧
      k'.suppPubInfo.keyDataLength = k.suppPubInfo.keyDataLength ∧ k'.suppPubInfo.other = k.suppPubInfo.other ∧
      ProtectedHeader.erase k'.suppPubInfo.protected_ = ProtectedHeader.erase k.suppPubInfo.protected_ := by
  obtain ⟨x, k', h1, h2, rest⟩ := kdf_rt k hw
  obtain ⟨n, d⟩ := kdf_emitted_normal k hw hn x h1
  exact ⟨enc x, k', by simp only [toVec, h1], by simp only [fromSlice, readToValue_enc x n (by unfold recursionLimit; omega), h2], rest⟩

end Coset
