/-
  Decoding what `Header::to_cbor_value` emits: the loop run on the emitted entries rebuilds the header field by field.
-/
import CosetProofs.Roundtrip.Labels
import CosetProofs.HeaderFields
namespace Coset
open Coset.Spec

theorem foldRes_append {σ β : Type} (step : σ → β → Res σ) (xs ys : List β) (s : σ) :
    foldRes step (xs ++ ys) s = match foldRes step xs s with
      | .ok s' => foldRes step ys s'
      | .err e => .err e
      | .panic p => .panic p := by
  induction xs generalizing s with
  | nil => simp [foldRes]
  | cons x xs ih =>
    simp only [List.cons_append, foldRes]
    cases step s x with
    | ok s' => exact ih s'
    | err e => rfl
    | panic p => rfl

/-- the label/value entries for the six simple typed fields, in emission order. -/
def typedL (alg : Option RegLabelPriv) (crit : List RegLabel) (ct : Option RegLabel) (kid iv piv : Bytes) : List (Label × Value) :=
  (alg.toList.map fun a => (Label.int 1, RegLabelPriv.value Reg.algorithm a)) ++
  (if !crit.isEmpty then [(Label.int 2, Value.array (crit.map (RegLabel.value Reg.headerParameter)))] else []) ++
  (ct.toList.map fun c => (Label.int 3, RegLabel.value Reg.coapContentFormat c)) ++
  (if !kid.isEmpty then [(Label.int 4, Value.bytes kid)] else []) ++
  (if !iv.isEmpty then [(Label.int 5, Value.bytes iv)] else []) ++
  (if !piv.isEmpty then [(Label.int 6, Value.bytes piv)] else [])

def labelValue : Label → Value
  | .int i => .int i
  | .text t => .text t

def pairsToValue (ps : List (Label × Value)) : List (Value × Value) := ps.map fun p => (labelValue p.1, p.2)

theorem headerTypedPairs_eq (alg crit ct kid iv piv) :
    headerTypedPairs alg crit ct kid iv piv = pairsToValue (typedL alg crit ct kid iv piv) := by
  have hc : Gen.header_ALG = 1 ∧ Gen.header_CRIT = 2 ∧ Gen.header_CONTENT_TYPE = 3 ∧ Gen.header_KID = 4 ∧ Gen.header_IV = 5 ∧
      Gen.header_PARTIAL_IV = 6 := by decide
  obtain ⟨c1, c2, c3, c4, c5, c6⟩ := hc
  simp only [headerTypedPairs, typedL, pairsToValue, c1, c2, c3, c4, c5, c6]
  cases alg <;> cases ct <;> by_cases h2 : crit.isEmpty <;> by_cases h4 : kid.isEmpty <;> by_cases h5 : iv.isEmpty <;> by_cases h6 : piv.isEmpty <;>
    simp [h2, h4, h5, h6, labelValue]

/-- what the six simple typed fields must satisfy for the emitted entries to decode (`Header::from_cbor_value`'s own rules). -/
structure TypedGood (alg : Option RegLabelPriv) (crit : List RegLabel) (ct : Option RegLabel) (iv piv : Bytes) : Prop where
  alg : ∀ a, alg = some a → GoodRegPriv Reg.algorithm a
  crit : ∀ l ∈ crit, GoodReg Reg.headerParameter l
  ct : ∀ c, ct = some c → GoodReg Reg.coapContentFormat c ∧ contentTypeOk c = true
  ivs : ¬ (iv ≠ [] ∧ piv ≠ [])

theorem alg_values_nodup : (Reg.algorithm.rows.map (·.2)).Nodup := by decide +kernel
theorem hp_values_nodup : (Reg.headerParameter.rows.map (·.2)).Nodup := by decide +kernel
theorem coap_values_nodup : (Reg.coapContentFormat.rows.map (·.2)).Nodup := by decide +kernel

theorem std7 : hALG = .int 1 ∧ hCRIT = .int 2 ∧ hCONTENT_TYPE = .int 3 ∧ hKID = .int 4 ∧ hIV = .int 5 ∧ hPARTIAL_IV = .int 6 ∧ hCOUNTER_SIG = .int 7 :=
  std_labels

/-- folding the emitted typed entries from the default header rebuilds exactly the six fields. -/
theorem fold_typed (d : Nat) (sf : Value → Res CoseSignature) (alg crit ct kid iv piv) (hg : TypedGood alg crit ct iv piv) :
    foldRes (headerStep d sf) (typedL alg crit ct kid iv piv) Header.default = .ok (.mk alg crit ct kid iv piv [] []) := by
  obtain ⟨e1, e2, e3, e4, e5, e6, e7⟩ := std7
  unfold typedL
  -- alg
  have s1 : foldRes (headerStep d sf) (alg.toList.map fun a => (Label.int 1, RegLabelPriv.value Reg.algorithm a)) Header.default
      = .ok (.mk alg [] none [] [] [] [] []) := by
    cases alg with
    | none => rfl
    | some a =>
      simp [foldRes, headerStep, headerDispatch, e1, RegLabelPriv.roundtrip _ alg_values_nodup a (hg.alg a rfl), Header.default, Header.setAlg,
        Header.crit, Header.contentType, Header.keyId, Header.iv, Header.partialIv, Header.counterSignatures, Header.rest]
  have s2 : foldRes (headerStep d sf) (if !crit.isEmpty then [(Label.int 2, Value.array (crit.map (RegLabel.value Reg.headerParameter)))] else [])
      (.mk alg [] none [] [] [] [] []) = .ok (.mk alg crit none [] [] [] [] []) := by
    by_cases hc : crit.isEmpty = true
    · have : crit = [] := List.isEmpty_iff.mp hc
      subst this; simp [foldRes]
    · have hne : (crit.map (RegLabel.value Reg.headerParameter)).isEmpty = false := by
        cases crit <;> simp_all
      have hm := mapRes_roundtrip (RegLabel.fromValue Reg.headerParameter) (RegLabel.value Reg.headerParameter) (GoodReg Reg.headerParameter)
        (fun x hx => RegLabel.roundtrip _ hp_values_nodup x hx) crit hg.crit
      simp [hc, foldRes, headerStep, headerDispatch, e1, e2, hne, hm, Header.setCrit, Header.alg, Header.crit, Header.contentType, Header.keyId,
        Header.iv, Header.partialIv, Header.counterSignatures, Header.rest]
  have s3 : foldRes (headerStep d sf) (ct.toList.map fun c => (Label.int 3, RegLabel.value Reg.coapContentFormat c))
      (.mk alg crit none [] [] [] [] []) = .ok (.mk alg crit ct [] [] [] [] []) := by
    cases ct with
    | none => rfl
    | some c =>
      obtain ⟨hgood, hok⟩ := hg.ct c rfl
      have hr := RegLabel.roundtrip _ coap_values_nodup c hgood
      cases c with
      | assigned k =>
        simp [foldRes, headerStep, headerDispatch, e1, e2, e3, hr, Header.setContentType, Header.alg, Header.crit, Header.contentType, Header.keyId,
          Header.iv, Header.partialIv, Header.counterSignatures, Header.rest]
      | text t =>
        have : contentTypeTextOk t = true := by simpa [contentTypeOk, contentTypeTextOk] using hok
        simp [foldRes, headerStep, headerDispatch, e1, e2, e3, hr, this, Header.setContentType, Header.alg, Header.crit, Header.contentType, Header.keyId,
          Header.iv, Header.partialIv, Header.counterSignatures, Header.rest]
  have nb : ∀ b : Bytes, b.isEmpty = false → tryAsNonemptyBytes (.bytes b) = .ok b := by
    intro b hb; simp [tryAsNonemptyBytes, tryAsBytes, hb]
  have s4 : foldRes (headerStep d sf) (if !kid.isEmpty then [(Label.int 4, Value.bytes kid)] else []) (.mk alg crit ct [] [] [] [] [])
      = .ok (.mk alg crit ct kid [] [] [] []) := by
    by_cases hc : kid.isEmpty = true
    · have : kid = [] := List.isEmpty_iff.mp hc
      subst this; simp [foldRes]
    · have hb : kid.isEmpty = false := by simpa using hc
      simp [hc, foldRes, headerStep, headerDispatch, e1, e2, e3, e4, nb kid hb, Header.setKeyId, Header.alg, Header.crit, Header.contentType,
        Header.keyId, Header.iv, Header.partialIv, Header.counterSignatures, Header.rest]
  have s5 : foldRes (headerStep d sf) (if !iv.isEmpty then [(Label.int 5, Value.bytes iv)] else []) (.mk alg crit ct kid [] [] [] [])
      = .ok (.mk alg crit ct kid iv [] [] []) := by
    by_cases hc : iv.isEmpty = true
    · have : iv = [] := List.isEmpty_iff.mp hc
      subst this; simp [foldRes]
    · have hb : iv.isEmpty = false := by simpa using hc
      simp [hc, foldRes, headerStep, headerDispatch, e1, e2, e3, e4, e5, nb iv hb, Header.setIv, Header.alg, Header.crit, Header.contentType,
        Header.keyId, Header.iv, Header.partialIv, Header.counterSignatures, Header.rest]
  have s6 : foldRes (headerStep d sf) (if !piv.isEmpty then [(Label.int 6, Value.bytes piv)] else []) (.mk alg crit ct kid iv [] [] [])
      = .ok (.mk alg crit ct kid iv piv [] []) := by
    by_cases hc : piv.isEmpty = true
    · have : piv = [] := List.isEmpty_iff.mp hc
      subst this; simp [foldRes]
    · have hb : piv.isEmpty = false := by simpa using hc
      have hiv : iv = [] := by
        by_cases hi : iv = []
        · exact hi
        · exact absurd ⟨hi, by intro h0; subst h0; simp at hc⟩ hg.ivs
      subst hiv
      simp [hc, foldRes, headerStep, headerDispatch, e1, e2, e3, e4, e5, e6, nb piv hb, Header.setPartialIv, Header.alg, Header.crit, Header.contentType,
        Header.keyId, Header.iv, Header.partialIv, Header.counterSignatures, Header.rest]
  simp only [foldRes_append, s1, s2, s3, s4, s5, s6]

end Coset
