/- Tie T, one fact per module so that a change of one textual fact breaks only the properties that rest on it (see CosetProofs/Ties.lean). -/
import CosetGen.Iana
import CosetGen.Facts
import CosetGen.Inventory
import CosetRef.PinnedFacts
namespace Coset.Ties

/-- F6: which field each positional `remove(i)` feeds, and the order in which `to_cbor_value` emits the fields. -/
def genRemoveFields := [Gen.CoseSignature_removeFields, Gen.CoseSign_removeFields, Gen.CoseSign1_removeFields, Gen.CoseMac_removeFields, Gen.CoseMac0_removeFields, Gen.CoseRecipient_removeFields, Gen.CoseEncrypt_removeFields, Gen.CoseEncrypt0_removeFields, Gen.PartyInfo_removeFields, Gen.SuppPubInfo_removeFields, Gen.CoseKdfContext_removeFields]
def pinnedRemoveFields := [Pinned.CoseSignature_removeFields, Pinned.CoseSign_removeFields, Pinned.CoseSign1_removeFields, Pinned.CoseMac_removeFields, Pinned.CoseMac0_removeFields, Pinned.CoseRecipient_removeFields, Pinned.CoseEncrypt_removeFields, Pinned.CoseEncrypt0_removeFields, Pinned.PartyInfo_removeFields, Pinned.SuppPubInfo_removeFields, Pinned.CoseKdfContext_removeFields]
theorem remove_fields : genRemoveFields = pinnedRemoveFields := by rfl

end Coset.Ties
