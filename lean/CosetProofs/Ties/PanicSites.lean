/- Tie T, one fact per module so that a change of one textual fact breaks only the properties that rest on it (see CosetProofs/Ties.lean). -/
import CosetProofs.Ties.SitesDef
namespace Coset.Ties

/-- F8: the syntactic panic sites (unwrap / expect / panic! / assert! / unreachable! / remove / index / len-subtraction …) per function:
    the current source has **no site beyond the transcribed tree's, per module and kind** (C01 is "never panics": a site that disappeared —
    a positional `remove` rewritten with iterators, say — cannot hurt it; a new one, or one more of a kind in a function, breaks this).
    The documented panics, whose *presence* matters (C03–C05, C19), are tied separately (builder methods, recipient guards) and
    exercised by the correspondence. -/
theorem panic_sites : sitesCovered Gen.panicSites Pinned.panicSites = true := by decide +kernel

end Coset.Ties
