/- Tie T, one fact per module so that a change of one textual fact breaks only the properties that rest on it (see CosetProofs/Ties.lean). -/
import CosetGen.Iana
import CosetGen.Facts
import CosetGen.Inventory
import CosetRef.PinnedFacts
namespace Coset.Ties

/-- `g` is covered by `p`: every (module, function, kind) of `g` occurs in `p` with at least that many sites. -/
def sitesCovered (g p : List (String × String × String × Nat)) : Bool :=
  g.all fun x => p.any fun y => x.1 == y.1 && x.2.1 == y.2.1 && x.2.2.1 == y.2.2.1 && decide (x.2.2.2 ≤ y.2.2.2)

/-- F8: the syntactic panic sites (unwrap / expect / panic! / assert! / unreachable! / remove / index / len-subtraction …) per function:
    the current source has **no site that the transcribed tree did not have** (C01 is "never panics": a site that disappeared —
    a positional `remove` rewritten with iterators, say — cannot hurt it; a new one, or one more of a kind in a function, breaks this).
    The documented panics, whose *presence* matters (C03–C05, C19), are tied separately (builder methods, recipient guards) and
    exercised by the correspondence. -/
theorem panic_sites : sitesCovered Gen.panicSites Pinned.panicSites = true := by decide +kernel

end Coset.Ties
