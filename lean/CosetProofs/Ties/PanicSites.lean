/- Tie T, one fact per module so that a change of one textual fact breaks only the properties that rest on it (see CosetProofs/Ties.lean). -/
import CosetGen.Iana
import CosetGen.Facts
import CosetGen.Inventory
import CosetRef.PinnedFacts
namespace Coset.Ties

/-- F8: the syntactic panic sites (unwrap / expect / panic! / assert! / unreachable! / remove / index / len-subtraction …) per function. -/
theorem panic_sites : Gen.panicSites = Pinned.panicSites := by rfl

end Coset.Ties
