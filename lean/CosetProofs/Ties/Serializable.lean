/- Tie T, one fact per module so that a change of one textual fact breaks only the properties that rest on it (see CosetProofs/Ties.lean). -/
import CosetGen.Iana
import CosetGen.Facts
import CosetGen.Inventory
import CosetRef.PinnedFacts
namespace Coset.Ties

/-- F9: every `impl (Tagged)CborSerializable` is empty apart from `TAG`; the provided method bodies and `read_to_value` are unchanged. -/
theorem serializable_impls : Gen.serializableImpls = Pinned.serializableImpls := by rfl
theorem default_bodies : Gen.defaultBodies = Pinned.defaultBodies := by rfl

end Coset.Ties
