/- Tie T, one fact per module so that a change of one textual fact breaks only the properties that rest on it (see CosetProofs/Ties.lean). -/
import CosetGen.Iana
import CosetGen.Facts
import CosetGen.Inventory
import CosetRef.PinnedFacts
namespace Coset.Ties

theorem recipient_guards : Gen.recipientGuards = Pinned.recipientGuards := by rfl

end Coset.Ties
