/- Tie T, one fact per module so that a change of one textual fact breaks only the properties that rest on it (see CosetProofs/Ties.lean). -/
import CosetGen.Iana
import CosetGen.Facts
import CosetGen.Inventory
import CosetRef.PinnedFacts
namespace Coset.Ties

/-- F10: which builder macro generates which method, the macro bodies, the hand-written builder methods (guards included). -/
theorem builder_uses : Gen.builderUses = Pinned.builderUses := by rfl
theorem builder_macros : Gen.builderMacros = Pinned.builderMacros := by rfl
theorem builder_methods : Gen.builderMethods = Pinned.builderMethods := by rfl

end Coset.Ties
