/- Tie T, one fact per module so that a change of one textual fact breaks only the properties that rest on it (see CosetProofs/Ties.lean). -/
import CosetGen.Iana
import CosetGen.Facts
import CosetGen.Inventory
import CosetRef.PinnedFacts
namespace Coset.Ties

/-- F3: which context constant each helper hands to which structure function; the recipient-context guard sets. -/
theorem context_routing : Gen.contextRouting = Pinned.contextRouting := by rfl

end Coset.Ties
