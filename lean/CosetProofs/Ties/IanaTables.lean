/- Tie T, fact F1 as a whole: the sixteen registry tables of `src/iana/mod.rs`, name by name and value by value, equal the offline
   transcription of the IANA registries (CosetRef/Iana.lean).  C17 proves this table by table; the properties whose streams *build* values
   from registry names (structures, flows, encoders, builders) import this one fact, so that a swapped pair of rows — invisible to every
   round trip through `from_i64` / `to_i64` — breaks their obligations too (informed round 13). -/
import CosetGen.Iana
import CosetRef.Iana
namespace Coset.Ties

/-- every registry table of the source equals its transcription. -/
def IanaTablesOk : Prop :=
    Gen.HeaderParameter = Ref.HeaderParameter ∧ Gen.HeaderAlgorithmParameter = Ref.HeaderAlgorithmParameter ∧ Gen.Algorithm = Ref.Algorithm ∧
    Gen.KeyParameter = Ref.KeyParameter ∧ Gen.KeyType = Ref.KeyType ∧ Gen.Ec2KeyParameter = Ref.Ec2KeyParameter ∧
    Gen.OkpKeyParameter = Ref.OkpKeyParameter ∧ Gen.RsaKeyParameter = Ref.RsaKeyParameter ∧ Gen.SymmetricKeyParameter = Ref.SymmetricKeyParameter ∧
    Gen.HssLmsKeyParameter = Ref.HssLmsKeyParameter ∧ Gen.WalnutDsaKeyParameter = Ref.WalnutDsaKeyParameter ∧ Gen.EllipticCurve = Ref.EllipticCurve ∧
    Gen.KeyOperation = Ref.KeyOperation ∧ Gen.CborTag = Ref.CborTag ∧ Gen.CoapContentFormat = Ref.CoapContentFormat ∧ Gen.CwtClaimName = Ref.CwtClaimName

theorem iana_tables : IanaTablesOk := by
  unfold IanaTablesOk
  refine ⟨by decide, by decide, by decide +kernel, by decide, by decide, by decide, by decide, by decide, by decide, by decide, by decide, by decide, by decide, by decide, by decide +kernel, by decide⟩

end Coset.Ties
