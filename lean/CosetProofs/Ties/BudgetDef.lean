/- Tie T, fact F11 ("decision budget"): definitions shared by the per-module ties under CosetProofs/Ties/Budget/ and Ties/Compare/. -/
import CosetGen.Inventory
import CosetRef.PinnedFacts
namespace Coset.Ties

/-- items of the inventory that take part in a tie (`str:` items only guide the search; character literals — what a text is split,
    trimmed or counted by — are tied since informed round 10). -/
def tied (item : String) : Bool := !(item.startsWith "str:")

/-- comparisons and integer literals of two or more digits (`lit:`; one-digit ones are `sml:` items, part of the full budget only — arities
    and indices that a rewrite easily adds): what a special case for one particular input is made of — and the
    names of external functions / methods the module calls (`call:` items, presence only; iterator and Option plumbing excluded):
    what a change of meaning without any new branch is made of — and, since informed round 10, character literals, shifts and (round 12) arithmetic operators
    (the connectives `&&` / `||` stay with the owner's full budget: anchor-wide they made one harmless rewrite of `common` break
    thirteen checks instead of one). -/
def comparison (item : String) : Bool := item == "==" || item == "!=" || item == "<=" || item == ">=" || item.startsWith "lit:" || item.startsWith "call:" || item == "conv:as" || item == "letelse"
  || item.startsWith "chr:" || item == "shl" || item == "shr" || item == "mul" || item == "div" || item == "add" || item == "sub"

/-- within module `m`, every construct / literal of `g` selected by `sel` occurs in `p` at least as often. -/
def coveredBy (sel : String → Bool) (m : String) (g p : List (String × String × Nat)) : Bool :=
  (g.filter fun x => x.1 == m && sel x.2.1).all fun x => p.any fun y => y.1 == m && x.2.1 == y.2.1 && decide (x.2.2 ≤ y.2.2)

/-- the whole decision budget of a module (branches, comparisons, literals). -/
def budgetCovered (m : String) (g p : List (String × String × Nat)) : Bool := coveredBy tied m g p
/-- its comparisons and integer literals only. -/
def compareCovered (m : String) (g p : List (String × String × Nat)) : Bool := coveredBy comparison m g p

end Coset.Ties
