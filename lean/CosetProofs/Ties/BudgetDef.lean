/- Tie T, fact F11 ("decision budget"): definitions shared by the per-module ties under CosetProofs/Ties/Budget/. -/
import CosetGen.Inventory
import CosetRef.PinnedFacts
namespace Coset.Ties

/-- within module `m`, every construct / literal of `g` occurs in `p` at least as often. -/
def budgetCovered (m : String) (g p : List (String × String × Nat)) : Bool :=
  (g.filter fun x => x.1 == m).all fun x => p.any fun y => y.1 == m && x.2.1 == y.2.1 && decide (x.2.2 ≤ y.2.2)

end Coset.Ties
