/- Tie T, one fact per module so that a change of one textual fact breaks only the properties that rest on it (see CosetProofs/Ties.lean). -/
import CosetGen.Iana
import CosetGen.Facts
import CosetGen.Inventory
import CosetRef.PinnedFacts
namespace Coset.Ties

/-- F7: the fields of `struct Header` and the tests `Header::is_empty` makes (all eight, one each). -/
theorem header_fields : Gen.headerFields = Pinned.headerFields := by rfl
theorem header_is_empty_tests : Gen.headerIsEmptyTests = Pinned.headerIsEmptyTests := by rfl

end Coset.Ties
