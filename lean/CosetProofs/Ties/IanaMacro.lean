/- Tie T, one fact per module so that a change of one textual fact breaks only the properties that rest on it (see CosetProofs/Ties.lean). -/
import CosetGen.Iana
import CosetGen.Facts
import CosetGen.Inventory
import CosetRef.PinnedFacts
namespace Coset.Ties

/-- F1: the `iana_registry!` macro itself (the tables are checked row by row in C17). -/
theorem iana_macro : Gen.ianaMacroHash = Pinned.ianaMacroHash := by rfl

end Coset.Ties
