/- Tie T, fact F11 for `src/encrypt/mod.rs`: the non-test source of the module holds no branching construct, comparison or integer literal
   beyond those of the tree the model was transcribed from (per construct and per literal: at most as many).  A special case that no
   generated input will ever reach (`if n == 4096 { .. }`) still adds a branch, a comparison or a literal, and breaks this; code that
   went away (a helper extracted, a duplicate removed) does not.  Owned by C05. -/
import CosetProofs.Ties.BudgetDef
namespace Coset.Ties

theorem budget_encrypt : budgetCovered "encrypt" Gen.decisionBudget Pinned.decisionBudget = true := by decide +kernel

end Coset.Ties
