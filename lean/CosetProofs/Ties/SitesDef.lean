/- Tie T, facts F8: definitions shared by the panic-site and conversion-site ties. -/
import CosetGen.Inventory
import CosetRef.PinnedFacts
namespace Coset.Ties

/-- how many sites of kind `k` module `m` holds, over all its functions. -/
def siteTotal (l : List (String × String × String × Nat)) (m k : String) : Nat :=
  (l.filter fun x => x.1 == m && x.2.2.1 == k).foldl (fun acc x => acc + x.2.2.2) 0

/-- `g` is covered by `p`: for every module and kind occurring in `g`, `g` holds at most as many sites as `p` — wherever in the module
    they sit (a site moved into a helper function is the same site; one more of a kind in the module is not). -/
def sitesCovered (g p : List (String × String × String × Nat)) : Bool :=
  g.all fun x => decide (siteTotal g x.1 x.2.2.1 ≤ siteTotal p x.1 x.2.2.1)

end Coset.Ties
