/- Tie T, fact F11 for `src/cwt/mod.rs`, comparisons and integer literals only: the module holds no `==` / `!=` / `<=` / `>=` and no integer
   literal beyond those of the tree the model was transcribed from.  This part of the budget is what a special case for one particular
   input is made of, and it is what behaviour-preserving rewrites leave alone (measured: DESIGN.md §13); it is therefore attached to
   *every* property whose theorems rest on this module (the anchors of properties.jsonl), not to one owner. -/
import CosetProofs.Ties.BudgetDef
namespace Coset.Ties

theorem compare_cwt : compareCovered "cwt" Gen.decisionBudget Pinned.decisionBudget = true := by decide +kernel

end Coset.Ties
