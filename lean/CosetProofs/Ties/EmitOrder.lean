/- Tie T, one fact per module so that a change of one textual fact breaks only the properties that rest on it (see CosetProofs/Ties.lean). -/
import CosetGen.Iana
import CosetGen.Facts
import CosetGen.Inventory
import CosetRef.PinnedFacts
namespace Coset.Ties

def genEmitOrders := [Gen.CoseSignature_emitOrder, Gen.CoseSign_emitOrder, Gen.CoseSign1_emitOrder, Gen.CoseMac_emitOrder, Gen.CoseMac0_emitOrder, Gen.CoseRecipient_emitOrder, Gen.CoseEncrypt_emitOrder, Gen.CoseEncrypt0_emitOrder, Gen.PartyInfo_emitOrder, Gen.SuppPubInfo_emitOrder, Gen.CoseKdfContext_emitOrder]
def pinnedEmitOrders := [Pinned.CoseSignature_emitOrder, Pinned.CoseSign_emitOrder, Pinned.CoseSign1_emitOrder, Pinned.CoseMac_emitOrder, Pinned.CoseMac0_emitOrder, Pinned.CoseRecipient_emitOrder, Pinned.CoseEncrypt_emitOrder, Pinned.CoseEncrypt0_emitOrder, Pinned.PartyInfo_emitOrder, Pinned.SuppPubInfo_emitOrder, Pinned.CoseKdfContext_emitOrder]
theorem emit_order : genEmitOrders = pinnedEmitOrders := by rfl

end Coset.Ties
