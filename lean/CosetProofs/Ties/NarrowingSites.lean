/- Tie T, one fact per module so that a change of one textual fact breaks only the properties that rest on it (see CosetProofs/Ties.lean). -/
import CosetGen.Iana
import CosetGen.Facts
import CosetGen.Inventory
import CosetRef.PinnedFacts
namespace Coset.Ties

/-- F8: the integer conversion sites (`try_into`, `try_from`, `as iN/uN`, `Value::from` / `.into()`) per function. -/
theorem narrowing_sites : Gen.narrowingSites = Pinned.narrowingSites := by rfl

end Coset.Ties
