/- Tie T, one fact per module so that a change of one textual fact breaks only the properties that rest on it (see CosetProofs/Ties.lean). -/
import CosetProofs.Ties.SitesDef
namespace Coset.Ties

/-- the conversions that can lose or refuse a value: `as <int/float type>`, `try_into`, `try_from` (the lossless `From` / `.into()`
    widenings are inventoried too, but moving them around is not a change of meaning). -/
def lossy (l : List (String × String × String × Nat)) : List (String × String × String × Nat) :=
  l.filter fun x => x.2.2.1 != "from"

/-- F8: the integer conversion sites per function: the current source has **no lossy or checked conversion beyond those of the
    transcribed tree** (a new `as`, a `try_into` in a function that had none, one more of a kind in a function: breaks this; a
    conversion that went away does not — whatever replaced it is itself a site, or the decoder no longer narrows there and the
    correspondence on the boundary lattice of C15 decides). -/
theorem narrowing_sites : sitesCovered (lossy Gen.narrowingSites) (lossy Pinned.narrowingSites) = true := by decide +kernel

end Coset.Ties
