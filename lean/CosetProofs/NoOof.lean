/-
  The model-only outcome "out of fuel" never comes out of any decoding entry point: the fuel arguments (there for Lean's termination
  checker — the parser, the header / signature / protected-header family, nested recipients) are invisible at the API.
-/
import CosetProofs.Cbor.Weight
import CosetProofs.NoPanic
import CosetProofs.ClaimsLoop
namespace Coset
open Cbor

/-- try to close `f … ≠ .err .outOfFuel` by splitting every match / if of the (unfolded) body; error branches either build a
    different error kind or pass on a sub-call's error, which the simp set refutes. -/
macro "no_oof" : tactic => `(tactic| (
  (repeat' split) <;>
  (first
    | (intro h; cases h; done)
    | (intro h; cases h; simp_all; done)
    | (simp_all; done))))

@[simp] theorem readToValue_oof (bs : Bytes) : (readToValue bs = .err .outOfFuel) = False := by
  simp [readToValue_no_oof]

@[simp] theorem narrowI64_oof (n : Int) : (narrowI64 n = .err .outOfFuel) = False := by
  simp only [eq_iff_iff, iff_false]; unfold narrowI64; no_oof
@[simp] theorem narrowU64_oof (n : Int) : (narrowU64 n = .err .outOfFuel) = False := by
  simp only [eq_iff_iff, iff_false]; unfold narrowU64; no_oof
@[simp] theorem typeError_oof {α : Type} : ((typeError : Res α) = .err .outOfFuel) = False := by simp [typeError]
@[simp] theorem tryAsBytes_oof (v : Value) : (tryAsBytes v = .err .outOfFuel) = False := by cases v <;> simp [tryAsBytes, typeError]
@[simp] theorem tryAsArray_oof (v : Value) : (tryAsArray v = .err .outOfFuel) = False := by cases v <;> simp [tryAsArray, typeError]
@[simp] theorem tryAsMap_oof (v : Value) : (tryAsMap v = .err .outOfFuel) = False := by cases v <;> simp [tryAsMap, typeError]
@[simp] theorem tryAsNonemptyBytes_oof (v : Value) : (tryAsNonemptyBytes v = .err .outOfFuel) = False := by
  simp only [eq_iff_iff, iff_false]; unfold tryAsNonemptyBytes; no_oof
@[simp] theorem Label_fromValue_oof (v : Value) : (Label.fromValue v = .err .outOfFuel) = False := by
  simp only [eq_iff_iff, iff_false]; unfold Label.fromValue; no_oof
@[simp] theorem RegLabel_fromValue_oof (R : Registry) (v : Value) : (RegLabel.fromValue R v = .err .outOfFuel) = False := by
  simp only [eq_iff_iff, iff_false]; unfold RegLabel.fromValue; no_oof
@[simp] theorem RegLabelPriv_fromValue_oof (R : Registry) (v : Value) : (RegLabelPriv.fromValue R v = .err .outOfFuel) = False := by
  simp only [eq_iff_iff, iff_false]; unfold RegLabelPriv.fromValue; no_oof


theorem mapRes_oof {α β : Type} (f : α → Res β) (hf : ∀ x, f x ≠ .err .outOfFuel) : ∀ xs, mapRes f xs ≠ .err .outOfFuel
  | [] => by simp [mapRes]
  | x :: xs => by
    have ih := mapRes_oof f hf xs
    have hx := hf x
    simp only [mapRes]
    cases h1 : f x with
    | ok y =>
      simp only []
      cases h2 : mapRes f xs with
      | ok ys => simp
      | err e => simp only []; intro h; cases h; exact ih h2
      | panic p => simp
    | err e => simp only []; intro h; cases h; exact hx h1
    | panic p => simp

@[simp] theorem setContains_label_oof (s : List Label) (l : Label) : (setContains Label.cmp s l = .err .outOfFuel) = False := by
  simp [setContains_label]

@[simp] theorem vindex_oof {α : Type} (a : List α) (i : Nat) : (vindex a i = .err .outOfFuel) = False := by
  simp only [eq_iff_iff, iff_false]; unfold vindex; no_oof
@[simp] theorem vremove_oof {α : Type} (a : List α) (i : Nat) : (vremove a i = .err .outOfFuel) = False := by
  simp only [eq_iff_iff, iff_false]; unfold vremove; no_oof

theorem counterSigArm_oof (d : Nat) (sf : Value → Res CoseSignature) (hsf : d ≠ 0 → ∀ v, sf v ≠ .err .outOfFuel) (v : Value) :
    counterSigArm d sf v ≠ .err .outOfFuel := by
  unfold counterSigArm
  cases v with
  | array a =>
    simp only [tryAsArray]
    by_cases he : a.isEmpty = true
    · simp [he]
    · by_cases hd : d = 0
      · simp [he, hd]
      · simp only [he, hd, Bool.false_eq_true, if_false]
        have hs := hsf hd
        cases a with
        | nil => simp at he
        | cons x xs =>
          simp only [vindex, List.getElem?_cons_zero]
          cases x with
          | bytes b =>
            simp only []
            cases h1 : sf (.array (.bytes b :: xs)) with
            | ok s => simp
            | err e => simp only []; intro h; cases h; exact hs _ h1
            | panic p => simp
          | array y => simp only []; exact mapRes_oof sf hs _
          | _ => simp [typeError]
  | _ => simp [tryAsArray, typeError]

theorem headerDispatch_oof (d : Nat) (sf : Value → Res CoseSignature) (hsf : d ≠ 0 → ∀ v, sf v ≠ .err .outOfFuel) (l : Label) (v : Value) (h : Header) :
    headerDispatch d sf l v h ≠ .err .outOfFuel := by
  have hcs := counterSigArm_oof d sf hsf v
  have hm := mapRes_oof (RegLabel.fromValue Reg.headerParameter) (fun x => by simp)
  unfold headerDispatch
  repeat' split
  all_goals first
    | (intro h; cases h; done)
    | (intro h; cases h; simp_all; done)
    | (simp_all; done)

theorem headerLoop_oof (d : Nat) (sf : Value → Res CoseSignature) (hsf : d ≠ 0 → ∀ v, sf v ≠ .err .outOfFuel) :
    ∀ (m : List (Value × Value)) (h : Header) (seen : List Label), headerLoop d sf m h seen ≠ .err .outOfFuel := by
  intro m
  induction m with
  | nil => intro h seen; simp [headerLoop]
  | cons kv m ih =>
    obtain ⟨k, v⟩ := kv
    intro h seen
    simp only [headerLoop, setContains_label]
    cases hl : Label.fromValue k with
    | ok label =>
      simp only []
      by_cases hin : label ∈ seen
      · simp [hin]
      · simp only [hin, decide_false]
        cases hd : headerDispatch d sf label v h with
        | ok h' =>
          simp only []
          split
          · simp
          · exact ih _ _
        | err e => simp only []; intro hh; cases hh; exact headerDispatch_oof d sf hsf label v h hd
        | panic p => simp
    | err e => simp only []; intro hh; cases hh; simp_all
    | panic p => simp

/-- the header family at the API's fuel: by induction on the nesting budget. -/
theorem family_oof : ∀ d,
    (∀ f v, 3 * d + 1 ≤ f → Header.fromValue f d v ≠ .err .outOfFuel) ∧
    (∀ f v, 3 * d + 2 ≤ f → ProtectedHeader.fromBstr f d v ≠ .err .outOfFuel) ∧
    (∀ f v, 3 * d + 3 ≤ f → CoseSignature.fromValue f d v ≠ .err .outOfFuel) := by
  intro d
  induction d with
  | zero =>
    have hH : ∀ f v, 1 ≤ f → Header.fromValue f 0 v ≠ .err .outOfFuel := by
      intro f v hf
      obtain ⟨g, rfl⟩ : ∃ g, f = g + 1 := ⟨f - 1, by omega⟩
      simp only [Header.fromValue]
      cases v with
      | map m => simp only [tryAsMap]; exact headerLoop_oof 0 _ (fun h => absurd rfl h) m _ _
      | _ => simp [tryAsMap, typeError]
    have hP : ∀ f v, 2 ≤ f → ProtectedHeader.fromBstr f 0 v ≠ .err .outOfFuel := by
      intro f v hf
      obtain ⟨g, rfl⟩ : ∃ g, f = g + 1 := ⟨f - 1, by omega⟩
      simp only [ProtectedHeader.fromBstr]
      have := fun w => hH g w (by omega)
      repeat' split
      all_goals first
        | (intro h; cases h; done)
        | (intro h; cases h; simp_all; done)
        | (simp_all; done)
    refine ⟨hH, hP, ?_⟩
    intro f v hf
    obtain ⟨g, rfl⟩ : ∃ g, f = g + 1 := ⟨f - 1, by omega⟩
    simp only [CoseSignature.fromValue]
    have h1 := fun w => hH g w (by omega); have h2 := fun w => hP g w (by omega)
    repeat' split
    all_goals first
      | (intro h; cases h; done)
      | (intro h; cases h; simp_all; done)
      | (simp_all; done)
  | succ d ih =>
    obtain ⟨ihH, ihP, ihS⟩ := ih
    have hH : ∀ f v, 3 * (d + 1) + 1 ≤ f → Header.fromValue f (d + 1) v ≠ .err .outOfFuel := by
      intro f v hf
      obtain ⟨g, rfl⟩ : ∃ g, f = g + 1 := ⟨f - 1, by omega⟩
      simp only [Header.fromValue]
      cases v with
      | map m =>
        simp only [tryAsMap]
        exact headerLoop_oof (d + 1) _ (fun _ w => by simpa using ihS g w (by omega)) m _ _
      | _ => simp [tryAsMap, typeError]
    have hP : ∀ f v, 3 * (d + 1) + 2 ≤ f → ProtectedHeader.fromBstr f (d + 1) v ≠ .err .outOfFuel := by
      intro f v hf
      obtain ⟨g, rfl⟩ : ∃ g, f = g + 1 := ⟨f - 1, by omega⟩
      simp only [ProtectedHeader.fromBstr]
      have := fun w => hH g w (by omega)
      repeat' split
      all_goals first
        | (intro h; cases h; done)
        | (intro h; cases h; simp_all; done)
        | (simp_all; done)
    refine ⟨hH, hP, ?_⟩
    intro f v hf
    obtain ⟨g, rfl⟩ : ∃ g, f = g + 1 := ⟨f - 1, by omega⟩
    simp only [CoseSignature.fromValue]
    have h1 := fun w => hH g w (by omega); have h2 := fun w => hP g w (by omega)
    repeat' split
    all_goals first
      | (intro h; cases h; done)
      | (intro h; cases h; simp_all; done)
      | (simp_all; done)

@[simp] theorem hdrFromValue_oof (v : Value) : (hdrFromValue v = .err .outOfFuel) = False := by
  simp only [eq_iff_iff, iff_false]; exact (family_oof maxNest).1 _ v (by unfold topFuel; omega)
@[simp] theorem phFromBstr_oof (v : Value) : (phFromBstr v = .err .outOfFuel) = False := by
  simp only [eq_iff_iff, iff_false]; exact (family_oof maxNest).2.1 _ v (by unfold topFuel; omega)
@[simp] theorem sigFromValue_oof (v : Value) : (sigFromValue v = .err .outOfFuel) = False := by
  simp only [eq_iff_iff, iff_false]; exact (family_oof maxNest).2.2 _ v (by unfold topFuel; omega)


/-! ### messages, recipients, keys, claims, KDF context -/

macro "no_oof_all" : tactic => `(tactic| (
  (repeat' split)
  all_goals first
    | (intro h; cases h; done)
    | (intro h; cases h; simp_all; done)
    | (simp_all; done)
    | (intro h; cases h; rename_i heq; revert heq; (repeat' split) <;> (first | (simp_all; done) | (intro h2; simp_all; done) | (intros; simp_all; done)); done)))

@[simp] theorem optBytes_oof (v : Value) : (optBytes v = .err .outOfFuel) = False := by cases v <;> simp [optBytes, typeError]
@[simp] theorem nullOrBytes_oof (v : Value) : (nullOrBytes v = .err .outOfFuel) = False := by cases v <;> simp [nullOrBytes, typeError]

theorem tryAsArrayThenConvert_oof {α : Type} (f : Value → Res α) (hf : ∀ x, f x ≠ .err .outOfFuel) (v : Value) :
    tryAsArrayThenConvert f v ≠ .err .outOfFuel := by
  unfold tryAsArrayThenConvert
  cases v with
  | array a => simp only [tryAsArray]; exact mapRes_oof f hf a
  | _ => simp [tryAsArray, typeError]

@[simp] theorem headersTail_oof (a : List Value) (i1 i0 : Nat) : (headersTail a i1 i0 = .err .outOfFuel) = False := by
  simp only [eq_iff_iff, iff_false]; unfold headersTail; no_oof_all
@[simp] theorem payloadTail_oof (a : List Value) (i2 i1 i0 : Nat) : (payloadTail a i2 i1 i0 = .err .outOfFuel) = False := by
  simp only [eq_iff_iff, iff_false]; unfold payloadTail; no_oof_all

theorem sigMapErr_oof (v : Value) : (sigFromValue v).mapErr .unexpectedItem ≠ .err .outOfFuel := by
  cases h : sigFromValue v <;> simp [Res.mapErr]

theorem sign1_oof (v : Value) : CoseSign1.fromValue v ≠ .err .outOfFuel := by unfold CoseSign1.fromValue; no_oof_all
theorem mac0_oof (v : Value) : CoseMac0.fromValue v ≠ .err .outOfFuel := by unfold CoseMac0.fromValue; no_oof_all
theorem encrypt0_oof (v : Value) : CoseEncrypt0.fromValue v ≠ .err .outOfFuel := by unfold CoseEncrypt0.fromValue; no_oof_all
theorem sign_oof (v : Value) : CoseSign.fromValue v ≠ .err .outOfFuel := by
  have hs := fun x => tryAsArrayThenConvert_oof (fun v => (sigFromValue v).mapErr .unexpectedItem) sigMapErr_oof x
  unfold CoseSign.fromValue; no_oof_all

theorem size_mem_le (x : Value) : ∀ xs : List Value, x ∈ xs → x.size ≤ Value.sizeL xs := by
  intro xs
  induction xs with
  | nil => intro h; cases h
  | cons y ys ih =>
    intro h
    simp only [Value.sizeL]
    rcases List.mem_cons.mp h with rfl | h'
    · omega
    · have := ih h'; omega

theorem mapRes_oof_mem {α β : Type} (f : α → Res β) : ∀ xs, (∀ x ∈ xs, f x ≠ .err .outOfFuel) → mapRes f xs ≠ .err .outOfFuel
  | [], _ => by simp [mapRes]
  | x :: xs, hf => by
    have ih := mapRes_oof_mem f xs (fun y hy => hf y (by simp [hy]))
    have hx := hf x (by simp)
    simp only [mapRes]
    cases h1 : f x with
    | ok y =>
      simp only []
      cases h2 : mapRes f xs with
      | ok ys => simp
      | err e => simp only []; intro h; cases h; exact ih h2
      | panic p => simp
    | err e => simp only []; intro h; cases h; exact hx h1
    | panic p => simp

/-- recipients: the fuel the entry point supplies (size of the value + 1) is never exhausted. -/
theorem recipient_oof : ∀ (f : Nat) (v : Value), v.size < f → CoseRecipient.fromValue f v ≠ .err .outOfFuel := by
  intro f
  induction f with
  | zero => intro v h; omega
  | succ f ih =>
    intro v hv
    cases v with
    | array a =>
      simp only [Value.size] at hv
      have hnest : ∀ x, x ∈ a → ∀ xs, x = .array xs → mapRes (CoseRecipient.fromValue f) xs ≠ .err .outOfFuel := by
        intro x hx xs hxs
        subst hxs
        have h2 := size_mem_le _ a hx
        simp only [Value.size] at h2
        apply mapRes_oof_mem
        intro y hy
        have h3 := size_mem_le y xs hy
        exact ih y (by omega)
      simp only [CoseRecipient.fromValue, tryAsArray]
      by_cases hbad : Gen.CoseRecipient_arityBad a.length = true
      · simp [hbad]
      · simp only [hbad, Bool.false_eq_true, if_false]
        by_cases h4 : (a.length == 4) = true
        · simp only [h4, if_true]
          cases hr : vremove a (Gen.CoseRecipient_removes.getD 0 99) with
          | ok p =>
            obtain ⟨x3, a'⟩ := p
            simp only []
            have hx3 : x3 ∈ a := by
              unfold vremove at hr
              split at hr
              · next x hx => simp at hr; obtain ⟨rfl, _⟩ := hr; exact List.mem_of_getElem? hx
              · simp at hr
            cases x3 with
            | array xs =>
              simp only [tryAsArrayThenConvert, tryAsArray]
              have hm := hnest _ hx3 xs rfl
              cases hmr : mapRes (CoseRecipient.fromValue f) xs with
              | ok rs => simp only []; no_oof_all
              | err e => simp only []; intro h; cases h; exact hm hmr
              | panic p => simp
            | _ => simp [tryAsArrayThenConvert, tryAsArray, typeError]
          | err e => simp only []; intro h; cases h; simp_all
          | panic p => simp
        · simp only [h4, Bool.false_eq_true, if_false]; no_oof_all
    | _ => simp [CoseRecipient.fromValue, tryAsArray, typeError]

theorem rcp_oof (v : Value) : rcpFromValue v ≠ .err .outOfFuel := recipient_oof _ v (by omega)

theorem encrypt_oof (v : Value) : CoseEncrypt.fromValue v ≠ .err .outOfFuel := by
  have hs := fun x => tryAsArrayThenConvert_oof rcpFromValue rcp_oof x
  unfold CoseEncrypt.fromValue; no_oof_all
theorem mac_oof (v : Value) : CoseMac.fromValue v ≠ .err .outOfFuel := by
  have hs := fun x => tryAsArrayThenConvert_oof rcpFromValue rcp_oof x
  unfold CoseMac.fromValue; no_oof_all


/-! ### ordered sets driven by a comparison that always answers -/

theorem setContains_oof {α : Type} (cmp : α → α → Res Ordering) (hc : ∀ a b, ∃ o, cmp a b = .ok o) (x : α) :
    ∀ s, setContains cmp s x ≠ .err .outOfFuel := by
  intro s
  induction s with
  | nil => simp [setContains]
  | cons y ys ih =>
    obtain ⟨o, ho⟩ := hc x y
    simp only [setContains, ho]
    cases o <;> simp [ih]

theorem setInsert_oof {α : Type} (cmp : α → α → Res Ordering) (hc : ∀ a b, ∃ o, cmp a b = .ok o) (x : α) :
    ∀ s, setInsert cmp s x ≠ .err .outOfFuel := by
  intro s
  induction s with
  | nil => simp [setInsert]
  | cons y ys ih =>
    obtain ⟨o, ho⟩ := hc x y
    simp only [setInsert, ho]
    cases o with
    | lt => simp
    | eq => simp
    | gt =>
      simp only []
      cases h : setInsert cmp ys x with
      | ok r => cases r <;> simp
      | err e => simp only []; intro hh; cases hh; exact ih h
      | panic p => simp

theorem keyOpsLoop_oof : ∀ (a : List Value) (s : List RegLabel), keyOpsLoop a s ≠ .err .outOfFuel := by
  intro a
  induction a with
  | nil => intro s; simp [keyOpsLoop]
  | cons v vs ih =>
    intro s
    simp only [keyOpsLoop]
    cases hf : RegLabel.fromValue Reg.keyOperation v with
    | ok op =>
      simp only []
      have hi := setInsert_oof _ (regLabel_cmp_ok Reg.keyOperation) op s
      cases h : setInsert (RegLabel.cmp Reg.keyOperation) s op with
      | ok r => cases r <;> simp [ih]
      | err e => simp only []; intro hh; cases hh; exact hi h
      | panic p => simp
    | err e => simp only []; intro hh; cases hh; simp_all
    | panic p => simp

theorem keyDispatch_oof (l : Label) (v : Value) (k : CoseKey) : keyDispatch l v k ≠ .err .outOfFuel := by
  have hk := fun a => keyOpsLoop_oof a k.keyOps
  unfold keyDispatch; no_oof_all

theorem keyLoop_oof : ∀ (m : List (Value × Value)) (k : CoseKey) (seen : List Label), keyLoop m k seen ≠ .err .outOfFuel := by
  intro m
  induction m with
  | nil => intro k seen; simp [keyLoop]
  | cons kv m ih =>
    obtain ⟨l, v⟩ := kv
    intro k seen
    simp only [keyLoop, setContains_label]
    cases hl : Label.fromValue l with
    | ok label =>
      simp only []
      by_cases hin : label ∈ seen
      · simp [hin]
      · simp only [hin, decide_false]
        cases hd : keyDispatch label v k with
        | ok k' => simp only []; exact ih _ _
        | err e => simp only []; intro hh; cases hh; exact keyDispatch_oof label v k hd
        | panic p => simp
    | err e => simp only []; intro hh; cases hh; simp_all
    | panic p => simp

theorem key_oof (v : Value) : CoseKey.fromValue v ≠ .err .outOfFuel := by
  have hk := fun m => keyLoop_oof m CoseKey.default []
  unfold CoseKey.fromValue; no_oof_all

theorem keyset_oof (v : Value) : CoseKeySet.fromValue v ≠ .err .outOfFuel :=
  tryAsArrayThenConvert_oof CoseKey.fromValue key_oof v

@[simp] theorem tryAsInteger_oof (v : Value) : (tryAsInteger v = .err .outOfFuel) = False := by cases v <;> simp [tryAsInteger, typeError]
@[simp] theorem tryAsString_oof (v : Value) : (tryAsString v = .err .outOfFuel) = False := by cases v <;> simp [tryAsString, typeError]
@[simp] theorem timestamp_oof (v : Value) : (Timestamp.fromValue v = .err .outOfFuel) = False := by
  simp only [eq_iff_iff, iff_false]; unfold Timestamp.fromValue; no_oof_all

theorem claimDispatch_oof (n : RegLabelPriv) (v : Value) (c : ClaimsSet) : claimDispatch n v c ≠ .err .outOfFuel := by
  unfold claimDispatch; no_oof_all

theorem claimsLoop_oof : ∀ (m : List (Value × Value)) (c : ClaimsSet) (seen : List RegLabelPriv), claimsLoop m c seen ≠ .err .outOfFuel := by
  intro m
  induction m with
  | nil => intro c seen; simp [claimsLoop]
  | cons kv m ih =>
    obtain ⟨n, v⟩ := kv
    intro c seen
    simp only [claimsLoop]
    cases hl : RegLabelPriv.fromValue Reg.cwtClaimName n with
    | ok name =>
      simp only []
      have hsc := setContains_oof _ (regPriv_cmp_ok Reg.cwtClaimName) name seen
      cases hc : setContains (RegLabelPriv.cmp Reg.cwtClaimName) seen name with
      | ok b =>
        cases b
        · simp only []
          cases hd : claimDispatch name v c with
          | ok c' => simp only []; exact ih _ _
          | err e => simp only []; intro hh; cases hh; exact claimDispatch_oof name v c hd
          | panic p => simp
        · simp
      | err e => simp only []; intro hh; cases hh; exact hsc hc
      | panic p => simp
    | err e => simp only []; intro hh; cases hh; simp_all
    | panic p => simp

theorem claims_oof (v : Value) : ClaimsSet.fromValue v ≠ .err .outOfFuel := by
  cases v with
  | map m => exact claimsLoop_oof m _ _
  | _ => simp [ClaimsSet.fromValue, typeError]

@[simp] theorem party_oof (v : Value) : (PartyInfo.fromValue v = .err .outOfFuel) = False := by
  simp only [eq_iff_iff, iff_false]; unfold PartyInfo.fromValue; no_oof_all
@[simp] theorem supp_oof (v : Value) : (SuppPubInfo.fromValue v = .err .outOfFuel) = False := by
  simp only [eq_iff_iff, iff_false]; unfold SuppPubInfo.fromValue; no_oof_all

theorem kdfTail_oof : ∀ (is : List Nat) (a : List Value) (acc : List Bytes), kdfTail is a acc ≠ .err .outOfFuel := by
  intro is
  induction is with
  | nil => intro a acc; simp [kdfTail]
  | cons i is ih =>
    intro a acc
    simp only [kdfTail]
    cases h1 : vremove a i with
    | ok p =>
      obtain ⟨x, a'⟩ := p
      simp only []
      cases h2 : tryAsBytes x with
      | ok b => simp only []; exact ih _ _
      | err e => simp only []; intro hh; cases hh; simp_all
      | panic p => simp
    | err e => simp only []; intro hh; cases hh; simp_all
    | panic p => simp

theorem kdf_oof (v : Value) : CoseKdfContext.fromValue v ≠ .err .outOfFuel := by
  have hk := fun is a acc => kdfTail_oof is a acc
  unfold CoseKdfContext.fromValue; no_oof_all

/-! ### at the byte-level entry points -/

theorem fromSlice_oof {α : Type} (conv : Value → Res α) (hc : ∀ v, conv v ≠ .err .outOfFuel) (bs : Bytes) :
    fromSlice conv bs ≠ .err .outOfFuel := by
  unfold fromSlice
  cases h : readToValue bs with
  | ok v => exact hc v
  | err e => simp only []; intro hh; cases hh; exact readToValue_no_oof bs h
  | panic p => simp

theorem fromTaggedSlice_oof {α : Type} (tag : Nat) (conv : Value → Res α) (hc : ∀ v, conv v ≠ .err .outOfFuel) (bs : Bytes) :
    fromTaggedSlice tag conv bs ≠ .err .outOfFuel := by
  unfold fromTaggedSlice
  cases h : readToValue bs with
  | ok v =>
    simp only []
    cases v with
    | tag t inner =>
      simp only [tryAsTag]
      split
      · simp
      · exact hc _
    | _ => simp [tryAsTag, typeError]
  | err e => simp only []; intro hh; cases hh; exact readToValue_no_oof bs h
  | panic p => simp

end Coset
