/-
  Encoding never panics; the structure functions panic only on a *built* protected header that fails to serialise
  (never on a decoded one: its stored bytes are used as they are).
-/
import CosetProofs.NoPanic
namespace Coset

theorem restToPairs_NP : ∀ (rest : List (Label × Value)) (seen : List Label) (acc : List (Value × Value)), NP (restToPairs rest seen acc) := by
  intro rest
  induction rest with
  | nil => intro seen acc; exact NP_ok _
  | cons lv rest ih =>
    intro seen acc p h
    obtain ⟨l, v⟩ := lv
    simp only [restToPairs, setContains_label] at h
    by_cases hin : l ∈ seen
    · simp [hin] at h
    · simp only [hin, decide_false] at h
      cases l <;> simp only [Label.toValue] at h <;> exact ih _ _ p h

theorem headerFinish_NP (m : List (Value × Value)) (rest : List (Label × Value)) : NP (headerFinish m rest) := by
  intro p hp
  unfold headerFinish at hp
  cases hr : restToPairs rest (typedSeen m) m with
  | ok m' => simp [hr] at hp
  | err e => simp [hr] at hp
  | panic q => exact restToPairs_NP rest _ _ q hr

mutual
theorem Header.toValue_NP : ∀ (h : Header), NP (Header.toValue h)
  | .mk alg crit ct kid iv piv cs rest => by
    intro p hp
    cases cs with
    | nil => rw [Header.toValue] at hp; exact headerFinish_NP _ _ p hp
    | cons s ss =>
      cases ss with
      | nil =>
        rw [Header.toValue] at hp
        cases hs : CoseSignature.toValue s with
        | ok v => simp only [hs] at hp; exact headerFinish_NP _ _ p hp
        | err e => simp [hs] at hp
        | panic q => exact CoseSignature.toValue_NP s q hs
      | cons s2 ss2 =>
        rw [Header.toValue] at hp
        cases hs : sigsToValues (s :: s2 :: ss2) with
        | ok vs => simp only [hs] at hp; exact headerFinish_NP _ _ p hp
        | err e => simp [hs] at hp
        | panic q => exact sigsToValues_NP (s :: s2 :: ss2) q hs
theorem CoseSignature.toValue_NP : ∀ (s : CoseSignature), NP (CoseSignature.toValue s)
  | .mk prot unprot sig => by
    intro p hp
    simp only [CoseSignature.toValue] at hp
    cases h1 : ProtectedHeader.cborBstr prot with
    | ok pv =>
      simp only [h1] at hp
      cases h2 : Header.toValue unprot with
      | ok u => simp [h2] at hp
      | err e => simp [h2] at hp
      | panic q => exact Header.toValue_NP unprot q h2
    | err e => simp [h1] at hp
    | panic q => exact ProtectedHeader.cborBstr_NP prot q h1
theorem ProtectedHeader.cborBstr_NP : ∀ (ph : ProtectedHeader), NP (ProtectedHeader.cborBstr ph)
  | .mk orig h => by
    intro p hp
    simp only [ProtectedHeader.cborBstr] at hp
    cases orig with
    | some d => simp at hp
    | none =>
      simp only [] at hp
      split at hp
      · simp at hp
      · cases h2 : Header.toValue h with
        | ok v => simp [h2] at hp
        | err e => simp [h2] at hp
        | panic q => exact Header.toValue_NP h q h2
theorem sigsToValues_NP : ∀ (ss : List CoseSignature), NP (sigsToValues ss)
  | [] => NP_ok _
  | s :: ss => by
    intro p hp
    simp only [sigsToValues] at hp
    cases h1 : CoseSignature.toValue s with
    | ok v =>
      simp only [h1] at hp
      cases h2 : sigsToValues ss with
      | ok vs => simp [h2] at hp
      | err e => simp [h2] at hp
      | panic q => exact sigsToValues_NP ss q h2
    | err e => simp [h1] at hp
    | panic q => exact CoseSignature.toValue_NP s q h1
end

end Coset
