/-
  No decoding entry point panics (every modelled panic site is dominated by its guard).
-/
import CosetProofs.HeaderFields
import CosetProofs.Shapes
namespace Coset

/-- "this result is not a panic". -/
def NP {α : Type} (r : Res α) : Prop := ∀ p, r ≠ .panic p

theorem NP_ok {α : Type} (a : α) : NP (Res.ok a) := fun _ h => by cases h
theorem NP_err {α : Type} (e : CoseErr) : NP (Res.err e : Res α) := fun _ h => by cases h

theorem mapRes_NP {α β : Type} (f : α → Res β) (hf : ∀ x, NP (f x)) : ∀ xs, NP (mapRes f xs)
  | [] => NP_ok _
  | x :: xs => by
    intro p h
    simp only [mapRes] at h
    cases hx : f x with
    | ok y =>
      simp only [hx] at h
      cases hxs : mapRes f xs with
      | ok ys => simp [hxs] at h
      | err e => simp [hxs] at h
      | panic q => exact mapRes_NP f hf xs q hxs
    | err e => simp [hx] at h
    | panic q => exact hf x q hx

theorem readToValue_NP (bs : Bytes) : NP (readToValue bs) := by
  intro p h
  unfold readToValue at h
  cases hr : Cbor.fromReader bs with
  | ok vr => obtain ⟨v, r⟩ := vr; simp only [hr] at h; split at h <;> simp at h
  | err => simp [hr] at h
  | oof => simp [hr] at h

theorem narrowI64_NP (n : Int) : NP (narrowI64 n) := by intro p h; unfold narrowI64 at h; split at h <;> simp at h
theorem narrowU64_NP (n : Int) : NP (narrowU64 n) := by intro p h; unfold narrowU64 at h; split at h <;> simp at h

theorem Label_fromValue_NP (v : Value) : NP (Label.fromValue v) := fun p => Label.fromValue_no_panic v p

theorem RegLabel_fromValue_NP (R : Registry) (v : Value) : NP (RegLabel.fromValue R v) := by
  intro p h
  cases v with
  | int i =>
    simp only [RegLabel.fromValue] at h
    cases hn : narrowI64 i with
    | ok n => simp only [hn] at h; split at h <;> simp at h
    | err e => simp [hn] at h
    | panic q => exact narrowI64_NP i q hn
  | text t => simp [RegLabel.fromValue] at h
  | _ => simp [RegLabel.fromValue, typeError] at h

theorem RegLabelPriv_fromValue_NP (R : Registry) (v : Value) : NP (RegLabelPriv.fromValue R v) := by
  intro p h
  cases v with
  | int i =>
    simp only [RegLabelPriv.fromValue] at h
    cases hn : narrowI64 i with
    | ok n =>
      simp only [hn] at h
      cases hf : R.fromI64 n with
      | some k => simp [hf] at h
      | none => simp only [hf] at h; split at h <;> simp at h
    | err e => simp [hn] at h
    | panic q => exact narrowI64_NP i q hn
  | text t => simp [RegLabelPriv.fromValue] at h
  | _ => simp [RegLabelPriv.fromValue, typeError] at h

theorem tryAsNonemptyBytes_NP (v : Value) : NP (tryAsNonemptyBytes v) := by
  intro p h; cases v <;> simp [tryAsNonemptyBytes, tryAsBytes, typeError] at h
  split at h <;> simp at h

theorem tryAsBytes_NP (v : Value) : NP (tryAsBytes v) := by intro p h; cases v <;> simp [tryAsBytes, typeError] at h
theorem optBytes_NP (v : Value) : NP (optBytes v) := by intro p h; cases v <;> simp [optBytes, typeError] at h
theorem nullOrBytes_NP (v : Value) : NP (nullOrBytes v) := by intro p h; cases v <;> simp [nullOrBytes, typeError] at h

/-- the counter-signature arm: `sig_or_sigs[0]` is guarded by the emptiness test. -/
theorem counterSigArm_NP (d : Nat) (sf : Value → Res CoseSignature) (hsf : ∀ v, NP (sf v)) (v : Value) : NP (counterSigArm d sf v) := by
  intro p h
  cases v with
  | array a =>
    simp only [counterSigArm, tryAsArray] at h
    cases a with
    | nil => simp at h
    | cons x xs =>
      simp only [List.isEmpty_cons, Bool.false_eq_true, if_false] at h
      by_cases hd : d = 0
      · simp [hd] at h
      · simp only [hd, if_false, vindex, List.getElem?_cons_zero] at h
        cases x with
        | bytes b =>
          simp only [] at h
          cases hs : sf (.array (.bytes b :: xs)) with
          | ok s => simp [hs] at h
          | err e => simp [hs] at h
          | panic q => exact hsf _ q hs
        | array y => exact mapRes_NP sf hsf _ p h
        | _ => simp [typeError] at h
  | _ => simp [counterSigArm, tryAsArray, typeError] at h

theorem headerDispatch_NP (d : Nat) (sf : Value → Res CoseSignature) (hsf : ∀ v, NP (sf v)) (l : Label) (v : Value) (h : Header) :
    NP (headerDispatch d sf l v h) := by
  intro p hp
  unfold headerDispatch at hp
  split at hp
  · cases ha : RegLabelPriv.fromValue Reg.algorithm v with
    | ok a => simp [ha] at hp
    | err e => simp [ha] at hp
    | panic q => exact RegLabelPriv_fromValue_NP _ v q ha
  · split at hp
    · cases v with
      | array a =>
        simp only [] at hp
        split at hp
        · simp at hp
        · cases hm : mapRes (RegLabel.fromValue Reg.headerParameter) a with
          | ok ls => simp [hm] at hp
          | err e => simp [hm] at hp
          | panic q => exact mapRes_NP _ (RegLabel_fromValue_NP _) a q hm
      | _ => simp [typeError] at hp
    · split at hp
      · cases hc : RegLabel.fromValue Reg.coapContentFormat v with
        | ok c =>
          simp only [hc] at hp
          cases c with
          | text t => simp only [] at hp; split at hp <;> simp at hp
          | assigned k => simp at hp
        | err e => simp [hc] at hp
        | panic q => exact RegLabel_fromValue_NP _ v q hc
      · split at hp
        · cases hb : tryAsNonemptyBytes v with
          | ok b => simp [hb] at hp
          | err e => simp [hb] at hp
          | panic q => exact tryAsNonemptyBytes_NP v q hb
        · split at hp
          · cases hb : tryAsNonemptyBytes v with
            | ok b => simp [hb] at hp
            | err e => simp [hb] at hp
            | panic q => exact tryAsNonemptyBytes_NP v q hb
          · split at hp
            · cases hb : tryAsNonemptyBytes v with
              | ok b => simp [hb] at hp
              | err e => simp [hb] at hp
              | panic q => exact tryAsNonemptyBytes_NP v q hb
            · split at hp
              · cases hs : counterSigArm d sf v with
                | ok ss => simp [hs] at hp
                | err e => simp [hs] at hp
                | panic q => exact counterSigArm_NP d sf hsf v q hs
              · simp at hp

theorem headerLoop_NP (d : Nat) (sf : Value → Res CoseSignature) (hsf : ∀ v, NP (sf v)) :
    ∀ (m : List (Value × Value)) (h : Header) (seen : List Label), NP (headerLoop d sf m h seen) := by
  intro m
  induction m with
  | nil => intro h seen; exact NP_ok _
  | cons kv m ih =>
    intro h seen p hp
    obtain ⟨k, v⟩ := kv
    simp only [headerLoop] at hp
    cases hk : Label.fromValue k with
    | ok l =>
      simp only [hk, setContains_label] at hp
      by_cases hin : l ∈ seen
      · simp [hin] at hp
      · simp only [hin, decide_false] at hp
        cases hd : headerDispatch d sf l v h with
        | ok h1 =>
          simp only [hd] at hp
          split at hp
          · simp at hp
          · exact ih h1 _ p hp
        | err e => simp [hd] at hp
        | panic q => exact headerDispatch_NP d sf hsf l v h q hd
    | err e => simp [hk] at hp
    | panic q => exact Label_fromValue_NP k q hk

/-- C01 core: the mutually recursive family never panics, at any fuel and nesting budget. -/
theorem header_family_NP : ∀ fuel, (∀ d v, NP (Header.fromValue fuel d v)) ∧ (∀ d v, NP (CoseSignature.fromValue fuel d v)) ∧
    (∀ d v, NP (ProtectedHeader.fromBstr fuel d v)) := by
  intro fuel
  induction fuel with
  | zero => exact ⟨fun d v p h => by simp [Header.fromValue] at h, fun d v p h => by simp [CoseSignature.fromValue] at h,
      fun d v p h => by simp [ProtectedHeader.fromBstr] at h⟩
  | succ f ih =>
    obtain ⟨ihH, ihS, ihP⟩ := ih
    refine ⟨?_, ?_, ?_⟩
    · intro d v p h
      cases v with
      | map m => simp only [Header.fromValue, tryAsMap] at h; exact headerLoop_NP d _ (ihS (d - 1)) m _ _ p h
      | _ => simp [Header.fromValue, tryAsMap, typeError] at h
    · intro d v p h
      cases v with
      | array a =>
        simp only [CoseSignature.fromValue, tryAsArray, Gen.CoseSignature_arityBad] at h
        by_cases hl : a.length = 3
        · obtain ⟨x0, x1, x2, rfl⟩ := list_len3 a hl
          simp only [List.length_cons, List.length_nil, bne_self_eq_false, Bool.false_eq_true, if_false, Gen.CoseSignature_removes, List.getD_cons_zero,
            List.getD_cons_succ, vremove, List.getElem?_cons_succ, List.getElem?_cons_zero, List.eraseIdx_cons_succ, List.eraseIdx_cons_zero] at h
          cases hs : tryAsBytes x2 with
          | ok sig =>
            simp only [hs] at h
            cases hu : Header.fromValue f d x1 with
            | ok u =>
              simp only [hu] at h
              cases hp : ProtectedHeader.fromBstr f d x0 with
              | ok pp => simp [hp] at h
              | err e => simp [hp] at h
              | panic q => exact ihP d x0 q hp
            | err e => simp [hu] at h
            | panic q => exact ihH d x1 q hu
          | err e => simp [hs] at h
          | panic q => exact tryAsBytes_NP x2 q hs
        · have : (a.length != 3) = true := by simpa using hl
          simp [this] at h
      | _ => simp [CoseSignature.fromValue, tryAsArray, typeError] at h
    · intro d v p h
      cases v with
      | bytes data =>
        simp only [ProtectedHeader.fromBstr, tryAsBytes] at h
        split at h
        · simp at h
        · cases hr : readToValue data with
          | ok x =>
            simp only [hr] at h
            cases hh : Header.fromValue f d x with
            | ok hd => simp [hh] at h
            | err e => simp [hh] at h
            | panic q => exact ihH d x q hh
          | err e => simp [hr] at h
          | panic q => exact readToValue_NP data q hr
      | _ => simp [ProtectedHeader.fromBstr, tryAsBytes, typeError] at h

theorem hdrFromValue_NP (v : Value) : NP (hdrFromValue v) := (header_family_NP _).1 _ v
theorem sigFromValue_NP (v : Value) : NP (sigFromValue v) := (header_family_NP _).2.1 _ v
theorem phFromBstr_NP (v : Value) : NP (phFromBstr v) := (header_family_NP _).2.2 _ v

end Coset

namespace Coset

theorem headersTail_NP (x0 x1 : Value) (rest : List Value) : NP (headersTail (x0 :: x1 :: rest) 1 0) := by
  intro p h
  simp only [headersTail, vremove, List.getElem?_cons_succ, List.getElem?_cons_zero, List.eraseIdx_cons_succ, List.eraseIdx_cons_zero] at h
  cases hu : hdrFromValue x1 with
  | ok u =>
    simp only [hu] at h
    cases hp : phFromBstr x0 with
    | ok pp => simp [hp] at h
    | err e => simp [hp] at h
    | panic q => exact phFromBstr_NP x0 q hp
  | err e => simp [hu] at h
  | panic q => exact hdrFromValue_NP x1 q hu

theorem payloadTail_NP (x0 x1 x2 : Value) (rest : List Value) : NP (payloadTail (x0 :: x1 :: x2 :: rest) 2 1 0) := by
  intro p h
  simp only [payloadTail, vremove, List.getElem?_cons_succ, List.getElem?_cons_zero, List.eraseIdx_cons_succ, List.eraseIdx_cons_zero] at h
  cases ho : optBytes x2 with
  | ok pl =>
    simp only [ho] at h
    cases ht : headersTail (x0 :: x1 :: rest) 1 0 with
    | ok t => simp [ht] at h
    | err e => simp [ht] at h
    | panic q => exact headersTail_NP x0 x1 rest q ht
  | err e => simp [ho] at h
  | panic q => exact optBytes_NP x2 q ho

theorem tryAsArrayThenConvert_NP {α : Type} (f : Value → Res α) (hf : ∀ x, NP (f x)) (v : Value) : NP (tryAsArrayThenConvert f v) := by
  intro p h
  cases v with
  | array a => exact mapRes_NP f hf a p h
  | _ => simp [tryAsArrayThenConvert, tryAsArray, typeError] at h

theorem sign1_NP (v : Value) : NP (CoseSign1.fromValue v) := by
  intro p h
  cases v with
  | array a =>
    simp only [CoseSign1.fromValue, tryAsArray, Gen.CoseSign1_arityBad] at h
    by_cases hl : a.length = 4
    · obtain ⟨x0, x1, x2, x3, rfl⟩ := list_len4 a hl
      simp only [List.length_cons, List.length_nil, bne_self_eq_false, Bool.false_eq_true, if_false, Gen.CoseSign1_removes, List.getD_cons_zero,
        List.getD_cons_succ, vremove, List.getElem?_cons_succ, List.getElem?_cons_zero, List.eraseIdx_cons_succ, List.eraseIdx_cons_zero] at h
      cases hs : tryAsBytes x3 with
      | ok sig =>
        simp only [hs] at h
        cases ht : payloadTail [x0, x1, x2] 2 1 0 with
        | ok t => simp [ht] at h
        | err e => simp [ht] at h
        | panic q => exact payloadTail_NP x0 x1 x2 [] q ht
      | err e => simp [hs] at h
      | panic q => exact tryAsBytes_NP x3 q hs
    · have : (a.length != 4) = true := by simpa using hl
      simp [this] at h
  | _ => simp [CoseSign1.fromValue, tryAsArray, typeError] at h

theorem mac0_NP (v : Value) : NP (CoseMac0.fromValue v) := by
  intro p h
  cases v with
  | array a =>
    simp only [CoseMac0.fromValue, tryAsArray, Gen.CoseMac0_arityBad] at h
    by_cases hl : a.length = 4
    · obtain ⟨x0, x1, x2, x3, rfl⟩ := list_len4 a hl
      simp only [List.length_cons, List.length_nil, bne_self_eq_false, Bool.false_eq_true, if_false, Gen.CoseMac0_removes, List.getD_cons_zero,
        List.getD_cons_succ, vremove, List.getElem?_cons_succ, List.getElem?_cons_zero, List.eraseIdx_cons_succ, List.eraseIdx_cons_zero] at h
      cases hs : tryAsBytes x3 with
      | ok sig =>
        simp only [hs] at h
        cases ht : payloadTail [x0, x1, x2] 2 1 0 with
        | ok t => simp [ht] at h
        | err e => simp [ht] at h
        | panic q => exact payloadTail_NP x0 x1 x2 [] q ht
      | err e => simp [hs] at h
      | panic q => exact tryAsBytes_NP x3 q hs
    · have : (a.length != 4) = true := by simpa using hl
      simp [this] at h
  | _ => simp [CoseMac0.fromValue, tryAsArray, typeError] at h

theorem encrypt0_NP (v : Value) : NP (CoseEncrypt0.fromValue v) := by
  intro p h
  cases v with
  | array a =>
    simp only [CoseEncrypt0.fromValue, tryAsArray, Gen.CoseEncrypt0_arityBad] at h
    by_cases hl : a.length = 3
    · obtain ⟨x0, x1, x2, rfl⟩ := list_len3 a hl
      simp only [List.length_cons, List.length_nil, bne_self_eq_false, Bool.false_eq_true, if_false, Gen.CoseEncrypt0_removes, List.getD_cons_zero,
        List.getD_cons_succ] at h
      cases ht : payloadTail [x0, x1, x2] 2 1 0 with
      | ok t => simp [ht] at h
      | err e => simp [ht] at h
      | panic q => exact payloadTail_NP x0 x1 x2 [] q ht
    · have : (a.length != 3) = true := by simpa using hl
      simp [this] at h
  | _ => simp [CoseEncrypt0.fromValue, tryAsArray, typeError] at h

theorem sign_NP (v : Value) : NP (CoseSign.fromValue v) := by
  intro p h
  cases v with
  | array a =>
    simp only [CoseSign.fromValue, tryAsArray, Gen.CoseSign_arityBad] at h
    by_cases hl : a.length = 4
    · obtain ⟨x0, x1, x2, x3, rfl⟩ := list_len4 a hl
      simp only [List.length_cons, List.length_nil, bne_self_eq_false, Bool.false_eq_true, if_false, Gen.CoseSign_removes, List.getD_cons_zero,
        List.getD_cons_succ, vremove, List.getElem?_cons_succ, List.getElem?_cons_zero, List.eraseIdx_cons_succ, List.eraseIdx_cons_zero] at h
      have hconv : ∀ x, NP ((sigFromValue x).mapErr .unexpectedItem) := by
        intro x q hq
        cases hs : sigFromValue x with
        | ok s => simp [hs, Res.mapErr] at hq
        | err e => simp [hs, Res.mapErr] at hq
        | panic r => exact sigFromValue_NP x r hs
      cases hs : tryAsArrayThenConvert (fun v => (sigFromValue v).mapErr .unexpectedItem) x3 with
      | ok ss =>
        simp only [hs] at h
        cases ho : optBytes x2 with
        | ok pl =>
          simp only [ho] at h
          cases hu : hdrFromValue x1 with
          | ok u =>
            simp only [hu] at h
            cases hp : phFromBstr x0 with
            | ok pp => simp [hp] at h
            | err e => simp [hp] at h
            | panic q => exact phFromBstr_NP x0 q hp
          | err e => simp [hu] at h
          | panic q => exact hdrFromValue_NP x1 q hu
        | err e => simp [ho] at h
        | panic q => exact optBytes_NP x2 q ho
      | err e => simp [hs] at h
      | panic q => exact tryAsArrayThenConvert_NP _ hconv x3 q hs
    · have : (a.length != 4) = true := by simpa using hl
      simp [this] at h
  | _ => simp [CoseSign.fromValue, tryAsArray, typeError] at h

theorem recipient_NP : ∀ fuel v, NP (CoseRecipient.fromValue fuel v) := by
  intro fuel
  induction fuel with
  | zero => intro v p h; simp [CoseRecipient.fromValue] at h
  | succ f ih =>
    intro v p h
    cases v with
    | array a =>
      simp only [CoseRecipient.fromValue, tryAsArray, Gen.CoseRecipient_arityBad] at h
      by_cases hl3 : a.length = 3
      · obtain ⟨x0, x1, x2, rfl⟩ := list_len3 a hl3
        simp only [List.length_cons, List.length_nil, Gen.CoseRecipient_removes, List.getD_cons_zero, List.getD_cons_succ] at h
        simp only [show ((3 : Nat) != 3 && (3 : Nat) != 4) = false from rfl, Bool.false_eq_true, if_false, show ((3 : Nat) == 4) = false from rfl] at h
        cases ht : payloadTail [x0, x1, x2] 2 1 0 with
        | ok t => simp [ht] at h
        | err e => simp [ht] at h
        | panic q => exact payloadTail_NP x0 x1 x2 [] q ht
      · by_cases hl4 : a.length = 4
        · obtain ⟨x0, x1, x2, x3, rfl⟩ := list_len4 a hl4
          simp only [List.length_cons, List.length_nil, Gen.CoseRecipient_removes, List.getD_cons_zero, List.getD_cons_succ] at h
          simp only [show ((4 : Nat) != 3 && (4 : Nat) != 4) = false from rfl, Bool.false_eq_true, if_false, show ((4 : Nat) == 4) = true from rfl, if_true,
            vremove, List.getElem?_cons_succ, List.getElem?_cons_zero, List.eraseIdx_cons_succ, List.eraseIdx_cons_zero] at h
          cases hr : tryAsArrayThenConvert (CoseRecipient.fromValue f) x3 with
          | ok rr =>
            simp only [hr] at h
            cases ht : payloadTail [x0, x1, x2] 2 1 0 with
            | ok t => simp [ht] at h
            | err e => simp [ht] at h
            | panic q => exact payloadTail_NP x0 x1 x2 [] q ht
          | err e => simp [hr] at h
          | panic q => exact tryAsArrayThenConvert_NP _ (ih) x3 q hr
        · have : (a.length != 3 && a.length != 4) = true := by simp [hl3, hl4]
          simp [this] at h
    | _ => simp [CoseRecipient.fromValue, tryAsArray, typeError] at h

theorem rcpFromValue_NP (v : Value) : NP (rcpFromValue v) := recipient_NP _ v

theorem encrypt_NP (v : Value) : NP (CoseEncrypt.fromValue v) := by
  intro p h
  cases v with
  | array a =>
    simp only [CoseEncrypt.fromValue, tryAsArray, Gen.CoseEncrypt_arityBad] at h
    by_cases hl : a.length = 4
    · obtain ⟨x0, x1, x2, x3, rfl⟩ := list_len4 a hl
      simp only [List.length_cons, List.length_nil, bne_self_eq_false, Bool.false_eq_true, if_false, Gen.CoseEncrypt_removes, List.getD_cons_zero,
        List.getD_cons_succ, vremove, List.getElem?_cons_succ, List.getElem?_cons_zero, List.eraseIdx_cons_succ, List.eraseIdx_cons_zero] at h
      cases hr : tryAsArrayThenConvert rcpFromValue x3 with
      | ok rr =>
        simp only [hr] at h
        cases ht : payloadTail [x0, x1, x2] 2 1 0 with
        | ok t => simp [ht] at h
        | err e => simp [ht] at h
        | panic q => exact payloadTail_NP x0 x1 x2 [] q ht
      | err e => simp [hr] at h
      | panic q => exact tryAsArrayThenConvert_NP _ rcpFromValue_NP x3 q hr
    · have : (a.length != 4) = true := by simpa using hl
      simp [this] at h
  | _ => simp [CoseEncrypt.fromValue, tryAsArray, typeError] at h

theorem mac_NP (v : Value) : NP (CoseMac.fromValue v) := by
  intro p h
  cases v with
  | array a =>
    simp only [CoseMac.fromValue, tryAsArray, Gen.CoseMac_arityBad] at h
    by_cases hl : a.length = 5
    · obtain ⟨x0, x1, x2, x3, x4, rfl⟩ := list_len5 a hl
      simp only [List.length_cons, List.length_nil, bne_self_eq_false, Bool.false_eq_true, if_false, Gen.CoseMac_removes, List.getD_cons_zero,
        List.getD_cons_succ, vremove, List.getElem?_cons_succ, List.getElem?_cons_zero, List.eraseIdx_cons_succ, List.eraseIdx_cons_zero] at h
      cases hr : tryAsArrayThenConvert rcpFromValue x4 with
      | ok rr =>
        simp only [hr] at h
        cases hs : tryAsBytes x3 with
        | ok tag =>
          simp only [hs] at h
          cases ht : payloadTail [x0, x1, x2] 2 1 0 with
          | ok t => simp [ht] at h
          | err e => simp [ht] at h
          | panic q => exact payloadTail_NP x0 x1 x2 [] q ht
        | err e => simp [hs] at h
        | panic q => exact tryAsBytes_NP x3 q hs
      | err e => simp [hr] at h
      | panic q => exact tryAsArrayThenConvert_NP _ rcpFromValue_NP x4 q hr
    · have : (a.length != 5) = true := by simpa using hl
      simp [this] at h
  | _ => simp [CoseMac.fromValue, tryAsArray, typeError] at h

/-- byte-level entry points: `from_slice` / `from_tagged_slice` of a non-panicking conversion never panic. -/
theorem fromSlice_NP {α : Type} (conv : Value → Res α) (hc : ∀ v, NP (conv v)) (bs : Bytes) : NP (fromSlice conv bs) := by
  intro p h
  unfold fromSlice at h
  cases hr : readToValue bs with
  | ok v => simp only [hr] at h; exact hc v p h
  | err e => simp [hr] at h
  | panic q => exact readToValue_NP bs q hr

theorem fromTaggedSlice_NP {α : Type} (tag : Nat) (conv : Value → Res α) (hc : ∀ v, NP (conv v)) (bs : Bytes) : NP (fromTaggedSlice tag conv bs) := by
  intro p h
  unfold fromTaggedSlice at h
  cases hr : readToValue bs with
  | ok v =>
    simp only [hr] at h
    cases v with
    | tag t w => simp only [tryAsTag] at h; split at h; · simp at h
                 · exact hc w p h
    | _ => simp [tryAsTag, typeError] at h
  | err e => simp [hr] at h
  | panic q => exact readToValue_NP bs q hr

end Coset

namespace Coset

theorem setContains_NP {α : Type} (cmp : α → α → Res Ordering) (hc : ∀ a b, ∃ o, cmp a b = .ok o) (s : List α) (x : α) :
    ∃ b, setContains cmp s x = .ok b := by
  induction s with
  | nil => exact ⟨false, rfl⟩
  | cons y ys ih =>
    obtain ⟨o, ho⟩ := hc x y
    simp only [setContains, ho]
    cases o <;> simp [ih]

theorem setInsert_NP {α : Type} (cmp : α → α → Res Ordering) (hc : ∀ a b, ∃ o, cmp a b = .ok o) (s : List α) (x : α) :
    ∃ r, setInsert cmp s x = .ok r := by
  induction s with
  | nil => exact ⟨_, rfl⟩
  | cons y ys ih =>
    obtain ⟨o, ho⟩ := hc x y
    simp only [setInsert, ho]
    cases o with
    | lt => exact ⟨_, rfl⟩
    | eq => exact ⟨_, rfl⟩
    | gt => obtain ⟨r, hr⟩ := ih; simp only [hr]; cases r <;> exact ⟨_, rfl⟩

theorem regLabel_cmp_ok (R : Registry) (a b : RegLabel) : ∃ o, RegLabel.cmp R a b = .ok o := by
  cases a <;> cases b <;> simp only [RegLabel.cmp] <;> first | exact Label.cmp_ok _ _ | exact ⟨_, rfl⟩

theorem keyOpsLoop_NP : ∀ (a : List Value) (s : List RegLabel), NP (keyOpsLoop a s) := by
  intro a
  induction a with
  | nil => intro s; exact NP_ok _
  | cons v vs ih =>
    intro s p h
    simp only [keyOpsLoop] at h
    cases hv : RegLabel.fromValue Reg.keyOperation v with
    | ok op =>
      simp only [hv] at h
      obtain ⟨r, hr⟩ := setInsert_NP _ (regLabel_cmp_ok Reg.keyOperation) s op
      simp only [hr] at h
      cases r with
      | none => simp at h
      | some s' => exact ih s' p h
    | err e => simp [hv] at h
    | panic q => exact RegLabel_fromValue_NP _ v q hv

theorem keyDispatch_NP (l : Label) (v : Value) (k : CoseKey) : NP (keyDispatch l v k) := by
  intro p hp
  unfold keyDispatch at hp
  split at hp
  · cases ha : RegLabel.fromValue Reg.keyType v with
    | ok a => simp [ha] at hp
    | err e => simp [ha] at hp
    | panic q => exact RegLabel_fromValue_NP _ v q ha
  · split at hp
    · cases hb : tryAsNonemptyBytes v with
      | ok b => simp [hb] at hp
      | err e => simp [hb] at hp
      | panic q => exact tryAsNonemptyBytes_NP v q hb
    · split at hp
      · cases ha : RegLabelPriv.fromValue Reg.algorithm v with
        | ok a => simp [ha] at hp
        | err e => simp [ha] at hp
        | panic q => exact RegLabelPriv_fromValue_NP _ v q ha
      · split at hp
        · cases v with
          | array a =>
            simp only [tryAsArray] at hp
            cases ho : keyOpsLoop a k.keyOps with
            | ok s => simp only [ho] at hp; split at hp <;> simp at hp
            | err e => simp [ho] at hp
            | panic q => exact keyOpsLoop_NP a _ q ho
          | _ => simp [tryAsArray, typeError] at hp
        · split at hp
          · cases hb : tryAsNonemptyBytes v with
            | ok b => simp [hb] at hp
            | err e => simp [hb] at hp
            | panic q => exact tryAsNonemptyBytes_NP v q hb
          · simp at hp

theorem keyLoop_NP : ∀ (m : List (Value × Value)) (k : CoseKey) (seen : List Label), NP (keyLoop m k seen) := by
  intro m
  induction m with
  | nil => intro k seen; exact NP_ok _
  | cons kv m ih =>
    intro k seen p hp
    obtain ⟨kk, v⟩ := kv
    simp only [keyLoop] at hp
    cases hk : Label.fromValue kk with
    | ok l =>
      simp only [hk, setContains_label] at hp
      by_cases hin : l ∈ seen
      · simp [hin] at hp
      · simp only [hin, decide_false] at hp
        cases hd : keyDispatch l v k with
        | ok k1 => simp only [hd] at hp; exact ih k1 _ p hp
        | err e => simp [hd] at hp
        | panic q => exact keyDispatch_NP l v k q hd
    | err e => simp [hk] at hp
    | panic q => exact Label_fromValue_NP kk q hk

theorem key_NP (v : Value) : NP (CoseKey.fromValue v) := by
  intro p h
  cases v with
  | map m =>
    simp only [CoseKey.fromValue, tryAsMap] at h
    cases hl : keyLoop m CoseKey.default [] with
    | ok k => simp only [hl] at h; split at h <;> simp at h
    | err e => simp [hl] at h
    | panic q => exact keyLoop_NP m _ _ q hl
  | _ => simp [CoseKey.fromValue, tryAsMap, typeError] at h

theorem keyset_NP (v : Value) : NP (CoseKeySet.fromValue v) := tryAsArrayThenConvert_NP _ key_NP v

theorem timestamp_NP (v : Value) : NP (Timestamp.fromValue v) := by
  intro p h
  cases v with
  | int i =>
    simp only [Timestamp.fromValue] at h
    cases hn : narrowI64 i with
    | ok n => simp [hn] at h
    | err e => simp [hn] at h
    | panic q => exact narrowI64_NP i q hn
  | float f => simp [Timestamp.fromValue] at h
  | _ => simp [Timestamp.fromValue, typeError] at h

theorem claimDispatch_NP (n : RegLabelPriv) (v : Value) (c : ClaimsSet) : NP (claimDispatch n v c) := by
  intro p hp
  have ts : NP (tryAsString v) := by intro q h; cases v <;> simp [tryAsString, typeError] at h
  have tsc : ∀ (f : Bytes → ClaimsSet), (match tryAsString v with | .ok t => Res.ok (f t) | .err e => .err e | .panic p => .panic p) ≠ .panic p := by
    intro f h; cases hs : tryAsString v with
    | ok t => simp [hs] at h
    | err e => simp [hs] at h
    | panic q => exact ts q hs
  have tmc : ∀ (f : Timestamp → ClaimsSet), (match Timestamp.fromValue v with | .ok t => Res.ok (f t) | .err e => .err e | .panic p => .panic p) ≠ .panic p := by
    intro f h; cases hs : Timestamp.fromValue v with
    | ok t => simp [hs] at h
    | err e => simp [hs] at h
    | panic q => exact timestamp_NP v q hs
  have tbc : ∀ (f : Bytes → ClaimsSet), (match tryAsBytes v with | .ok t => Res.ok (f t) | .err e => .err e | .panic p => .panic p) ≠ .panic p := by
    intro f h; cases hs : tryAsBytes v with
    | ok t => simp [hs] at h
    | err e => simp [hs] at h
    | panic q => exact tryAsBytes_NP v q hs
  unfold claimDispatch at hp
  by_cases c1 : n = cISS
  · simp only [c1, if_true] at hp; exact tsc _ hp
  · simp only [c1, if_false] at hp
    by_cases c2 : n = cSUB
    · simp only [c2, if_true] at hp; exact tsc _ hp
    · simp only [c2, if_false] at hp
      by_cases c3 : n = cAUD
      · simp only [c3, if_true] at hp; exact tsc _ hp
      · simp only [c3, if_false] at hp
        by_cases c4 : n = cEXP
        · simp only [c4, if_true] at hp; exact tmc _ hp
        · simp only [c4, if_false] at hp
          by_cases c5 : n = cNBF
          · simp only [c5, if_true] at hp; exact tmc _ hp
          · simp only [c5, if_false] at hp
            by_cases c6 : n = cIAT
            · simp only [c6, if_true] at hp; exact tmc _ hp
            · simp only [c6, if_false] at hp
              by_cases c7 : n = cCTI
              · simp only [c7, if_true] at hp; exact tbc _ hp
              · simp only [c7, if_false] at hp; simp at hp

theorem claimsLoop_NP : ∀ (m : List (Value × Value)) (c : ClaimsSet) (seen : List RegLabelPriv), NP (claimsLoop m c seen) := by
  intro m
  induction m with
  | nil => intro c seen; exact NP_ok _
  | cons kv m ih =>
    intro c seen p hp
    obtain ⟨kk, v⟩ := kv
    simp only [claimsLoop] at hp
    cases hk : RegLabelPriv.fromValue Reg.cwtClaimName kk with
    | ok n =>
      simp only [hk] at hp
      have regPriv_ok : ∀ a b, ∃ o, RegLabelPriv.cmp Reg.cwtClaimName a b = .ok o := by
        intro a b; cases a <;> cases b <;> simp only [RegLabelPriv.cmp] <;> first | exact Label.cmp_ok _ _ | exact ⟨_, rfl⟩
      obtain ⟨b, hb⟩ := setContains_NP _ regPriv_ok seen n
      simp only [hb] at hp
      cases b with
      | true => simp at hp
      | false =>
        simp only [] at hp
        cases hd : claimDispatch n v c with
        | ok c1 => simp only [hd] at hp; exact ih c1 _ p hp
        | err e => simp [hd] at hp
        | panic q => exact claimDispatch_NP n v c q hd
    | err e => simp [hk] at hp
    | panic q => exact RegLabelPriv_fromValue_NP _ kk q hk

theorem claims_NP (v : Value) : NP (ClaimsSet.fromValue v) := by
  intro p h
  cases v with
  | map m => exact claimsLoop_NP m _ _ p h
  | _ => simp [ClaimsSet.fromValue, typeError] at h

end Coset

namespace Coset

theorem party_NP (v : Value) : NP (PartyInfo.fromValue v) := by
  intro p h
  cases v with
  | array a =>
    simp only [PartyInfo.fromValue, tryAsArray, Gen.PartyInfo_arityBad] at h
    by_cases hl : a.length = 3
    · obtain ⟨x0, x1, x2, rfl⟩ := list_len3 a hl
      simp only [List.length_cons, List.length_nil, bne_self_eq_false, Bool.false_eq_true, if_false, Gen.PartyInfo_removes, List.getD_cons_zero,
        List.getD_cons_succ, vremove, List.getElem?_cons_succ, List.getElem?_cons_zero, List.eraseIdx_cons_succ, List.eraseIdx_cons_zero] at h
      cases ho : nullOrBytes x2 with
      | ok other =>
        simp only [ho] at h
        have hn : ∀ q, (match x1 with
                 | .null => Res.ok (none : Option Nonce)
                 | .bytes b => .ok (some (.bytes b))
                 | .int u => match narrowI64 u with
                   | .ok n => .ok (some (.integer n))
                   | .err e => .err e
                   | .panic p => .panic p
                 | _ => typeError) ≠ .panic q := by
          intro q hq
          cases x1 <;> simp [typeError] at hq
          rename_i u
          cases hu : narrowI64 u with
          | ok n => simp [hu] at hq
          | err e => simp [hu] at hq
          | panic r => exact narrowI64_NP u r hu
        split at h
        · rename_i nonce hnon
          cases hi : nullOrBytes x0 with
          | ok ident => simp [hi] at h
          | err e => simp [hi] at h
          | panic q => exact nullOrBytes_NP x0 q hi
        · simp at h
        · rename_i q hq; exact hn q hq
      | err e => simp [ho] at h
      | panic q => exact nullOrBytes_NP x2 q ho
    · have : (a.length != 3) = true := by simpa using hl
      simp [this] at h
  | _ => simp [PartyInfo.fromValue, tryAsArray, typeError] at h

end Coset

namespace Coset

theorem tryAsInteger_NP (v : Value) : NP (tryAsInteger v) := by intro p h; cases v <;> simp [tryAsInteger, typeError] at h

theorem supp_NP (v : Value) : NP (SuppPubInfo.fromValue v) := by
  intro p h
  have tail : ∀ (x0 x1 : Value) (o : Option Bytes), NP (match vremove [x0, x1] 1 with
      | .ok (y1, a) =>
        match phFromBstr y1 with
        | .ok prot =>
          match vremove a 0 with
          | .ok (y0, _) =>
            match tryAsInteger y0 with
            | .ok n =>
              match narrowU64 n with
              | .ok len => Res.ok (⟨len, prot, o⟩ : SuppPubInfo)
              | .err e => .err e
              | .panic p => .panic p
            | .err e => .err e
            | .panic p => .panic p
          | .err e => .err e
          | .panic p => .panic p
        | .err e => .err e
        | .panic p => .panic p
      | .err e => .err e
      | .panic p => .panic p) := by
    intro x0 x1 o q hq
    simp only [vremove, List.getElem?_cons_succ, List.getElem?_cons_zero, List.eraseIdx_cons_succ, List.eraseIdx_cons_zero] at hq
    cases hp : phFromBstr x1 with
    | ok prot =>
      simp only [hp] at hq
      cases hi : tryAsInteger x0 with
      | ok n =>
        simp only [hi] at hq
        cases hn : narrowU64 n with
        | ok len => simp [hn] at hq
        | err e => simp [hn] at hq
        | panic r => exact narrowU64_NP n r hn
      | err e => simp [hi] at hq
      | panic r => exact tryAsInteger_NP x0 r hi
    | err e => simp [hp] at hq
    | panic r => exact phFromBstr_NP x1 r hp
  cases v with
  | array a =>
    simp only [SuppPubInfo.fromValue, tryAsArray, Gen.SuppPubInfo_arityBad] at h
    by_cases h2 : a.length = 2
    · obtain ⟨x0, x1, rfl⟩ := list_len2 a h2
      simp only [List.length_cons, List.length_nil, Gen.SuppPubInfo_removes, List.getD_cons_zero, List.getD_cons_succ] at h
      simp only [show ((2 : Nat) != 2 && (2 : Nat) != 3) = false from rfl, Bool.false_eq_true, if_false, show ((2 : Nat) == 3) = false from rfl] at h
      exact tail x0 x1 none p h
    · by_cases h3 : a.length = 3
      · obtain ⟨x0, x1, x2, rfl⟩ := list_len3 a h3
        simp only [List.length_cons, List.length_nil, Gen.SuppPubInfo_removes, List.getD_cons_zero, List.getD_cons_succ] at h
        simp only [show ((3 : Nat) != 2 && (3 : Nat) != 3) = false from rfl, Bool.false_eq_true, if_false, show ((3 : Nat) == 3) = true from rfl, if_true] at h
        simp only [vremove, List.getElem?_cons_succ, List.getElem?_cons_zero, List.eraseIdx_cons_succ, List.eraseIdx_cons_zero] at h
        cases hb : tryAsBytes x2 with
        | ok o =>
          simp only [hb] at h
          have := tail x0 x1 (some o) p
          simp only [vremove, List.getElem?_cons_succ, List.getElem?_cons_zero, List.eraseIdx_cons_succ, List.eraseIdx_cons_zero] at this
          exact this h
        | err e => simp [hb] at h
        | panic q => exact tryAsBytes_NP x2 q hb
      · have : (a.length != 2 && a.length != 3) = true := by simp [h2, h3]
        simp [this] at h
  | _ => simp [SuppPubInfo.fromValue, tryAsArray, typeError] at h

/-- the `for i in (4..a.len()).rev()` loop: every `remove(i)` is in range and four elements remain. -/
theorem kdfTail_ok_len : ∀ (k : Nat) (a : List Value) (acc : List Bytes), a.length = 4 + k →
    (NP (kdfTail (List.range' 4 k).reverse a acc)) ∧ ∀ r a', kdfTail (List.range' 4 k).reverse a acc = .ok (r, a') → a'.length = 4 := by
  intro k
  induction k with
  | zero =>
    intro a acc hl
    refine ⟨by simp [kdfTail]; exact NP_ok _, ?_⟩
    intro r a' h
    simp [kdfTail] at h
    rw [← h.2]; simpa using hl
  | succ k ih =>
    intro a acc hl
    have hr : (List.range' 4 (k + 1)).reverse = (4 + k) :: (List.range' 4 k).reverse := by
      rw [List.range'_concat]; simp
    rw [hr]
    have hget : ∃ x, a[4 + k]? = some x := by
      have : 4 + k < a.length := by omega
      exact ⟨a[4 + k], List.getElem?_eq_getElem this⟩
    obtain ⟨x, hx⟩ := hget
    have hlen : (a.eraseIdx (4 + k)).length = 4 + k := by rw [List.length_eraseIdx]; simp [show 4 + k < a.length by omega]; omega
    simp only [kdfTail, vremove, hx]
    cases hb : tryAsBytes x with
    | ok b =>
      simp only []
      exact ih (a.eraseIdx (4 + k)) (acc ++ [b]) hlen
    | err e => exact ⟨NP_err _, fun r a' h => by simp at h⟩
    | panic q => exact absurd hb (tryAsBytes_NP x q)

theorem kdf_NP (v : Value) : NP (CoseKdfContext.fromValue v) := by
  intro p h
  cases v with
  | array a =>
    simp only [CoseKdfContext.fromValue, tryAsArray, Gen.CoseKdfContext_arityBad] at h
    by_cases hl : a.length < 4
    · simp [hl] at h
    · simp only [hl, decide_false, Bool.false_eq_true, if_false] at h
      obtain ⟨hnp, hlen⟩ := kdfTail_ok_len (a.length - 4) a [] (by omega)
      cases ht : kdfTail (List.range' 4 (a.length - 4)).reverse a [] with
      | ok t =>
        obtain ⟨privRev, a'⟩ := t
        simp only [ht] at h
        have h4 := hlen privRev a' ht
        obtain ⟨x0, x1, x2, x3, rfl⟩ := list_len4 a' h4
        simp only [Gen.CoseKdfContext_removes, List.getD_cons_zero, List.getD_cons_succ, vremove, List.getElem?_cons_succ, List.getElem?_cons_zero,
          List.eraseIdx_cons_succ, List.eraseIdx_cons_zero] at h
        cases hs : SuppPubInfo.fromValue x3 with
        | ok supp =>
          simp only [hs] at h
          cases hv : PartyInfo.fromValue x2 with
          | ok pv =>
            simp only [hv] at h
            cases hu : PartyInfo.fromValue x1 with
            | ok pu =>
              simp only [hu] at h
              cases ha : RegLabelPriv.fromValue Reg.algorithm x0 with
              | ok alg => simp [ha] at h
              | err e => simp [ha] at h
              | panic q => exact RegLabelPriv_fromValue_NP _ x0 q ha
            | err e => simp [hu] at h
            | panic q => exact party_NP x1 q hu
          | err e => simp [hv] at h
          | panic q => exact party_NP x2 q hv
        | err e => simp [hs] at h
        | panic q => exact supp_NP x3 q hs
      | err e => simp [ht] at h
      | panic q => exact hnp q ht
  | _ => simp [CoseKdfContext.fromValue, tryAsArray, typeError] at h

end Coset
