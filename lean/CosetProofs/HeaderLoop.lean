/-
  The `for (l, value) in m` loop of `Header::from_cbor_value`, separated into its three concerns:
  keys are labels, labels are pairwise distinct, and a left-to-right fold of the per-label dispatch.
-/
import CosetProofs.Labels
import CosetModel.Api
namespace Coset

/-- sequential fold of a fallible step. -/
def foldRes {σ β : Type} (step : σ → β → Res σ) : List β → σ → Res σ
  | [], s => .ok s
  | b :: bs, s =>
    match step s b with
    | .ok s' => foldRes step bs s'
    | .err e => .err e
    | .panic p => .panic p

/-- one iteration of the header loop after the key has been turned into a label and found fresh. -/
def headerStep (d : Nat) (sf : Value → Res CoseSignature) (h : Header) (lv : Label × Value) : Res Header :=
  match headerDispatch d sf lv.1 lv.2 h with
  | .ok h' => if !h'.iv.isEmpty && !h'.partialIv.isEmpty then .err .unexpectedItem else .ok h'
  | .err e => .err e
  | .panic p => .panic p

/-- the labels of a map's keys, in order (fails if some key is not a label). -/
def keyLabels (m : List (Value × Value)) : Res (List Label) := mapRes Label.fromValue (m.map (·.1))

theorem Label.fromValue_no_panic (v : Value) (p : PanicSite) : Label.fromValue v ≠ .panic p := by
  cases v with
  | int n => by_cases hr : i64Min ≤ n ∧ n ≤ i64Max <;> simp [Label.fromValue, narrowI64, hr]
  | _ => simp [Label.fromValue, typeError]

/-- no label repeats, and none was seen before. -/
def Fresh (seen ls : List Label) : Prop := ls.Nodup ∧ ∀ l ∈ ls, l ∉ seen

theorem mapRes_cons_ok {α β : Type} (f : α → Res β) (x : α) (xs : List α) (ys : List β) :
    mapRes f (x :: xs) = .ok ys ↔ ∃ y ys', f x = .ok y ∧ mapRes f xs = .ok ys' ∧ ys = y :: ys' := by
  simp only [mapRes]
  cases hx : f x with
  | ok y =>
    cases hxs : mapRes f xs with
    | ok ys' => simp; exact eq_comm
    | err e => simp
    | panic p => simp
  | err e => simp
  | panic p => simp

/-- the loop succeeds exactly when: every key is a label, no label repeats (nor was seen), and the fold succeeds. -/
theorem headerLoop_ok_iff (d : Nat) (sf : Value → Res CoseSignature) (m : List (Value × Value)) :
    ∀ (h h' : Header) (seen : List Label),
    headerLoop d sf m h seen = .ok h' ↔
      ∃ ls, keyLabels m = .ok ls ∧ Fresh seen ls ∧ foldRes (headerStep d sf) (ls.zip (m.map (·.2))) h = .ok h' := by
  induction m with
  | nil =>
    intro h h' seen
    simp [headerLoop, keyLabels, mapRes, Fresh, foldRes]
  | cons kv m ih =>
    intro h h' seen
    obtain ⟨k, v⟩ := kv
    simp only [headerLoop, keyLabels, List.map_cons, mapRes_cons_ok]
    cases hk : Label.fromValue k with
    | err e => simp
    | panic p => simp
    | ok label =>
      simp only [setContains_label]
      by_cases hin : label ∈ seen
      · simp only [hin, decide_true]
        constructor
        · intro hf; simp at hf
        · rintro ⟨ls, ⟨y, ys', hy, _, rfl⟩, hfr, _⟩
          simp at hy; subst hy
          exact absurd hin (hfr.2 _ (by simp))
      · simp only [hin, decide_false]
        constructor
        · intro hl
          cases hd : headerDispatch d sf label v h with
          | err e => simp [hd] at hl
          | panic p => simp [hd] at hl
          | ok h1 =>
            simp only [hd] at hl
            by_cases hb : (!h1.iv.isEmpty && !h1.partialIv.isEmpty) = true
            · simp [hb] at hl
            · simp only [hb, Bool.false_eq_true, if_false] at hl
              obtain ⟨ls, hls, hfr, hfold⟩ := (ih h1 h' (seen ++ [label])).mp hl
              refine ⟨label :: ls, ⟨label, ls, rfl, hls, rfl⟩, ?_, ?_⟩
              · refine ⟨List.nodup_cons.mpr ⟨?_, hfr.1⟩, ?_⟩
                · intro hmem; exact (hfr.2 label hmem) (by simp)
                · intro l hl2
                  rcases List.mem_cons.mp hl2 with rfl | hl3
                  · exact hin
                  · intro hs; exact (hfr.2 l hl3) (by simp [hs])
              · simp only [List.zip_cons_cons, foldRes, headerStep, hd, hb, Bool.false_eq_true, if_false]
                exact hfold
        · rintro ⟨ls, ⟨y, ys', hy, hys, rfl⟩, hfr, hfold⟩
          simp at hy; subst hy
          simp only [List.zip_cons_cons, foldRes, headerStep] at hfold
          cases hd : headerDispatch d sf label v h with
          | err e => simp [hd] at hfold
          | panic p => simp [hd] at hfold
          | ok h1 =>
            simp only [hd] at hfold ⊢
            by_cases hb : (!h1.iv.isEmpty && !h1.partialIv.isEmpty) = true
            · simp [hb] at hfold
            · simp only [hb, Bool.false_eq_true, if_false] at hfold ⊢
              apply (ih h1 h' (seen ++ [label])).mpr
              refine ⟨ys', hys, ⟨(List.nodup_cons.mp hfr.1).2, ?_⟩, hfold⟩
              intro l hl hs
              rcases List.mem_append.mp hs with h1' | h2'
              · exact hfr.2 l (by simp [hl]) h1'
              · simp at h2'; subst h2'; exact (List.nodup_cons.mp hfr.1).1 hl

end Coset
