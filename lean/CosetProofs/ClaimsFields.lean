/-
  Field-by-field meaning of the CWT claims-set loop, and the array-shaped KDF context structures.
-/
import CosetProofs.ClaimsLoop
import CosetProofs.Shapes
namespace Coset

/-- lookup by claim name. -/
def lookupN (n : RegLabelPriv) (ps : List (RegLabelPriv × Value)) : Option Value := (ps.find? (fun p => p.1 = n)).map (·.2)

theorem lookupN_cons (L l : RegLabelPriv) (v : Value) (ps : List (RegLabelPriv × Value)) :
    lookupN L ((l, v) :: ps) = if l = L then some v else lookupN L ps := by
  unfold lookupN
  by_cases h : l = L <;> simp [List.find?, h]

theorem lookupN_none_of_not_mem (L : RegLabelPriv) (ps : List (RegLabelPriv × Value)) (h : L ∉ ps.map (·.1)) : lookupN L ps = none := by
  induction ps with
  | nil => rfl
  | cons p ps ih =>
    obtain ⟨l, v⟩ := p
    rw [lookupN_cons]
    simp at h
    have : l ≠ L := fun e => h.1 e.symm
    simp [this]; exact ih (by simpa using h.2)

theorem fold_field_n {σ α : Type} (step : σ → RegLabelPriv × Value → Res σ) (proj : σ → α) (L : RegLabelPriv)
    (R : Value → α → Prop)
    (frame : ∀ l v s s1, l ≠ L → step s (l, v) = .ok s1 → proj s1 = proj s)
    (set : ∀ v s s1, step s (L, v) = .ok s1 → R v (proj s1)) :
    ∀ (ps : List (RegLabelPriv × Value)) (s0 s : σ), (ps.map (·.1)).Nodup → foldRes step ps s0 = .ok s →
      match lookupN L ps with
      | some v => R v (proj s)
      | none => proj s = proj s0 := by
  intro ps
  induction ps with
  | nil => intro s0 s _ hf; simp [foldRes] at hf; subst hf; simp [lookupN]
  | cons p ps ih =>
    intro s0 s hnd hf
    obtain ⟨l, v⟩ := p
    simp only [foldRes] at hf
    cases hs : step s0 (l, v) with
    | err e => simp [hs] at hf
    | panic q => simp [hs] at hf
    | ok s1 =>
      simp only [hs] at hf
      simp only [List.map_cons, List.nodup_cons] at hnd
      have ih' := ih s1 s hnd.2 hf
      rw [lookupN_cons]
      by_cases hl : l = L
      · subst hl
        simp only [if_true]
        have hnone := lookupN_none_of_not_mem l ps hnd.1
        rw [hnone] at ih'
        simp only [] at ih'
        rw [ih']
        exact set v s0 s1 hs
      · simp only [hl, if_false]
        have hfr := frame l v s0 s1 hl hs
        cases hlk : lookupN L ps with
        | none => rw [hlk] at ih'; simp only [] at ih' ⊢; rw [ih', hfr]
        | some w => rw [hlk] at ih'; exact ih'

/-- the seven typed claims (RFC 8392 §3.1: iss 1, sub 2, aud 3, exp 4, nbf 5, iat 6, cti 7). -/
def typedClaims : List RegLabelPriv := [cISS, cSUB, cAUD, cEXP, cNBF, cIAT, cCTI]

theorem typed_claims_values : [Gen.cwt_ISS_idx, Gen.cwt_SUB_idx, Gen.cwt_AUD_idx, Gen.cwt_EXP_idx, Gen.cwt_NBF_idx, Gen.cwt_IAT_idx, Gen.cwt_CTI_idx].map
    Reg.cwtClaimName.toI64 = [1, 2, 3, 4, 5, 6, 7] := by decide

inductive ClaimCase (n : RegLabelPriv) (v : Value) (c c1 : ClaimsSet) : Prop where
  | iss (hl : n = cISS) (t : Bytes) (hv : v = .text t) (he : c1 = { c with issuer := some t })
  | sub (hl : n = cSUB) (t : Bytes) (hv : v = .text t) (he : c1 = { c with subject := some t })
  | aud (hl : n = cAUD) (t : Bytes) (hv : v = .text t) (he : c1 = { c with audience := some t })
  | exp (hl : n = cEXP) (t : Timestamp) (hv : Timestamp.fromValue v = .ok t) (he : c1 = { c with expirationTime := some t })
  | nbf (hl : n = cNBF) (t : Timestamp) (hv : Timestamp.fromValue v = .ok t) (he : c1 = { c with notBefore := some t })
  | iat (hl : n = cIAT) (t : Timestamp) (hv : Timestamp.fromValue v = .ok t) (he : c1 = { c with issuedAt := some t })
  | cti (hl : n = cCTI) (b : Bytes) (hv : v = .bytes b) (he : c1 = { c with cwtId := some b })
  | other (hl : n ∉ typedClaims) (he : c1 = { c with rest := c.rest ++ [(n, v)] })

theorem tryAsString_ok (v : Value) (t : Bytes) : tryAsString v = .ok t ↔ v = .text t := by
  cases v <;> simp [tryAsString, typeError]

theorem claimStep_cases (n : RegLabelPriv) (v : Value) (c c1 : ClaimsSet) (hs : claimStep c (n, v) = .ok c1) : ClaimCase n v c c1 := by
  simp only [claimStep, claimDispatch] at hs
  by_cases c1' : n = cISS
  · simp only [c1', if_true] at hs
    cases ht : tryAsString v with
    | ok t => simp [ht] at hs; exact .iss c1' t ((tryAsString_ok v t).mp ht) hs.symm
    | err e => simp [ht] at hs
    | panic p => simp [ht] at hs
  · simp only [c1', if_false] at hs
    by_cases c2 : n = cSUB
    · simp only [c2, if_true] at hs
      cases ht : tryAsString v with
      | ok t => simp [ht] at hs; exact .sub c2 t ((tryAsString_ok v t).mp ht) hs.symm
      | err e => simp [ht] at hs
      | panic p => simp [ht] at hs
    · simp only [c2, if_false] at hs
      by_cases c3 : n = cAUD
      · simp only [c3, if_true] at hs
        cases ht : tryAsString v with
        | ok t => simp [ht] at hs; exact .aud c3 t ((tryAsString_ok v t).mp ht) hs.symm
        | err e => simp [ht] at hs
        | panic p => simp [ht] at hs
      · simp only [c3, if_false] at hs
        by_cases c4 : n = cEXP
        · simp only [c4, if_true] at hs
          cases ht : Timestamp.fromValue v with
          | ok t => simp [ht] at hs; exact .exp c4 t ht hs.symm
          | err e => simp [ht] at hs
          | panic p => simp [ht] at hs
        · simp only [c4, if_false] at hs
          by_cases c5 : n = cNBF
          · simp only [c5, if_true] at hs
            cases ht : Timestamp.fromValue v with
            | ok t => simp [ht] at hs; exact .nbf c5 t ht hs.symm
            | err e => simp [ht] at hs
            | panic p => simp [ht] at hs
          · simp only [c5, if_false] at hs
            by_cases c6 : n = cIAT
            · simp only [c6, if_true] at hs
              cases ht : Timestamp.fromValue v with
              | ok t => simp [ht] at hs; exact .iat c6 t ht hs.symm
              | err e => simp [ht] at hs
              | panic p => simp [ht] at hs
            · simp only [c6, if_false] at hs
              by_cases c7 : n = cCTI
              · simp only [c7, if_true] at hs
                cases ht : tryAsBytes v with
                | ok b => simp [ht] at hs; exact .cti c7 b ((tryAsBytes_ok v b).mp ht) hs.symm
                | err e => simp [ht] at hs
                | panic p => simp [ht] at hs
              · simp only [c7, if_false] at hs
                simp at hs
                exact .other (by simp [typedClaims, c1', c2, c3, c4, c5, c6, c7]) hs.symm

theorem typed_distinct : typedClaims.Nodup := by decide

end Coset
