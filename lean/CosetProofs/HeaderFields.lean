/-
  What the fold of `headerDispatch` over pairwise-distinct labels computes, field by field.
-/
import CosetProofs.HeaderLoop
import CosetSpec.Header
namespace Coset
open Coset.Spec

theorem std_labels : hALG = .int 1 ∧ hCRIT = .int 2 ∧ hCONTENT_TYPE = .int 3 ∧ hKID = .int 4 ∧ hIV = .int 5 ∧ hPARTIAL_IV = .int 6 ∧
    hCOUNTER_SIG = .int 7 := by decide

@[simp] theorem hdr_acc (a c ct k i p cs r) :
    (Header.mk a c ct k i p cs r).alg = a ∧ (Header.mk a c ct k i p cs r).crit = c ∧ (Header.mk a c ct k i p cs r).contentType = ct ∧
    (Header.mk a c ct k i p cs r).keyId = k ∧ (Header.mk a c ct k i p cs r).iv = i ∧ (Header.mk a c ct k i p cs r).partialIv = p ∧
    (Header.mk a c ct k i p cs r).counterSignatures = cs ∧ (Header.mk a c ct k i p cs r).rest = r := ⟨rfl, rfl, rfl, rfl, rfl, rfl, rfl, rfl⟩

/-- everything `headerDispatch` can do when it succeeds. -/
inductive DispatchCase (d : Nat) (sf : Value → Res CoseSignature) (l : Label) (v : Value) (h h1 : Header) : Prop where
  | alg (hl : l = .int 1) (a : RegLabelPriv) (ha : RegLabelPriv.fromValue Reg.algorithm v = .ok a) (he : h1 = h.setAlg (some a))
  | crit (hl : l = .int 2) (a : List Value) (ls : List RegLabel) (hv : v = .array a) (hne : a ≠ [])
      (hm : mapRes (RegLabel.fromValue Reg.headerParameter) a = .ok ls) (he : h1 = h.setCrit (h.crit ++ ls))
  | ct (hl : l = .int 3) (c : RegLabel) (hc : RegLabel.fromValue Reg.coapContentFormat v = .ok c) (hok : contentTypeOk c = true)
      (he : h1 = h.setContentType (some c))
  | kid (hl : l = .int 4) (b : Bytes) (hv : v = .bytes b) (hne : b ≠ []) (he : h1 = h.setKeyId b)
  | iv (hl : l = .int 5) (b : Bytes) (hv : v = .bytes b) (hne : b ≠ []) (he : h1 = h.setIv b)
  | piv (hl : l = .int 6) (b : Bytes) (hv : v = .bytes b) (hne : b ≠ []) (he : h1 = h.setPartialIv b)
  | csig (hl : l = .int 7) (ss : List CoseSignature) (hs : counterSigArm d sf v = .ok ss) (he : h1 = h.setCounterSignatures (h.counterSignatures ++ ss))
  | other (hl : l ∉ stdLabels) (he : h1 = h.setRest (h.rest ++ [(l, v)]))

theorem nonemptyBytes_ok (v : Value) (b : Bytes) (h : tryAsNonemptyBytes v = .ok b) : v = .bytes b ∧ b ≠ [] := by
  cases v <;> simp [tryAsNonemptyBytes, tryAsBytes, typeError] at h
  split at h <;> simp at h
  subst h
  refine ⟨rfl, ?_⟩
  intro he; subst he; simp_all

theorem dispatch_cases (d : Nat) (sf : Value → Res CoseSignature) (l : Label) (v : Value) (h h1 : Header)
    (hd : headerDispatch d sf l v h = .ok h1) : DispatchCase d sf l v h h1 := by
  obtain ⟨e1, e2, e3, e4, e5, e6, e7⟩ := std_labels
  unfold headerDispatch at hd
  rw [e1, e2, e3, e4, e5, e6, e7] at hd
  by_cases c1 : l = .int 1
  · simp only [c1, if_true] at hd
    cases ha : RegLabelPriv.fromValue Reg.algorithm v with
    | ok a => simp [ha] at hd; exact .alg c1 a ha hd.symm
    | err e => simp [ha] at hd
    | panic p => simp [ha] at hd
  · simp only [c1, if_false] at hd
    by_cases c2 : l = .int 2
    · simp only [c2, if_true] at hd
      cases v with
      | array a =>
        simp only [] at hd
        by_cases hne : a.isEmpty = true
        · simp [hne] at hd
        · simp only [hne, Bool.false_eq_true, if_false] at hd
          cases hm : mapRes (RegLabel.fromValue Reg.headerParameter) a with
          | ok ls => simp [hm] at hd; exact .crit c2 a ls rfl (by intro h0; subst h0; simp at hne) hm hd.symm
          | err e => simp [hm] at hd
          | panic p => simp [hm] at hd
      | _ => simp [typeError] at hd
    · simp only [c2, if_false] at hd
      by_cases c3 : l = .int 3
      · simp only [c3, if_true] at hd
        cases hc : RegLabel.fromValue Reg.coapContentFormat v with
        | ok c =>
          simp only [hc] at hd
          cases c with
          | text t =>
            simp only [] at hd
            by_cases hok : contentTypeTextOk t = true
            · simp [hok] at hd; exact .ct c3 _ hc (by simpa [contentTypeOk, contentTypeTextOk] using hok) hd.symm
            · simp [hok] at hd
          | assigned k => simp at hd; exact .ct c3 _ hc rfl hd.symm
        | err e => simp [hc] at hd
        | panic p => simp [hc] at hd
      · simp only [c3, if_false] at hd
        by_cases c4 : l = .int 4
        · simp only [c4, if_true] at hd
          cases hb : tryAsNonemptyBytes v with
          | ok b => simp [hb] at hd; obtain ⟨hv, hne⟩ := nonemptyBytes_ok v b hb; exact .kid c4 b hv hne hd.symm
          | err e => simp [hb] at hd
          | panic p => simp [hb] at hd
        · simp only [c4, if_false] at hd
          by_cases c5 : l = .int 5
          · simp only [c5, if_true] at hd
            cases hb : tryAsNonemptyBytes v with
            | ok b => simp [hb] at hd; obtain ⟨hv, hne⟩ := nonemptyBytes_ok v b hb; exact .iv c5 b hv hne hd.symm
            | err e => simp [hb] at hd
            | panic p => simp [hb] at hd
          · simp only [c5, if_false] at hd
            by_cases c6 : l = .int 6
            · simp only [c6, if_true] at hd
              cases hb : tryAsNonemptyBytes v with
              | ok b => simp [hb] at hd; obtain ⟨hv, hne⟩ := nonemptyBytes_ok v b hb; exact .piv c6 b hv hne hd.symm
              | err e => simp [hb] at hd
              | panic p => simp [hb] at hd
            · simp only [c6, if_false] at hd
              by_cases c7 : l = .int 7
              · simp only [c7, if_true] at hd
                cases hs : counterSigArm d sf v with
                | ok ss => simp [hs] at hd; exact .csig c7 ss hs hd.symm
                | err e => simp [hs] at hd
                | panic p => simp [hs] at hd
              · simp only [c7, if_false] at hd
                simp at hd
                exact .other (by simp [stdLabels, c1, c2, c3, c4, c5, c6, c7]) hd.symm

end Coset

namespace Coset
open Coset.Spec

theorem lookupL_cons (L l : Label) (v : Value) (ps : List (Label × Value)) :
    lookupL L ((l, v) :: ps) = if l = L then some v else lookupL L ps := by
  unfold lookupL
  by_cases h : l = L <;> simp [List.find?, h]

theorem lookupL_none_of_not_mem (L : Label) (ps : List (Label × Value)) (h : L ∉ ps.map (·.1)) : lookupL L ps = none := by
  induction ps with
  | nil => rfl
  | cons p ps ih =>
    obtain ⟨l, v⟩ := p
    rw [lookupL_cons]
    simp at h
    have : l ≠ L := fun e => h.1 e.symm
    simp [this]; exact ih (by simpa using h.2)

/-- generic "one label, one field" lemma for the fold. -/
theorem fold_field {α : Type} (d : Nat) (sf : Value → Res CoseSignature) (proj : Header → α) (L : Label)
    (R : Value → Header → α → Prop)
    (frame : ∀ l v h h1, l ≠ L → headerStep d sf h (l, v) = .ok h1 → proj h1 = proj h)
    (set : ∀ v h h1, headerStep d sf h (L, v) = .ok h1 → R v h (proj h1)) :
    ∀ (ps : List (Label × Value)) (h0 h : Header), (ps.map (·.1)).Nodup → foldRes (headerStep d sf) ps h0 = .ok h →
      match lookupL L ps with
      | some v => ∃ hmid, R v hmid (proj h) ∧ proj hmid = proj h0
      | none => proj h = proj h0 := by
  intro ps
  induction ps with
  | nil => intro h0 h _ hf; simp [foldRes] at hf; subst hf; simp [lookupL]
  | cons p ps ih =>
    intro h0 h hnd hf
    obtain ⟨l, v⟩ := p
    simp only [foldRes] at hf
    cases hs : headerStep d sf h0 (l, v) with
    | err e => simp [hs] at hf
    | panic q => simp [hs] at hf
    | ok h1 =>
      simp only [hs] at hf
      simp only [List.map_cons, List.nodup_cons] at hnd
      have ih' := ih h1 h hnd.2 hf
      rw [lookupL_cons]
      by_cases hl : l = L
      · subst hl
        simp only [if_true]
        have hnone := lookupL_none_of_not_mem l ps hnd.1
        rw [hnone] at ih'
        refine ⟨h0, ?_, rfl⟩
        simp only [] at ih'
        rw [ih']
        exact set v h0 h1 hs
      · simp only [hl, if_false]
        have hfr := frame l v h0 h1 hl hs
        cases hlk : lookupL L ps with
        | none => rw [hlk] at ih'; simp only [] at ih' ⊢; rw [ih', hfr]
        | some w =>
          rw [hlk] at ih'; simp only [] at ih' ⊢
          obtain ⟨hmid, hr, hp⟩ := ih'
          exact ⟨hmid, hr, by rw [hp, hfr]⟩

theorem step_cases (d : Nat) (sf : Value → Res CoseSignature) (l : Label) (v : Value) (h h1 : Header)
    (hs : headerStep d sf h (l, v) = .ok h1) : DispatchCase d sf l v h h1 := by
  unfold headerStep at hs
  cases hd : headerDispatch d sf l v h with
  | ok h2 =>
    simp only [hd] at hs
    split at hs
    · simp at hs
    · simp at hs; subst hs; exact dispatch_cases d sf l v h h2 hd
  | err e => simp [hd] at hs
  | panic p => simp [hd] at hs

end Coset

namespace Coset
open Coset.Spec

section
variable (d : Nat) (sf : Value → Res CoseSignature)

macro "frame_tac" h:ident hs:ident : tactic => `(tactic|
  (have hc := step_cases _ _ _ _ _ _ $hs
   cases $h:ident with
   | mk a c ct k i p cs r =>
     cases hc <;>
       simp_all [Header.setAlg, Header.setCrit, Header.setContentType, Header.setKeyId, Header.setIv, Header.setPartialIv,
         Header.setCounterSignatures, Header.setRest, stdLabels]))

theorem frame_alg (l : Label) (v : Value) (h h1 : Header) (hl : l ≠ .int 1) (hs : headerStep d sf h (l, v) = .ok h1) : h1.alg = h.alg := by
  frame_tac h hs
theorem frame_crit (l : Label) (v : Value) (h h1 : Header) (hl : l ≠ .int 2) (hs : headerStep d sf h (l, v) = .ok h1) : h1.crit = h.crit := by
  frame_tac h hs
theorem frame_ct (l : Label) (v : Value) (h h1 : Header) (hl : l ≠ .int 3) (hs : headerStep d sf h (l, v) = .ok h1) : h1.contentType = h.contentType := by
  frame_tac h hs
theorem frame_kid (l : Label) (v : Value) (h h1 : Header) (hl : l ≠ .int 4) (hs : headerStep d sf h (l, v) = .ok h1) : h1.keyId = h.keyId := by
  frame_tac h hs
theorem frame_iv (l : Label) (v : Value) (h h1 : Header) (hl : l ≠ .int 5) (hs : headerStep d sf h (l, v) = .ok h1) : h1.iv = h.iv := by
  frame_tac h hs
theorem frame_piv (l : Label) (v : Value) (h h1 : Header) (hl : l ≠ .int 6) (hs : headerStep d sf h (l, v) = .ok h1) : h1.partialIv = h.partialIv := by
  frame_tac h hs
theorem frame_cs (l : Label) (v : Value) (h h1 : Header) (hl : l ≠ .int 7) (hs : headerStep d sf h (l, v) = .ok h1) :
    h1.counterSignatures = h.counterSignatures := by
  frame_tac h hs
end

end Coset

namespace Coset
open Coset.Spec

section
variable (d : Nat) (sf : Value → Res CoseSignature)

macro "set_tac" h:ident hs:ident : tactic => `(tactic|
  (have hc := step_cases _ _ _ _ _ _ $hs
   cases $h:ident with
   | mk a c ct k i p cs r =>
     cases hc <;>
       simp_all [Header.setAlg, Header.setCrit, Header.setContentType, Header.setKeyId, Header.setIv, Header.setPartialIv,
         Header.setCounterSignatures, Header.setRest, stdLabels]))

theorem set_alg (v : Value) (h h1 : Header) (hs : headerStep d sf h (.int 1, v) = .ok h1) :
    ∃ a, RegLabelPriv.fromValue Reg.algorithm v = .ok a ∧ h1.alg = some a := by set_tac h hs
theorem set_crit (v : Value) (h h1 : Header) (hs : headerStep d sf h (.int 2, v) = .ok h1) :
    ∃ a ls, v = .array a ∧ a ≠ [] ∧ mapRes (RegLabel.fromValue Reg.headerParameter) a = .ok ls ∧ h1.crit = h.crit ++ ls := by
  have hc := step_cases _ _ _ _ _ _ hs
  cases h with
  | mk a c ct k i p cs r =>
    cases hc <;> simp_all [Header.setCrit, stdLabels]
theorem set_ct (v : Value) (h h1 : Header) (hs : headerStep d sf h (.int 3, v) = .ok h1) :
    ∃ c, RegLabel.fromValue Reg.coapContentFormat v = .ok c ∧ contentTypeOk c = true ∧ h1.contentType = some c := by set_tac h hs
theorem set_kid (v : Value) (h h1 : Header) (hs : headerStep d sf h (.int 4, v) = .ok h1) :
    ∃ b, v = .bytes b ∧ b ≠ [] ∧ h1.keyId = b := by set_tac h hs
theorem set_iv (v : Value) (h h1 : Header) (hs : headerStep d sf h (.int 5, v) = .ok h1) :
    ∃ b, v = .bytes b ∧ b ≠ [] ∧ h1.iv = b := by set_tac h hs
theorem set_piv (v : Value) (h h1 : Header) (hs : headerStep d sf h (.int 6, v) = .ok h1) :
    ∃ b, v = .bytes b ∧ b ≠ [] ∧ h1.partialIv = b := by set_tac h hs
theorem set_cs (v : Value) (h h1 : Header) (hs : headerStep d sf h (.int 7, v) = .ok h1) :
    ∃ ss, counterSigArm d sf v = .ok ss ∧ h1.counterSignatures = h.counterSignatures ++ ss := by
  have hc := step_cases _ _ _ _ _ _ hs
  cases h with
  | mk a c ct k i p cs r =>
    cases hc <;> simp_all [Header.setCounterSignatures, stdLabels]

theorem step_rest (l : Label) (v : Value) (h h1 : Header) (hs : headerStep d sf h (l, v) = .ok h1) :
    h1.rest = h.rest ++ (if l ∉ stdLabels then [(l, v)] else []) := by
  have hc := step_cases _ _ _ _ _ _ hs
  cases h with
  | mk a c ct k i p cs r =>
    cases hc <;>
      simp_all [Header.setAlg, Header.setCrit, Header.setContentType, Header.setKeyId, Header.setIv, Header.setPartialIv,
        Header.setCounterSignatures, Header.setRest, stdLabels]

theorem fold_rest : ∀ (ps : List (Label × Value)) (h0 h : Header), foldRes (headerStep d sf) ps h0 = .ok h →
    h.rest = h0.rest ++ ps.filter (fun p => p.1 ∉ stdLabels) := by
  intro ps
  induction ps with
  | nil => intro h0 h hf; simp [foldRes] at hf; subst hf; simp
  | cons p ps ih =>
    intro h0 h hf
    obtain ⟨l, v⟩ := p
    simp only [foldRes] at hf
    cases hs : headerStep d sf h0 (l, v) with
    | err e => simp [hs] at hf
    | panic q => simp [hs] at hf
    | ok h1 =>
      simp only [hs] at hf
      rw [ih h1 h hf, step_rest d sf l v h0 h1 hs]
      by_cases hl : l ∈ stdLabels <;> simp [hl, List.filter_cons]

/-- every field of the fold's result is what the wire pairs say (labels pairwise distinct). -/
theorem fold_headerOf (ps : List (Label × Value)) (h0 h : Header) (hnd : (ps.map (·.1)).Nodup)
    (hf : foldRes (headerStep d sf) ps h0 = .ok h) : HeaderOf (counterSigArm d sf) ps h0 h := by
  have A := fold_field d sf Header.alg (.int 1) (fun v _ x => ∃ a, RegLabelPriv.fromValue Reg.algorithm v = .ok a ∧ x = some a)
    (fun l v h h1 hl hs => frame_alg d sf l v h h1 hl hs) (fun v h h1 hs => set_alg d sf v h h1 hs) ps h0 h hnd hf
  have C := fold_field d sf Header.crit (.int 2)
    (fun v hm x => ∃ a ls, v = .array a ∧ a ≠ [] ∧ mapRes (RegLabel.fromValue Reg.headerParameter) a = .ok ls ∧ x = hm.crit ++ ls)
    (fun l v h h1 hl hs => frame_crit d sf l v h h1 hl hs) (fun v h h1 hs => set_crit d sf v h h1 hs) ps h0 h hnd hf
  have T := fold_field d sf Header.contentType (.int 3)
    (fun v _ x => ∃ c, RegLabel.fromValue Reg.coapContentFormat v = .ok c ∧ contentTypeOk c = true ∧ x = some c)
    (fun l v h h1 hl hs => frame_ct d sf l v h h1 hl hs) (fun v h h1 hs => set_ct d sf v h h1 hs) ps h0 h hnd hf
  have K := fold_field d sf Header.keyId (.int 4) (fun v _ x => ∃ b, v = .bytes b ∧ b ≠ [] ∧ x = b)
    (fun l v h h1 hl hs => frame_kid d sf l v h h1 hl hs) (fun v h h1 hs => set_kid d sf v h h1 hs) ps h0 h hnd hf
  have I := fold_field d sf Header.iv (.int 5) (fun v _ x => ∃ b, v = .bytes b ∧ b ≠ [] ∧ x = b)
    (fun l v h h1 hl hs => frame_iv d sf l v h h1 hl hs) (fun v h h1 hs => set_iv d sf v h h1 hs) ps h0 h hnd hf
  have P := fold_field d sf Header.partialIv (.int 6) (fun v _ x => ∃ b, v = .bytes b ∧ b ≠ [] ∧ x = b)
    (fun l v h h1 hl hs => frame_piv d sf l v h h1 hl hs) (fun v h h1 hs => set_piv d sf v h h1 hs) ps h0 h hnd hf
  have S := fold_field d sf Header.counterSignatures (.int 7)
    (fun v hm x => ∃ ss, counterSigArm d sf v = .ok ss ∧ x = hm.counterSignatures ++ ss)
    (fun l v h h1 hl hs => frame_cs d sf l v h h1 hl hs) (fun v h h1 hs => set_cs d sf v h h1 hs) ps h0 h hnd hf
  refine ⟨?_, ?_, ?_, ?_, ?_, ?_, ?_, fold_rest d sf ps h0 h hf⟩
  · cases hl : lookupL (.int 1) ps <;> simp only [hl] at A ⊢
    · exact A
    · obtain ⟨_, hr, _⟩ := A; exact hr
  · cases hl : lookupL (.int 2) ps <;> simp only [hl] at C ⊢
    · exact C
    · obtain ⟨hm, ⟨a, ls, h1, h2, h3, h4⟩, hp⟩ := C; exact ⟨a, ls, h1, h2, h3, by rw [h4, hp]⟩
  · cases hl : lookupL (.int 3) ps <;> simp only [hl] at T ⊢
    · exact T
    · obtain ⟨_, hr, _⟩ := T; exact hr
  · cases hl : lookupL (.int 4) ps <;> simp only [hl] at K ⊢
    · exact K
    · obtain ⟨_, hr, _⟩ := K; exact hr
  · cases hl : lookupL (.int 5) ps <;> simp only [hl] at I ⊢
    · exact I
    · obtain ⟨_, hr, _⟩ := I; exact hr
  · cases hl : lookupL (.int 6) ps <;> simp only [hl] at P ⊢
    · exact P
    · obtain ⟨_, hr, _⟩ := P; exact hr
  · cases hl : lookupL (.int 7) ps <;> simp only [hl] at S ⊢
    · exact S
    · obtain ⟨hm, ⟨ss, h1, h2⟩, hp⟩ := S; exact ⟨ss, h1, by rw [h2, hp]⟩
end

end Coset
