/-
  C08, converse direction: a map with distinct labels in which every standard parameter present has its shape (and IV / Partial IV are not
  both present) is accepted — in any wire order.
-/
import CosetProofs.HeaderFields
namespace Coset
open Coset.Spec

/-- the shape rule for one entry (RFC 8152 §3.1), stated on the wire value. -/
structure EntryOk (d : Nat) (sf : Value → Res CoseSignature) (l : Label) (v : Value) : Prop where
  alg : l = .int 1 → ∃ a, RegLabelPriv.fromValue Reg.algorithm v = .ok a
  crit : l = .int 2 → ∃ a ls, v = .array a ∧ a ≠ [] ∧ mapRes (RegLabel.fromValue Reg.headerParameter) a = .ok ls
  contentType : l = .int 3 → ∃ c, RegLabel.fromValue Reg.coapContentFormat v = .ok c ∧ contentTypeOk c = true
  bstr : (l = .int 4 ∨ l = .int 5 ∨ l = .int 6) → ∃ b, v = .bytes b ∧ b ≠ []
  counterSig : l = .int 7 → ∃ ss, counterSigArm d sf v = .ok ss

section
variable (d : Nat) (sf : Value → Res CoseSignature)

/-- an entry with the right shape is dispatched successfully from any state; only labels 5 / 6 can populate IV / Partial IV. -/
theorem dispatch_ok (l : Label) (v : Value) (h0 : Header) (he : EntryOk d sf l v) :
    ∃ h1, headerDispatch d sf l v h0 = .ok h1 ∧ (h1.iv ≠ [] → h0.iv ≠ [] ∨ l = .int 5) ∧ (h1.partialIv ≠ [] → h0.partialIv ≠ [] ∨ l = .int 6) := by
  obtain ⟨e1, e2, e3, e4, e5, e6, e7⟩ := std_labels
  cases h0 with
  | mk a c ct k i p cs r =>
  have nb : ∀ b : Bytes, b ≠ [] → tryAsNonemptyBytes (.bytes b) = .ok b := by
    intro b hb; cases b <;> simp_all [tryAsNonemptyBytes, tryAsBytes]
  by_cases h1 : l = .int 1
  · subst h1; obtain ⟨x, hx⟩ := he.alg rfl
    exact ⟨.mk (some x) c ct k i p cs r, by simp [headerDispatch, e1, hx, Header.setAlg], by simp [Header.iv], by simp [Header.partialIv]⟩
  by_cases h2 : l = .int 2
  · subst h2; obtain ⟨x, ls, rfl, hne, hx⟩ := he.crit rfl
    have : x.isEmpty = false := by cases x <;> simp_all
    exact ⟨.mk a (c ++ ls) ct k i p cs r, by simp [headerDispatch, e1, e2, this, hx, Header.setCrit, Header.crit], by simp [Header.iv], by simp [Header.partialIv]⟩
  by_cases h3 : l = .int 3
  · subst h3; obtain ⟨c', hx, hok⟩ := he.contentType rfl
    cases c' with
    | assigned kk =>
      exact ⟨.mk a c (some (.assigned kk)) k i p cs r, by simp [headerDispatch, e1, e2, e3, hx, Header.setContentType], by simp [Header.iv], by simp [Header.partialIv]⟩
    | text t =>
      have : contentTypeTextOk t = true := by simpa [contentTypeOk, contentTypeTextOk] using hok
      exact ⟨.mk a c (some (.text t)) k i p cs r, by simp [headerDispatch, e1, e2, e3, hx, this, Header.setContentType], by simp [Header.iv], by simp [Header.partialIv]⟩
  by_cases h4 : l = .int 4
  · subst h4; obtain ⟨b, rfl, hb⟩ := he.bstr (Or.inl rfl)
    exact ⟨.mk a c ct b i p cs r, by simp [headerDispatch, e1, e2, e3, e4, nb b hb, Header.setKeyId], by simp [Header.iv], by simp [Header.partialIv]⟩
  by_cases h5 : l = .int 5
  · subst h5; obtain ⟨b, rfl, hb⟩ := he.bstr (Or.inr (Or.inl rfl))
    exact ⟨.mk a c ct k b p cs r, by simp [headerDispatch, e1, e2, e3, e4, e5, nb b hb, Header.setIv], by simp, by simp [Header.partialIv]⟩
  by_cases h6 : l = .int 6
  · subst h6; obtain ⟨b, rfl, hb⟩ := he.bstr (Or.inr (Or.inr rfl))
    exact ⟨.mk a c ct k i b cs r, by simp [headerDispatch, e1, e2, e3, e4, e5, e6, nb b hb, Header.setPartialIv], by simp [Header.iv], by simp⟩
  by_cases h7 : l = .int 7
  · subst h7; obtain ⟨ss, hx⟩ := he.counterSig rfl
    exact ⟨.mk a c ct k i p (cs ++ ss) r, by simp [headerDispatch, e1, e2, e3, e4, e5, e6, e7, hx, Header.setCounterSignatures, Header.counterSignatures],
      by simp [Header.iv], by simp [Header.partialIv]⟩
  exact ⟨.mk a c ct k i p cs (r ++ [(l, v)]), by simp [headerDispatch, e1, e2, e3, e4, e5, e6, e7, h1, h2, h3, h4, h5, h6, h7, Header.setRest, Header.rest],
    by simp only [Header.iv]; exact fun h => Or.inl h, by simp only [Header.partialIv]; exact fun h => Or.inl h⟩

/-- the fold succeeds on any list of well-shaped entries as long as IV and Partial IV cannot both become populated. -/
theorem fold_ok : ∀ (ps : List (Label × Value)) (h0 : Header), (∀ p ∈ ps, EntryOk d sf p.1 p.2) →
    ¬ ((h0.iv ≠ [] ∨ Label.int 5 ∈ ps.map (·.1)) ∧ (h0.partialIv ≠ [] ∨ Label.int 6 ∈ ps.map (·.1))) →
    ∃ h, foldRes (headerStep d sf) ps h0 = .ok h := by
  intro ps
  induction ps with
  | nil => intro h0 _ _; exact ⟨h0, rfl⟩
  | cons p ps ih =>
    intro h0 hall hiv
    obtain ⟨l, v⟩ := p
    obtain ⟨h1, hd, hi, hp⟩ := dispatch_ok d sf l v h0 (hall (l, v) (by simp))
    have hcheck : (!h1.iv.isEmpty && !h1.partialIv.isEmpty) = false := by
      cases hh1 : h1.iv <;> cases hh2 : h1.partialIv <;> simp
      apply hiv
      constructor
      · rcases hi (by simp [hh1]) with h | h
        · exact Or.inl h
        · exact Or.inr (by simp [h])
      · rcases hp (by simp [hh2]) with h | h
        · exact Or.inl h
        · exact Or.inr (by simp [h])
    have hs : headerStep d sf h0 (l, v) = .ok h1 := by simp [headerStep, hd, hcheck]
    simp only [foldRes, hs]
    apply ih h1 (fun q hq => hall q (by simp [hq]))
    intro ⟨c1, c2⟩
    apply hiv
    constructor
    · rcases c1 with c | c
      · rcases hi c with h | h
        · exact Or.inl h
        · exact Or.inr (by simp [h])
      · exact Or.inr (by simp [c])
    · rcases c2 with c | c
      · rcases hp c with h | h
        · exact Or.inl h
        · exact Or.inr (by simp [h])
      · exact Or.inr (by simp [c])
end

/-- C08 (⇐) for the loop: keys are labels, labels distinct, every entry well-shaped, not both IV and Partial IV ⇒ accepted. -/
theorem wellformed_loop_accepts (d : Nat) (sf : Value → Res CoseSignature) (m : List (Value × Value)) (ls : List Label)
    (hk : keyLabels m = .ok ls) (hnd : ls.Nodup) (hall : ∀ p ∈ ls.zip (m.map (·.2)), EntryOk d sf p.1 p.2)
    (hiv : ¬ (Label.int 5 ∈ ls ∧ Label.int 6 ∈ ls)) :
    ∃ h, headerLoop d sf m Header.default [] = .ok h := by
  have hlen : ls.length = (m.map (·.2)).length := by
    have : ∀ (xs : List Value) (ys : List Label), mapRes Label.fromValue xs = .ok ys → ys.length = xs.length := by
      intro xs; induction xs with
      | nil => intro ys h; simp [mapRes] at h; subst h; rfl
      | cons x xs ih => intro ys h; rw [mapRes_cons_ok] at h; obtain ⟨y, ys', _, h2, rfl⟩ := h; simp [ih ys' h2]
    simpa [keyLabels] using this _ _ hk
  have hfst : (ls.zip (m.map (·.2))).map (·.1) = ls := by rw [List.map_fst_zip]; omega
  obtain ⟨h, hf⟩ := fold_ok d sf (ls.zip (m.map (·.2))) Header.default hall (by
    rw [hfst]; simp only [Header.default, Header.iv, Header.partialIv, ne_eq, not_true_eq_false, false_or]; exact hiv)
  exact ⟨h, (headerLoop_ok_iff d sf m _ _ _).mpr ⟨ls, hk, ⟨hnd, by simp⟩, hf⟩⟩

end Coset
