/-
  The COSE_Key loop as an instance of the generic map loop.
-/
import CosetProofs.MapLoop
namespace Coset

def keyStep (k : CoseKey) (lv : Label × Value) : Res CoseKey := keyDispatch lv.1 lv.2 k

theorem keyLoop_eq_gen (m : List (Value × Value)) :
    ∀ (k : CoseKey) (seen : List Label), keyLoop m k seen = genLoop Label.fromValue Label.cmp keyStep m k seen := by
  induction m with
  | nil => intro k seen; rfl
  | cons kv m ih =>
    intro k seen
    obtain ⟨kk, v⟩ := kv
    simp only [keyLoop, genLoop, keyStep]
    cases Label.fromValue kk with
    | ok l =>
      simp only []
      cases setContains Label.cmp seen l with
      | ok b =>
        cases b with
        | true => rfl
        | false =>
          simp only []
          cases keyDispatch l v k with
          | ok k1 => simp only []; exact ih k1 _
          | err e => rfl
          | panic p => rfl
      | err e => rfl
      | panic p => rfl
    | err e => rfl
    | panic p => rfl

theorem label_loop_hyps :
    (∀ (k : Value) (l : Label), Label.fromValue k = .ok l → True) ∧
    (∀ (seen : List Label) (l : Label), (∀ x ∈ seen, True) → True → setContains Label.cmp seen l = .ok (decide (l ∈ seen))) :=
  ⟨fun _ _ _ => trivial, fun seen l _ _ => setContains_label seen l⟩

end Coset
