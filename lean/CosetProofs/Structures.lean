/-
  Lemmas relating the three structure functions of the model to the byte-level spec.
-/
import CosetProofs.Cbor.Roundtrip
import CosetSpec.Structures
import CosetModel.Api
namespace Coset
open Coset.Cbor Coset.Spec

theorem detHead_eq_encHead (m n : Nat) : detHead m n = encHead m n := by
  unfold detHead encHead
  split
  · rfl
  · split
    · simp [beN]
    · split
      · simp [beN]
      · split
        · simp [beN, Nat.div_div_eq_div_mul]
        · simp [beN, Nat.div_div_eq_div_mul]

theorem encList_bytes (slots : List Bytes) : encList (slots.map Value.bytes) = (slots.map bstrItem).flatten := by
  induction slots with
  | nil => rfl
  | cons s ss ih => simp [encList, enc, bstrItem, detHead_eq_encHead, ih]

/-- the spec bytes are the serializer's output for `[text ctx, bytes slot₁, …]`. -/
theorem specStruct_eq_enc (ctx : Bytes) (slots : List Bytes) :
    specStruct ctx slots = enc (.array (.text ctx :: slots.map .bytes)) := by
  simp [specStruct, enc, encList, encList_bytes, detHead_eq_encHead, Nat.add_comm]

/-- spec structures are injective: equal bytes ⇒ equal context and equal slot lists (lengths below 2^64). -/
theorem specStruct_injective (c1 c2 : Bytes) (xs1 xs2 : List Bytes)
    (h1 : Utf8.valid c1 = true ∧ c1.length < 2 ^ 64) (h2 : Utf8.valid c2 = true ∧ c2.length < 2 ^ 64)
    (hx1 : xs1.length + 1 < 2 ^ 64 ∧ ∀ x ∈ xs1, x.length < 2 ^ 64) (hx2 : xs2.length + 1 < 2 ^ 64 ∧ ∀ x ∈ xs2, x.length < 2 ^ 64)
    (h : specStruct c1 xs1 = specStruct c2 xs2) : c1 = c2 ∧ xs1 = xs2 := by
  rw [specStruct_eq_enc, specStruct_eq_enc] at h
  have normalL : ∀ xs : List Bytes, (∀ x ∈ xs, x.length < 2 ^ 64) → NormalL (xs.map Value.bytes) := by
    intro xs; induction xs with
    | nil => intro _; trivial
    | cons x xs ih => intro hx; exact ⟨by simpa [Normal] using hx x (by simp), ih (fun y hy => hx y (by simp [hy]))⟩
  have depthL : ∀ xs : List Bytes, depthOfL (xs.map Value.bytes) = 0 := by
    intro xs; induction xs with
    | nil => rfl
    | cons x xs ih => simp [depthOfL, depthOf, ih]
  have n1 : Normal (.array (.text c1 :: xs1.map .bytes)) := by
    simp only [Normal, NormalL]; exact ⟨by simp; omega, ⟨h1.2, h1.1⟩, normalL xs1 hx1.2⟩
  have n2 : Normal (.array (.text c2 :: xs2.map .bytes)) := by
    simp only [Normal, NormalL]; exact ⟨by simp; omega, ⟨h2.2, h2.1⟩, normalL xs2 hx2.2⟩
  have d1 : depthOf (.array (.text c1 :: xs1.map .bytes)) ≤ 1 := by simp [depthOf, depthOfL, depthL]
  have d2 : depthOf (.array (.text c2 :: xs2.map .bytes)) ≤ 1 := by simp [depthOf, depthOfL, depthL]
  have p1 := parse_enc _ (nsize (.array (.text c1 :: xs1.map .bytes)) + nsize (.array (.text c2 :: xs2.map .bytes))) 1 [] n1 d1 (by omega)
  have p2 := parse_enc _ (nsize (.array (.text c1 :: xs1.map .bytes)) + nsize (.array (.text c2 :: xs2.map .bytes))) 1 [] n2 d2 (by omega)
  rw [h] at p1
  rw [p1] at p2
  simp at p2
  refine ⟨p2.1, ?_⟩
  have hmap : ∀ (a b : List Bytes), a.map Value.bytes = b.map Value.bytes → a = b := by
    intro a; induction a with
    | nil => intro b hb; cases b <;> simp_all
    | cons x xs ih => intro b hb; cases b with
      | nil => simp at hb
      | cons y ys => simp at hb; rw [hb.1, ih ys hb.2]
  exact hmap _ _ p2.2

/-- when a protected header turns into its bstr. -/
theorem cborBstr_stored (d : Bytes) (h : Header) : ProtectedHeader.cborBstr (.mk (some d) h) = .ok (.bytes d) := by
  simp [ProtectedHeader.cborBstr]

theorem cborBstr_built_empty (h : Header) (he : h.isEmpty = true) : ProtectedHeader.cborBstr (.mk none h) = .ok (.bytes []) := by
  simp [ProtectedHeader.cborBstr, he]

theorem cborBstr_built_nonempty (h : Header) (he : h.isEmpty = false) :
    ProtectedHeader.cborBstr (.mk none h) = (Header.toValue h).map (fun v => .bytes (enc v)) := by
  simp only [ProtectedHeader.cborBstr, he]
  cases Header.toValue h <;> simp [Res.map]

/-- a protected slot is always a byte string. -/
theorem cborBstr_is_bytes (p : ProtectedHeader) (v : Value) (h : ProtectedHeader.cborBstr p = .ok v) : ∃ b, v = .bytes b := by
  cases p with
  | mk orig hd =>
    cases orig with
    | some d => simp [ProtectedHeader.cborBstr] at h; exact ⟨d, h.symm⟩
    | none =>
      simp only [ProtectedHeader.cborBstr] at h
      split at h
      · simp at h; exact ⟨[], h.symm⟩
      · cases ht : Header.toValue hd with
        | ok w => simp [ht] at h; exact ⟨_, h.symm⟩
        | err e => simp [ht] at h
        | panic s => simp [ht] at h

theorem bstrExpect_ok (p : ProtectedHeader) (b : Bytes) (h : ProtectedHeader.cborBstr p = .ok (.bytes b)) :
    bstrExpect p = .ok (.bytes b) := by simp [bstrExpect, h]

theorem sigStructure_spec (ctx : SignatureContext) (body : ProtectedHeader) (sign : Option ProtectedHeader) (aad payload b : Bytes)
    (hb : ProtectedHeader.cborBstr body = .ok (.bytes b)) :
    (sign = none → sigStructureData ctx body none aad payload = .ok (specStruct ctx.text [b, aad, payload])) ∧
    (∀ sp s, sign = some sp → ProtectedHeader.cborBstr sp = .ok (.bytes s) →
      sigStructureData ctx body (some sp) aad payload = .ok (specStruct ctx.text [b, s, aad, payload])) := by
  constructor
  · intro _
    simp [sigStructureData, bstrExpect_ok body b hb, specStruct_eq_enc]
  · intro sp s _ hs
    simp [sigStructureData, bstrExpect_ok body b hb, bstrExpect_ok sp s hs, specStruct_eq_enc]

theorem macStructure_spec (ctx : MacContext) (prot : ProtectedHeader) (aad payload b : Bytes)
    (hb : ProtectedHeader.cborBstr prot = .ok (.bytes b)) :
    macStructureData ctx prot aad payload = .ok (specStruct ctx.text [b, aad, payload]) := by
  simp [macStructureData, bstrExpect_ok prot b hb, specStruct_eq_enc]

theorem encStructure_spec (ctx : EncryptionContext) (prot : ProtectedHeader) (aad b : Bytes)
    (hb : ProtectedHeader.cborBstr prot = .ok (.bytes b)) :
    encStructureData ctx prot aad = .ok (specStruct ctx.text [b, aad]) := by
  simp [encStructureData, bstrExpect_ok prot b hb, specStruct_eq_enc]

end Coset
