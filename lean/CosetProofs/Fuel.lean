/-
  The fuel of the Header ↔ CoseSignature ↔ ProtectedHeader recursion is invisible: the result depends only on the nesting budget
  `depth`, and the recursion never nests deeper than 3·depth + 3 activations — whatever the input.
-/
import CosetProofs.NoPanic
namespace Coset

theorem counterSigArm_depth0 (sf sf' : Value → Res CoseSignature) (v : Value) : counterSigArm 0 sf v = counterSigArm 0 sf' v := by
  cases v <;> simp [counterSigArm, tryAsArray]

theorem headerDispatch_depth0 (sf sf' : Value → Res CoseSignature) (l : Label) (v : Value) (h : Header) :
    headerDispatch 0 sf l v h = headerDispatch 0 sf' l v h := by
  simp only [headerDispatch, counterSigArm_depth0 sf sf']

theorem headerLoop_depth0 (sf sf' : Value → Res CoseSignature) : ∀ (m : List (Value × Value)) (h : Header) (seen : List Label),
    headerLoop 0 sf m h seen = headerLoop 0 sf' m h seen := by
  intro m
  induction m with
  | nil => intro h seen; rfl
  | cons kv m ih =>
    intro h seen
    obtain ⟨k, v⟩ := kv
    simp only [headerLoop, headerDispatch_depth0 sf sf']
    cases Label.fromValue k with
    | ok l =>
      simp only []
      cases setContains Label.cmp seen l with
      | ok b =>
        cases b
        · simp only []
          cases headerDispatch 0 sf' l v h with
          | ok h1 => simp only []; split
                     · rfl
                     · exact ih _ _
          | err e => rfl
          | panic p => rfl
        · rfl
      | err e => rfl
      | panic p => rfl
    | err e => rfl
    | panic p => rfl

/-- fuel needed at nesting budget `d`: header 3d+1, protected header 3d+2, signature 3d+3. -/
theorem fuel_independent : ∀ d,
    (∀ f v, 3 * d + 1 ≤ f → Header.fromValue f d v = Header.fromValue (3 * d + 1) d v) ∧
    (∀ f v, 3 * d + 2 ≤ f → ProtectedHeader.fromBstr f d v = ProtectedHeader.fromBstr (3 * d + 2) d v) ∧
    (∀ f v, 3 * d + 3 ≤ f → CoseSignature.fromValue f d v = CoseSignature.fromValue (3 * d + 3) d v) := by
  intro d
  induction d with
  | zero =>
    have hH : ∀ f v, 1 ≤ f → Header.fromValue f 0 v = Header.fromValue 1 0 v := by
      intro f v hf
      obtain ⟨g, rfl⟩ : ∃ g, f = g + 1 := ⟨f - 1, by omega⟩
      simp only [Header.fromValue]
      cases tryAsMap v with
      | ok m => exact headerLoop_depth0 _ _ m _ _
      | err e => rfl
      | panic p => rfl
    have hP : ∀ f v, 2 ≤ f → ProtectedHeader.fromBstr f 0 v = ProtectedHeader.fromBstr 2 0 v := by
      intro f v hf
      obtain ⟨g, rfl⟩ : ∃ g, f = g + 1 := ⟨f - 1, by omega⟩
      simp only [ProtectedHeader.fromBstr]
      cases tryAsBytes v with
      | ok data =>
        simp only []
        split
        · rfl
        · cases readToValue data with
          | ok x => simp only []; rw [hH g x (by omega)]
          | err e => rfl
          | panic p => rfl
      | err e => rfl
      | panic p => rfl
    refine ⟨by simpa using hH, by simpa using hP, ?_⟩
    intro f v hf
    obtain ⟨g, rfl⟩ : ∃ g, f = g + 1 := ⟨f - 1, by omega⟩
    simp only [CoseSignature.fromValue]
    have e1 : ∀ x, Header.fromValue g 0 x = Header.fromValue 2 0 x := fun x => by rw [hH g x (by omega), hH 2 x (by omega)]
    have e2 : ∀ x, ProtectedHeader.fromBstr g 0 x = ProtectedHeader.fromBstr 2 0 x := fun x => hP g x (by omega)
    simp only [e1, e2]
  | succ d ih =>
    obtain ⟨ihH, ihP, ihS⟩ := ih
    have hH : ∀ f v, 3 * (d + 1) + 1 ≤ f → Header.fromValue f (d + 1) v = Header.fromValue (3 * (d + 1) + 1) (d + 1) v := by
      intro f v hf
      obtain ⟨g, rfl⟩ : ∃ g, f = g + 1 := ⟨f - 1, by omega⟩
      simp only [Header.fromValue, Nat.add_sub_cancel]
      have : CoseSignature.fromValue g d = CoseSignature.fromValue (3 * (d + 1)) d := by
        funext x; rw [ihS g x (by omega), ihS (3 * (d + 1)) x (by omega)]
      rw [this]
    have hP : ∀ f v, 3 * (d + 1) + 2 ≤ f → ProtectedHeader.fromBstr f (d + 1) v = ProtectedHeader.fromBstr (3 * (d + 1) + 2) (d + 1) v := by
      intro f v hf
      obtain ⟨g, rfl⟩ : ∃ g, f = g + 1 := ⟨f - 1, by omega⟩
      simp only [ProtectedHeader.fromBstr]
      cases tryAsBytes v with
      | ok data =>
        simp only []
        split
        · rfl
        · cases readToValue data with
          | ok x => simp only []; rw [hH g x (by omega)]
          | err e => rfl
          | panic p => rfl
      | err e => rfl
      | panic p => rfl
    refine ⟨hH, hP, ?_⟩
    intro f v hf
    obtain ⟨g, rfl⟩ : ∃ g, f = g + 1 := ⟨f - 1, by omega⟩
    simp only [CoseSignature.fromValue]
    have e1 : ∀ x, Header.fromValue g (d + 1) x = Header.fromValue (3 * (d + 1) + 2) (d + 1) x := fun x => by
      rw [hH g x (by omega), hH (3 * (d + 1) + 2) x (by omega)]
    have e2 : ∀ x, ProtectedHeader.fromBstr g (d + 1) x = ProtectedHeader.fromBstr (3 * (d + 1) + 2) (d + 1) x := fun x => hP g x (by omega)
    simp only [e1, e2]

/-- at sufficient fuel the family never reports `outOfFuel`. -/
def NoOof {α : Type} (r : Res α) : Prop := r ≠ .err .outOfFuel

end Coset
