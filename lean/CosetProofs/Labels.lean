/-
  Facts about `Label::cmp` and the `seen` set that hold for *all* labels (no range hypotheses).
-/
import CosetProofs.Props.C16
namespace Coset
open Coset.Props.C16

/-- `Label::cmp` never reaches its `unreachable!()` arm. -/
theorem Label.cmp_ok (a b : Label) : ∃ o, Label.cmp a b = .ok o := by
  cases a <;> cases b
  · exact ⟨_, cmp_int _ _⟩
  all_goals exact ⟨_, rfl⟩

theorem intOrd_eq_iff (i j : Int) : intOrd i j = .eq ↔ i = j := by
  unfold intOrd
  by_cases n1 : i < 0 <;> by_cases n2 : j < 0 <;> simp [n1, n2] <;> omega

/-- equal exactly when identical — for every pair of labels. -/
theorem Label.cmp_eq_iff' (a b : Label) : Label.cmp a b = .ok .eq ↔ a = b := by
  cases a with
  | int i =>
    cases b with
    | int j => rw [cmp_int]; simp [intOrd_eq_iff]
    | text t => simp [Label.cmp]
  | text s =>
    cases b with
    | int j => simp [Label.cmp]
    | text t =>
      simp only [Label.cmp, textCmp, Res.ok.injEq, Label.text.injEq]
      constructor
      · intro h
        by_cases hl : s.length = t.length
        · simp [hl, Ordering.then] at h; exact (lexCmp_eq_iff _ _).mp h
        · cases hc : compare s.length t.length
          · simp [hc, Ordering.then] at h
          · exact absurd (Nat.compare_eq_eq.mp hc) hl
          · simp [hc, Ordering.then] at h
      · intro h; subst h; simp [Ordering.then, lexCmp_refl]

/-- `seen.contains(&label)`: true exactly when the label occurred before; never an error or a panic. -/
theorem setContains_label (seen : List Label) (l : Label) : setContains Label.cmp seen l = .ok (decide (l ∈ seen)) := by
  induction seen with
  | nil => simp [setContains]
  | cons y ys ih =>
    simp only [setContains]
    obtain ⟨o, ho⟩ := Label.cmp_ok l y
    rw [ho]
    cases o with
    | eq =>
      have := (Label.cmp_eq_iff' l y).mp ho
      simp [this]
    | lt =>
      have : l ≠ y := fun h => by rw [(Label.cmp_eq_iff' l y).mpr h] at ho; simp at ho
      simp [ih, this]
    | gt =>
      have : l ≠ y := fun h => by rw [(Label.cmp_eq_iff' l y).mpr h] at ho; simp at ho
      simp [ih, this]

end Coset
