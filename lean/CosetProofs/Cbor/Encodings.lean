/-
  L2: the parser reads *every* well-formed encoding of a data item — any head widths, definite or indefinite lengths, any chunking
  of strings, any float width, bignum forms of integers — as the data-model value the encoding denotes (`CosetSpec.Encodings`), and
  leaves what follows untouched.  Consequently everything coset computes from bytes is a function of the data-model value alone.
-/
import CosetSpec.Encodings
import CosetModel.Api
import CosetProofs.Cbor.ParseOutput
namespace Coset.Cbor
open Coset Coset.Spec

theorem fits_lt (w : W) (n : Nat) (h : w.fits n) : n < 2 ^ 64 := by
  cases w <;> simp only [W.fits] at h <;> omega

theorem pull_headW (m : Nat) (w : W) (n : Nat) (hm : m < 7) (hf : w.fits n) (rest : Bytes) :
    pull (headW m w n ++ rest) = some (hdOf m n, rest) := by
  cases w with
  | w0 =>
    simp only [W.fits] at hf
    exact pull_of_arg _ m n hm (by simp [UInt8.toNat_ofNat'] <;> omega) (by simp [UInt8.toNat_ofNat'] <;> omega) _ _ n 0 (pullArg_lt24 n hf rest)
  | w1 =>
    simp only [W.fits] at hf
    exact pull_of_arg _ m 24 hm (by simp [UInt8.toNat_ofNat'] <;> omega) (by simp [UInt8.toNat_ofNat'] <;> omega) _ _ n 1
      (pullArg_wide 24 1 n (by simp) (by omega) rest)
  | w2 =>
    simp only [W.fits] at hf
    exact pull_of_arg _ m 25 hm (by simp [UInt8.toNat_ofNat'] <;> omega) (by simp [UInt8.toNat_ofNat'] <;> omega) _ _ n 2
      (pullArg_wide 25 2 n (by simp) (by omega) rest)
  | w4 =>
    simp only [W.fits] at hf
    exact pull_of_arg _ m 26 hm (by simp [UInt8.toNat_ofNat'] <;> omega) (by simp [UInt8.toNat_ofNat'] <;> omega) _ _ n 4
      (pullArg_wide 26 4 n (by simp) (by omega) rest)
  | w8 =>
    simp only [W.fits] at hf
    exact pull_of_arg _ m 27 hm (by simp [UInt8.toNat_ofNat'] <;> omega) (by simp [UInt8.toNat_ofNat'] <;> omega) _ _ n 8
      (pullArg_wide 27 8 n (by simp) (by omega) rest)

theorem pull_break (s : Bytes) : pull (0xff :: s) = some (.brk, s) := by
  simp [pull, pullArg]

/-- the first byte of a head of major type ≤ 6 is not the break byte. -/
theorem headW_head_ne_ff (m : Nat) (w : W) (n : Nat) (hm : m < 7) (hf : w.fits n) (rest : Bytes) :
    (headW m w n ++ rest).head? ≠ some 0xff := by
  have key : ∀ k, k < 28 → UInt8.ofNat (m * 32 + k) ≠ 0xff := by
    intro k hk h
    have := congrArg UInt8.toNat h
    simp [UInt8.toNat_ofNat'] at this
    omega
  cases w <;> simp only [headW, W.fits] at hf ⊢ <;>
    simp only [List.cons_append, List.singleton_append, List.nil_append, List.head?_cons, Option.some.injEq, ne_eq] <;>
    exact key _ (by omega)

/-! ### fuel a choice of encoding needs -/
mutual
def efuel : E → Nat
  | .bstrI cs => cs.length + 2
  | .tstrI cs => cs.length + 2
  | .tag _ _ e => efuel e + 1
  | .arr _ es => efuelL es + 1
  | .map _ kvs => efuelP kvs + 1
  | _ => 1
def efuelL : List E → Nat
  | [] => 1
  | e :: es => efuel e + efuelL es + 1
def efuelP : List (E × E) → Nat
  | [] => 1
  | (k, v) :: kvs => efuel k + efuel v + efuelP kvs + 1
end

/-- the chunks of an indefinite-length string, up to and including the break. -/
theorem chunks_encoded (isText : Bool) (m : Nat) (hm : m = if isText then 3 else 2) :
    ∀ (cs : Chunks) (fuel : Nat) (acc s : Bytes), cs.length + 1 ≤ fuel → chunksFit cs → (isText = true → chunksUtf8 cs) →
      chunks fuel isText 1 (chunkBytes m cs ++ 0xff :: s) acc = .ok (acc ++ chunkContent cs, s) := by
  intro cs
  induction cs with
  | nil =>
    intro fuel acc s hf _ _
    obtain ⟨f, rfl⟩ : ∃ f, fuel = f + 1 := ⟨fuel - 1, by simp at hf; omega⟩
    simp [chunkBytes, chunkContent, chunks, pull_break]
  | cons c cs ih =>
    obtain ⟨w, b⟩ := c
    intro fuel acc s hf hfit hutf
    obtain ⟨f, rfl⟩ : ∃ f, fuel = f + 1 := ⟨fuel - 1, by simp at hf; omega⟩
    simp only [chunksFit] at hfit
    simp only [chunkBytes, chunkContent, List.append_assoc]
    rw [chunks, pull_headW m w b.length (by cases isText <;> simp [hm]) hfit.1]
    have hnl : ¬ (b ++ (chunkBytes m cs ++ 0xff :: s)).length < b.length := by simp
    cases isText with
    | false =>
      simp only [Bool.false_eq_true, if_false] at hm; subst hm
      simp only [hdOf, Bool.false_eq_true, if_false, hnl, List.take_left', List.drop_left']
      rw [ih f (acc ++ b) s (by simp at hf ⊢; omega) hfit.2 (by simp)]
      simp
    | true =>
      simp only [if_true] at hm; subst hm
      have hu := hutf rfl; simp only [chunksUtf8] at hu
      simp only [hdOf, Bool.not_true, Bool.false_eq_true, if_false, hnl, List.take_left', List.drop_left', hu.1]
      rw [ih f (acc ++ b) s (by simp at hf ⊢; omega) hfit.2 (fun _ => hu.2)]
      simp

theorem shortBignum_iff (t : Nat) (v : Value) : ShortBignum t v ↔ SmallBignum t v := Iff.rfl

/-- the first byte of any item's encoding is not the break byte (so an indefinite-length container reads on). -/
theorem bytes_head_ne_ff (e : E) (hw : e.wf) (s : Bytes) : (E.bytes e ++ s).head? ≠ some 0xff := by
  cases e with
  | pos w n => exact headW_head_ne_ff 0 w n (by omega) hw s
  | neg w n => exact headW_head_ne_ff 1 w n (by omega) hw s
  | big ng wt wb b =>
    simp only [E.wf] at hw
    simp only [E.bytes, List.append_assoc]
    exact headW_head_ne_ff 6 wt _ (by omega) hw.1 _
  | bstr w b => simp only [E.bytes, List.append_assoc]; exact headW_head_ne_ff 2 w _ (by omega) hw _
  | bstrI cs => simp [E.bytes]
  | tstr w b => simp only [E.wf] at hw; simp only [E.bytes, List.append_assoc]; exact headW_head_ne_ff 3 w _ (by omega) hw.1 _
  | tstrI cs => simp [E.bytes]
  | f16 n => simp [E.bytes]
  | f32 n => simp [E.bytes]
  | f64 n => simp [E.bytes]
  | simple two n =>
    simp only [E.wf] at hw
    cases two
    · simp only [E.bytes, Bool.false_eq_true, if_false]
      intro h
      simp at h
      have := congrArg UInt8.toNat h
      simp [UInt8.toNat_ofNat'] at this
      omega
    · simp [E.bytes]
  | tag w t e => simp only [E.wf] at hw; simp only [E.bytes, List.append_assoc]; exact headW_head_ne_ff 6 w _ (by omega) hw.1 _
  | arr w es =>
    simp only [E.wf] at hw
    cases w with
    | none => simp [E.bytes]
    | some w' => simp only [E.bytes, List.append_assoc]; exact headW_head_ne_ff 4 w' _ (by omega) (hw.1 w' rfl) _
  | map w kvs =>
    simp only [E.wf] at hw
    cases w with
    | none => simp [E.bytes]
    | some w' => simp only [E.bytes, List.append_assoc]; exact headW_head_ne_ff 5 w' _ (by omega) (hw.1 w' rfl) _


theorem pull_5f (rest : Bytes) : pull (0x5f :: rest) = some (.bytes none, rest) := by rfl
theorem pull_7f (rest : Bytes) : pull (0x7f :: rest) = some (.text none, rest) := by rfl
theorem pull_9f (rest : Bytes) : pull (0x9f :: rest) = some (.array none, rest) := by rfl
theorem pull_bf (rest : Bytes) : pull (0xbf :: rest) = some (.map none, rest) := by rfl

theorem simple_byte (n : Nat) (h : 20 ≤ n ∧ n ≤ 23) : (UInt8.ofNat (224 + n)).toNat / 32 = 7 ∧ (UInt8.ofNat (224 + n)).toNat % 32 = n := by
  have : (UInt8.ofNat (224 + n)).toNat = 224 + n := by simp [UInt8.toNat_ofNat']; omega
  rw [this]; omega

theorem pull_simple2 (n : Nat) (hn : n < 256) (rest : Bytes) : pull (0xf8 :: UInt8.ofNat n :: rest) = some (.simple n, rest) := by
  have : pullArg 24 (UInt8.ofNat n :: rest) = some (some (n, 1), rest) := by
    have := pullArg_wide 24 1 n (by simp) (by omega) rest
    simpa [beN] using this
  simp [pull, this]

/-- the head in front of an item's encoding is a definite byte-string head only for a definite byte string. -/
theorem pull_bytes_head (e : E) (hw : e.wf) (s : Bytes) :
    ∃ hd r, pull (E.bytes e ++ s) = some (hd, r) ∧ ∀ len, hd = .bytes (some len) → ∃ b, E.value e = .bytes b ∧ len = b.length := by
  cases e with
  | pos w n => exact ⟨_, _, pull_headW 0 w n (by omega) hw s, by simp [hdOf]⟩
  | neg w n => exact ⟨_, _, pull_headW 1 w n (by omega) hw s, by simp [hdOf]⟩
  | big ng wt wb b =>
    simp only [E.wf] at hw
    refine ⟨_, _, by simp only [E.bytes, List.append_assoc]; exact pull_headW 6 wt _ (by omega) hw.1 _, by simp [hdOf]⟩
  | bstr w b =>
    refine ⟨_, _, by simp only [E.bytes, List.append_assoc]; exact pull_headW 2 w _ (by omega) hw _, ?_⟩
    intro len h; simp [hdOf] at h; exact ⟨b, rfl, h.symm⟩
  | bstrI cs => exact ⟨_, _, by simp only [E.bytes, List.cons_append]; exact pull_5f _, by simp⟩
  | tstr w b =>
    simp only [E.wf] at hw
    exact ⟨_, _, by simp only [E.bytes, List.append_assoc]; exact pull_headW 3 w _ (by omega) hw.1 _, by simp [hdOf]⟩
  | tstrI cs => exact ⟨_, _, by simp only [E.bytes, List.cons_append]; exact pull_7f _, by simp⟩
  | f16 n =>
    simp only [E.wf] at hw
    exact ⟨_, _, by simp only [E.bytes, List.cons_append]; exact pull_float _ 25 2 n (by decide) (by decide) (by simp) (by omega) _, by simp⟩
  | f32 n =>
    simp only [E.wf] at hw
    exact ⟨_, _, by simp only [E.bytes, List.cons_append]; exact pull_float _ 26 4 n (by decide) (by decide) (by simp) (by omega) _, by simp⟩
  | f64 n =>
    simp only [E.wf] at hw
    exact ⟨_, _, by simp only [E.bytes, List.cons_append]; exact pull_float _ 27 8 n (by decide) (by decide) (by simp) (by omega) _, by simp⟩
  | simple two n =>
    simp only [E.wf] at hw
    cases two
    · refine ⟨.simple n, s, ?_, by simp⟩
      simp only [E.bytes, Bool.false_eq_true, if_false, List.singleton_append]
      exact pull_simple _ n (simple_byte n hw).1 (simple_byte n hw).2 (by omega) s
    · exact ⟨_, _, by simp only [E.bytes, if_true, List.cons_append, List.nil_append]; exact pull_simple2 n (by omega) s, by simp⟩
  | tag w t e =>
    simp only [E.wf] at hw
    exact ⟨_, _, by simp only [E.bytes, List.append_assoc]; exact pull_headW 6 w _ (by omega) hw.1 _, by simp [hdOf]⟩
  | arr w es =>
    simp only [E.wf] at hw
    cases w with
    | none => exact ⟨_, _, by simp only [E.bytes, List.cons_append]; exact pull_9f _, by simp⟩
    | some w' => exact ⟨_, _, by simp only [E.bytes, List.append_assoc]; exact pull_headW 4 w' _ (by omega) (hw.1 w' rfl) _, by simp [hdOf]⟩
  | map w kvs =>
    simp only [E.wf] at hw
    cases w with
    | none => exact ⟨_, _, by simp only [E.bytes, List.cons_append]; exact pull_bf _, by simp⟩
    | some w' => exact ⟨_, _, by simp only [E.bytes, List.append_assoc]; exact pull_headW 5 w' _ (by omega) (hw.1 w' rfl) _, by simp [hdOf]⟩

theorem peek_none_of_not_short (e : E) (hw : e.wf) (s : Bytes) (hnb : ¬ ∃ b, E.value e = .bytes b ∧ b.length ≤ 16) :
    smallBytesPeek (E.bytes e ++ s) = none := by
  obtain ⟨hd, r, h, hk⟩ := pull_bytes_head e hw s
  rw [smallBytesPeek, h]
  cases hd with
  | bytes len =>
    cases len with
    | none => rfl
    | some len =>
      obtain ⟨b, hb, hl⟩ := hk len rfl
      have : ¬ len ≤ 16 := fun hle => hnb ⟨b, hb, by omega⟩
      simp [this]
  | _ => rfl

theorem valueL_length (es : List E) : (E.valueL es).length = es.length := by
  induction es with
  | nil => rfl
  | cons e es ih => simp [E.valueL, ih]
theorem valueP_length (kvs : List (E × E)) : (E.valueP kvs).length = kvs.length := by
  induction kvs with
  | nil => rfl
  | cons kv kvs ih => obtain ⟨k, v⟩ := kv; simp [E.valueP, ih]

/-- L2, for all mutually recursive layers at once. -/
theorem parse_encoding_aux : ∀ fuel,
    (∀ e d s, E.wf e → depthOf (E.value e) ≤ d → efuel e ≤ fuel → parse fuel d (E.bytes e ++ s) = .ok (E.value e, s)) ∧
    (∀ es d s, E.wfL es → depthOfL (E.valueL es) ≤ d → efuelL es ≤ fuel →
      parseN fuel d es.length (E.bytesL es ++ s) = .ok (E.valueL es, s)) ∧
    (∀ es d s, E.wfL es → depthOfL (E.valueL es) ≤ d → efuelL es ≤ fuel →
      parseIndef fuel d (E.bytesL es ++ 0xff :: s) = .ok (E.valueL es, s)) ∧
    (∀ kvs d s, E.wfP kvs → depthOfP (E.valueP kvs) ≤ d → efuelP kvs ≤ fuel →
      parsePairsN fuel d kvs.length (E.bytesP kvs ++ s) = .ok (E.valueP kvs, s)) ∧
    (∀ kvs d s, E.wfP kvs → depthOfP (E.valueP kvs) ≤ d → efuelP kvs ≤ fuel →
      parsePairsIndef fuel d (E.bytesP kvs ++ 0xff :: s) = .ok (E.valueP kvs, s)) := by
  intro fuel
  induction fuel with
  | zero =>
    refine ⟨?_, ?_, ?_, ?_, ?_⟩
    · intro e d s _ _ h; cases e <;> simp [efuel] at h
    · intro es d s _ _ h; cases es <;> simp [efuelL] at h
    · intro es d s _ _ h; cases es <;> simp [efuelL] at h
    · intro kvs d s _ _ h; cases kvs <;> simp [efuelP] at h
    · intro kvs d s _ _ h; cases kvs <;> simp [efuelP] at h
  | succ fuel ih =>
    obtain ⟨ihv, ihn, ihi, ihpn, ihpi⟩ := ih
    refine ⟨?_, ?_, ?_, ?_, ?_⟩
    · intro e d s hw hd hs
      cases e with
      | pos w n =>
        simp only [E.wf] at hw
        simp only [E.bytes, E.value]
        rw [parse, pull_headW 0 w n (by omega) hw]
        simp [hdOf]
      | neg w n =>
        simp only [E.wf] at hw
        simp only [E.bytes, E.value]
        rw [parse, pull_headW 1 w n (by omega) hw]
        simp [hdOf]
      | big ng wt wb b =>
        simp only [E.wf] at hw
        obtain ⟨h1, h2, h3, h4⟩ := hw
        simp only [E.bytes, List.append_assoc]
        rw [parse, pull_headW 6 wt _ (by omega) h1]
        have hpk : smallBytesPeek (headW 2 wb b.length ++ (b ++ s)) = some (b.length, b ++ s) := by
          rw [smallBytesPeek, pull_headW 2 wb _ (by omega) h2]; simp [hdOf, h3]
        have hnl : ¬ (b ++ s).length < b.length := by simp
        cases ng with
        | false =>
          simp only [hdOf, Bool.false_eq_true, if_false, true_or, if_true, hpk, hnl, List.take_left', List.drop_left', E.value]
        | true =>
          have h127 := h4 rfl
          cases hf : fromNegU128 (beVal b) with
          | none =>
            exfalso
            unfold fromNegU128 at hf
            split at hf
            · omega
            · split at hf <;> simp at hf
          | some v =>
            simp only [hdOf, if_true, or_true, hpk, hnl, if_false, List.take_left', List.drop_left', E.value, hf, Option.getD_some]
            simp
      | bstr w b =>
        simp only [E.wf] at hw
        simp only [E.bytes, E.value, List.append_assoc]
        rw [parse, pull_headW 2 w _ (by omega) hw]
        simp [hdOf]
      | bstrI cs =>
        simp only [E.wf] at hw
        simp only [efuel] at hs
        simp only [E.bytes, E.value, List.cons_append, List.append_assoc, List.singleton_append, List.nil_append]
        rw [parse, pull_5f]
        simp only []
        rw [chunks_encoded false 2 rfl cs fuel [] s (by omega) hw (by simp)]
        simp
      | tstr w b =>
        simp only [E.wf] at hw
        simp only [E.bytes, E.value, List.append_assoc]
        rw [parse, pull_headW 3 w _ (by omega) hw.1]
        simp [hdOf, hw.2]
      | tstrI cs =>
        simp only [E.wf] at hw
        simp only [efuel] at hs
        simp only [E.bytes, E.value, List.cons_append, List.append_assoc, List.singleton_append, List.nil_append]
        rw [parse, pull_7f]
        simp only []
        rw [chunks_encoded true 3 rfl cs fuel [] s (by omega) hw.1 (fun _ => hw.2)]
        simp
      | f16 n =>
        simp only [E.wf] at hw
        simp only [E.bytes, E.value, List.cons_append]
        rw [parse, pull_float _ 25 2 n (by decide) (by decide) (by simp) (by omega)]
        simp
      | f32 n =>
        simp only [E.wf] at hw
        simp only [E.bytes, E.value, List.cons_append]
        rw [parse, pull_float _ 26 4 n (by decide) (by decide) (by simp) (by omega)]
        simp
      | f64 n =>
        simp only [E.wf] at hw
        simp only [E.bytes, E.value, List.cons_append]
        rw [parse, pull_float _ 27 8 n (by decide) (by decide) (by simp) (by omega)]
        simp
      | simple two n =>
        simp only [E.wf] at hw
        have hcases : n = 20 ∨ n = 21 ∨ n = 22 ∨ n = 23 := by omega
        cases two
        · simp only [E.bytes, E.value, Bool.false_eq_true, if_false, List.singleton_append]
          rw [parse, pull_simple _ n (simple_byte n hw).1 (simple_byte n hw).2 (by omega)]
          rcases hcases with h | h | h | h <;> subst h <;> simp [simpleValue]
        · simp only [E.bytes, E.value, if_true, List.cons_append, List.nil_append]
          rw [parse, pull_simple2 n (by omega)]
          rcases hcases with h | h | h | h <;> subst h <;> simp [simpleValue]
      | tag w t e =>
        simp only [E.wf] at hw
        obtain ⟨hwt, hwe, hns⟩ := hw
        simp only [efuel] at hs
        simp only [E.value] at hd ⊢
        rw [depthOf_tag_of_not_small t _ (fun h => hns ((shortBignum_iff t _).mpr h))] at hd
        simp only [E.bytes, List.append_assoc]
        rw [parse, pull_headW 6 w _ (by omega) hwt]
        simp only [hdOf]
        have hd0 : d ≠ 0 := by omega
        have ih := ihv e (d - 1) s hwe (by omega) (by omega)
        by_cases h23 : t = 2 ∨ t = 3
        · have hp := peek_none_of_not_short e hwe s (fun hb => hns ⟨h23, hb⟩)
          simp [h23, hp, hd0, ih]
        · simp [h23, hd0, ih]
      | arr w es =>
        simp only [E.wf] at hw
        simp only [efuel] at hs
        simp only [E.value, depthOf] at hd ⊢
        have hd0 : d ≠ 0 := by omega
        cases w with
        | some w' =>
          simp only [E.bytes, List.append_assoc]
          rw [parse, pull_headW 4 w' _ (by omega) (hw.1 w' rfl)]
          simp only [hdOf, hd0, if_false]
          rw [ihn es (d - 1) s hw.2 (by omega) (by omega)]
        | none =>
          simp only [E.bytes, List.cons_append, List.append_assoc, List.singleton_append, List.nil_append]
          rw [parse, pull_9f]
          simp only [hd0, if_false]
          rw [ihi es (d - 1) s hw.2 (by omega) (by omega)]
      | map w kvs =>
        simp only [E.wf] at hw
        simp only [efuel] at hs
        simp only [E.value, depthOf] at hd ⊢
        have hd0 : d ≠ 0 := by omega
        cases w with
        | some w' =>
          simp only [E.bytes, List.append_assoc]
          rw [parse, pull_headW 5 w' _ (by omega) (hw.1 w' rfl)]
          simp only [hdOf, hd0, if_false]
          rw [ihpn kvs (d - 1) s hw.2 (by omega) (by omega)]
        | none =>
          simp only [E.bytes, List.cons_append, List.append_assoc, List.singleton_append, List.nil_append]
          rw [parse, pull_bf]
          simp only [hd0, if_false]
          rw [ihpi kvs (d - 1) s hw.2 (by omega) (by omega)]
    · intro es d s hw hd hs
      cases es with
      | nil => simp [parseN, E.bytesL, E.valueL]
      | cons e es =>
        simp only [E.wfL] at hw
        simp only [E.valueL, depthOfL] at hd
        simp only [efuelL] at hs
        simp only [E.bytesL, E.valueL, List.append_assoc, List.length_cons]
        rw [parseN]
        simp [ihv e d _ hw.1 (by omega) (by omega), ihn es d s hw.2 (by omega) (by omega)]
    · intro es d s hw hd hs
      cases es with
      | nil => simp [parseIndef, E.bytesL, E.valueL]
      | cons e es =>
        simp only [E.wfL] at hw
        simp only [E.valueL, depthOfL] at hd
        simp only [efuelL] at hs
        simp only [E.bytesL, E.valueL, List.append_assoc]
        have hne := bytes_head_ne_ff e hw.1 (E.bytesL es ++ 0xff :: s)
        rw [parseIndef, if_neg hne]
        simp [ihv e d _ hw.1 (by omega) (by omega), ihi es d s hw.2 (by omega) (by omega)]
    · intro kvs d s hw hd hs
      cases kvs with
      | nil => simp [parsePairsN, E.bytesP, E.valueP]
      | cons kv kvs =>
        obtain ⟨k, v⟩ := kv
        simp only [E.wfP] at hw
        simp only [E.valueP, depthOfP] at hd
        simp only [efuelP] at hs
        simp only [E.bytesP, E.valueP, List.append_assoc, List.length_cons]
        rw [parsePairsN]
        simp [ihv k d _ hw.1 (by omega) (by omega), ihv v d _ hw.2.1 (by omega) (by omega), ihpn kvs d s hw.2.2 (by omega) (by omega)]
    · intro kvs d s hw hd hs
      cases kvs with
      | nil => simp [parsePairsIndef, E.bytesP, E.valueP]
      | cons kv kvs =>
        obtain ⟨k, v⟩ := kv
        simp only [E.wfP] at hw
        simp only [E.valueP, depthOfP] at hd
        simp only [efuelP] at hs
        simp only [E.bytesP, E.valueP, List.append_assoc]
        have hne := bytes_head_ne_ff k hw.1 (E.bytes v ++ (E.bytesP kvs ++ 0xff :: s))
        rw [parsePairsIndef, if_neg hne]
        simp [ihv k d _ hw.1 (by omega) (by omega), ihv v d _ hw.2.1 (by omega) (by omega), ihpi kvs d s hw.2.2 (by omega) (by omega)]


/-! ### at the entry point -/

theorem headW_length_pos (m : Nat) (w : W) (n : Nat) : 0 < (headW m w n).length := by cases w <;> simp [headW]

theorem chunkBytes_length (m : Nat) (cs : Chunks) : cs.length ≤ (chunkBytes m cs).length := by
  induction cs with
  | nil => simp [chunkBytes]
  | cons c cs ih =>
    obtain ⟨w, b⟩ := c
    have := headW_length_pos m w b.length
    simp only [chunkBytes, List.length_cons, List.length_append]; omega

mutual
theorem efuel_le (e : E) : efuel e + 1 ≤ 3 * (E.bytes e).length := by
  cases e with
  | pos w n => have := headW_length_pos 0 w n; simp only [efuel, E.bytes]; omega
  | neg w n => have := headW_length_pos 1 w n; simp only [efuel, E.bytes]; omega
  | big ng wt wb b => have := headW_length_pos 6 wt (if ng then 3 else 2); simp only [efuel, E.bytes, List.length_append]; omega
  | bstr w b => have := headW_length_pos 2 w b.length; simp only [efuel, E.bytes, List.length_append]; omega
  | bstrI cs => have := chunkBytes_length 2 cs; simp only [efuel, E.bytes, List.length_cons, List.length_append, List.length_nil]; omega
  | tstr w b => have := headW_length_pos 3 w b.length; simp only [efuel, E.bytes, List.length_append]; omega
  | tstrI cs => have := chunkBytes_length 3 cs; simp only [efuel, E.bytes, List.length_cons, List.length_append, List.length_nil]; omega
  | f16 n => simp [efuel, E.bytes]
  | f32 n => simp [efuel, E.bytes]
  | f64 n => simp [efuel, E.bytes]
  | simple two n => cases two <;> simp [efuel, E.bytes]
  | tag w t e => have := headW_length_pos 6 w t; have := efuel_le e; simp only [efuel, E.bytes, List.length_append]; omega
  | arr w es =>
    have := efuelL_le es
    cases w with
    | some w' => have := headW_length_pos 4 w' es.length; simp only [efuel, E.bytes, List.length_append]; omega
    | none => simp only [efuel, E.bytes, List.length_cons, List.length_append, List.length_nil]; omega
  | map w kvs =>
    have := efuelP_le kvs
    cases w with
    | some w' => have := headW_length_pos 5 w' kvs.length; simp only [efuel, E.bytes, List.length_append]; omega
    | none => simp only [efuel, E.bytes, List.length_cons, List.length_append, List.length_nil]; omega
theorem efuelL_le (es : List E) : efuelL es ≤ 3 * (E.bytesL es).length + 1 := by
  cases es with
  | nil => simp [efuelL, E.bytesL]
  | cons e es => have := efuel_le e; have := efuelL_le es; simp only [efuelL, E.bytesL, List.length_append]; omega
theorem efuelP_le (kvs : List (E × E)) : efuelP kvs ≤ 3 * (E.bytesP kvs).length + 1 := by
  cases kvs with
  | nil => simp [efuelP, E.bytesP]
  | cons kv kvs =>
    obtain ⟨k, v⟩ := kv
    have := efuel_le k; have := efuel_le v; have := efuelP_le kvs
    simp only [efuelP, E.bytesP, List.length_append]; omega
end

theorem efuel_pos (e : E) : 0 < efuel e := by cases e <;> simp [efuel]

theorem bytes_ne_nil (e : E) : E.bytes e ≠ [] := by
  intro h
  have h1 := efuel_le e; have h2 := efuel_pos e
  rw [h] at h1; simp only [List.length_nil] at h1; omega

/-- L2: one item, with anything after it. -/
theorem parse_encoding (e : E) (fuel d : Nat) (s : Bytes) (hw : e.wf) (hd : depthOf e.value ≤ d) (hf : efuel e ≤ fuel) :
    parse fuel d (E.bytes e ++ s) = .ok (e.value, s) := (parse_encoding_aux fuel).1 e d s hw hd hf

end Coset.Cbor

namespace Coset
open Cbor Spec

/-- L2 at the API: `read_to_value` reads any well-formed encoding of a value within the recursion budget as that value. -/
theorem readToValue_encoding (e : E) (hw : e.wf) (hd : depthOf e.value ≤ recursionLimit) : readToValue e.bytes = .ok e.value := by
  have h := parse_encoding e (fuelFor e.bytes) recursionLimit [] hw hd (by have := efuel_le e; unfold fuelFor; omega)
  simp only [List.append_nil] at h
  simp [readToValue, fromReader, h]

theorem readToValue_of_encodes (v : Value) (b : Bytes) (h : Encodes v b) (hd : depthOf v ≤ recursionLimit) : readToValue b = .ok v := by
  obtain ⟨e, hw, rfl, rfl⟩ := h
  exact readToValue_encoding e hw hd

/-- two encodings of the same value are indistinguishable to anything that goes through `read_to_value`. -/
theorem readToValue_encoding_independent (v : Value) (b₁ b₂ : Bytes) (h₁ : Encodes v b₁) (h₂ : Encodes v b₂) (hd : depthOf v ≤ recursionLimit) :
    readToValue b₁ = readToValue b₂ := by
  rw [readToValue_of_encodes v b₁ h₁ hd, readToValue_of_encodes v b₂ h₂ hd]

/-- every byte-level decoder (`from_slice` of any type): the outcome depends only on the data-model value, not on how it was encoded. -/
theorem fromSlice_encoding_independent {α : Type} (conv : Value → Res α) (v : Value) (b₁ b₂ : Bytes) (h₁ : Encodes v b₁) (h₂ : Encodes v b₂)
    (hd : depthOf v ≤ recursionLimit) : fromSlice conv b₁ = fromSlice conv b₂ := by
  simp only [fromSlice, readToValue_encoding_independent v b₁ b₂ h₁ h₂ hd]

theorem fromSlice_of_encodes {α : Type} (conv : Value → Res α) (v : Value) (b : Bytes) (h : Encodes v b) (hd : depthOf v ≤ recursionLimit) :
    fromSlice conv b = conv v := by
  simp only [fromSlice, readToValue_of_encodes v b h hd]


/-! ### the deterministic encoding is one of the well-formed encodings -/

/-- the shortest width that fits. -/
def minW (n : Nat) : W :=
  if n < 24 then .w0 else if n < 256 then .w1 else if n < 65536 then .w2 else if n < 4294967296 then .w4 else .w8

theorem headW_minW (m n : Nat) : headW m (minW n) n = encHead m n := by
  unfold minW encHead
  split
  · rfl
  · split
    · rfl
    · split
      · rfl
      · split <;> rfl

theorem minW_fits (n : Nat) (h : n < 2 ^ 64) : (minW n).fits n := by
  unfold minW
  split
  · simpa [W.fits]
  · split
    · simpa [W.fits]
    · split
      · simpa [W.fits]
      · split
        · simpa [W.fits]
        · simp only [W.fits]; omega

mutual
/-- the choice of encoding ciborium's serializer makes. -/
def ofValue : Value → E
  | .int n => if 0 ≤ n then .pos (minW n.toNat) n.toNat else .neg (minW (-1 - n).toNat) (-1 - n).toNat
  | .bytes b => .bstr (minW b.length) b
  | .text b => .tstr (minW b.length) b
  | .float bits =>
    if Float.f16to64 (Float.f64to16 bits.toNat % 65536) = bits.toNat then .f16 (Float.f64to16 bits.toNat % 65536)
    else if Float.f32to64 (Float.f64to32 bits.toNat % 4294967296) = bits.toNat then .f32 (Float.f64to32 bits.toNat % 4294967296)
    else .f64 bits.toNat
  | .bool b => .simple false (if b then 21 else 20)
  | .null => .simple false 22
  | .tag t v =>
    match v with
    | .bytes b =>
      if (t = 2 ∨ t = 3) ∧ b.length ≤ 16 then (if t = 3 then .big true .w0 (minW b.length) b else .big false .w0 (minW b.length) b)
      else .tag (minW t) t (.bstr (minW b.length) b)
    | w => .tag (minW t) t (ofValue w)
  | .array xs => .arr (some (minW xs.length)) (ofValueL xs)
  | .map kvs => .map (some (minW kvs.length)) (ofValueP kvs)
def ofValueL : List Value → List E
  | [] => []
  | x :: xs => ofValue x :: ofValueL xs
def ofValueP : List (Value × Value) → List (E × E)
  | [] => []
  | (k, v) :: kvs => (ofValue k, ofValue v) :: ofValueP kvs
end

theorem ofValueL_length (xs : List Value) : (ofValueL xs).length = xs.length := by
  induction xs with
  | nil => rfl
  | cons x xs ih => simp [ofValueL, ih]
theorem ofValueP_length (kvs : List (Value × Value)) : (ofValueP kvs).length = kvs.length := by
  induction kvs with
  | nil => rfl
  | cons kv kvs ih => obtain ⟨k, v⟩ := kv; simp [ofValueP, ih]

theorem ofValue_tag (t : Nat) (w : Value) (h : ∀ b, w ≠ .bytes b) : ofValue (.tag t w) = .tag (minW t) t (ofValue w) := by
  cases w with
  | bytes b => exact absurd rfl (h b)
  | _ => first | (rw [ofValue]; intro b hb; cases hb) | simp only [ofValue]

mutual
theorem ofValue_spec (v : Value) (hn : Normal v) : (ofValue v).wf ∧ (ofValue v).value = v ∧ (ofValue v).bytes = enc v := by
  cases v with
  | int n =>
    simp only [Normal] at hn
    simp only [ofValue, enc]
    split
    · next h =>
      refine ⟨minW_fits _ (by omega), ?_, headW_minW 0 _⟩
      simp only [E.value]; rw [Int.toNat_of_nonneg h]
    · next h =>
      refine ⟨minW_fits _ (by omega), ?_, headW_minW 1 _⟩
      simp only [E.value]; rw [Int.toNat_of_nonneg (by omega)]; congr 1; omega
  | bytes b =>
    simp only [Normal] at hn
    exact ⟨minW_fits _ hn, rfl, by simp only [ofValue, E.bytes, enc, headW_minW]⟩
  | text b =>
    simp only [Normal] at hn
    exact ⟨⟨minW_fits _ hn.1, hn.2⟩, rfl, by simp only [ofValue, E.bytes, enc, headW_minW]⟩
  | float bits =>
    have hb := bits.toNat_lt
    simp only [ofValue, enc, encFloat]
    split
    · next h => exact ⟨by simp only [E.wf]; omega, by simp [E.value, h], rfl⟩
    · split
      · next h => exact ⟨by simp only [E.wf]; omega, by simp [E.value, h], rfl⟩
      · exact ⟨by simp only [E.wf]; omega, by simp [E.value], rfl⟩
  | bool b => cases b <;> exact ⟨by simp [ofValue, E.wf], by simp [ofValue, E.value, simpleValue], by simp [ofValue, E.bytes, enc]⟩
  | null => exact ⟨by simp [ofValue, E.wf], by simp [ofValue, E.value, simpleValue], by simp [ofValue, E.bytes, enc]⟩
  | tag t w =>
    simp only [Normal] at hn
    obtain ⟨ht, hsb, hw⟩ := hn
    by_cases hb : ∃ b, w = .bytes b
    · obtain ⟨b, rfl⟩ := hb
      simp only [Normal] at hw
      simp only [ofValue]
      split
      · next hc =>
        -- the canonical big form
        obtain ⟨raw, h64, h2, h3, hb⟩ := hsb ⟨hc.1, b, rfl, hc.2⟩
        have hbe : b = minBytes raw := by injection hb
        subst hbe
        have h128 : raw < 2 ^ 128 := by
          rcases hc.1 with h | h
          · exact h2 h
          · have := h3 h; omega
        have hbv : beVal (minBytes raw) = raw := beVal_minBytes raw h128
        have e2 : headW 6 W.w0 2 = encHead 6 2 := by rfl
        have e3 : headW 6 W.w0 3 = encHead 6 3 := by rfl
        rcases hc.1 with h | h
        · subst h
          rw [if_neg (by decide)]
          refine ⟨?_, ?_, ?_⟩
          · simp only [E.wf]; exact ⟨by simp [W.fits], minW_fits _ hw, hc.2, by simp⟩
          · simp only [E.value, hbv, fromU128, show ¬ raw < 2 ^ 64 by omega, if_false]
          · simp only [E.bytes, enc, Bool.false_eq_true, if_false, e2, headW_minW, List.append_assoc]
        · subst h
          have := h3 rfl
          rw [if_pos rfl]
          refine ⟨?_, ?_, ?_⟩
          · simp only [E.wf]; exact ⟨by simp [W.fits], minW_fits _ hw, hc.2, by intro _; omega⟩
          · simp only [E.value, hbv, fromNegU128, show ¬ raw ≥ 2 ^ 127 by omega, show ¬ raw < 2 ^ 64 by omega, if_false, Option.getD_some]
          · simp only [E.bytes, enc, if_true, e3, headW_minW, List.append_assoc]
      · next hc =>
        refine ⟨?_, rfl, by simp only [E.bytes, enc, headW_minW, List.append_assoc]⟩
        simp only [E.wf, E.value]
        refine ⟨minW_fits _ ht, minW_fits _ hw, ?_⟩
        intro ⟨h23, b', hb', hl⟩
        injection hb' with hb'; subst hb'
        exact hc ⟨h23, hl⟩
    · have hnb : ∀ b, w ≠ .bytes b := fun b h => hb ⟨b, h⟩
      rw [ofValue_tag t w hnb]
      obtain ⟨h1, h2, h3⟩ := ofValue_spec w hw
      refine ⟨?_, by simp only [E.value, h2], by simp only [E.bytes, enc, headW_minW, h3]⟩
      simp only [E.wf]
      exact ⟨minW_fits _ ht, h1, by rw [h2]; intro ⟨_, b, hb', _⟩; exact hnb b hb'⟩
  | array xs =>
    simp only [Normal] at hn
    obtain ⟨h1, h2, h3⟩ := ofValueL_spec xs hn.2
    refine ⟨?_, by simp only [ofValue, E.value, h2], by simp only [ofValue, E.bytes, enc, ofValueL_length, headW_minW, h3]⟩
    simp only [ofValue, E.wf]
    exact ⟨by intro w' hw'; injection hw' with hw'; subst hw'; rw [ofValueL_length]; exact minW_fits _ hn.1, h1⟩
  | map kvs =>
    simp only [Normal] at hn
    obtain ⟨h1, h2, h3⟩ := ofValueP_spec kvs hn.2
    refine ⟨?_, by simp only [ofValue, E.value, h2], by simp only [ofValue, E.bytes, enc, ofValueP_length, headW_minW, h3]⟩
    simp only [ofValue, E.wf]
    exact ⟨by intro w' hw'; injection hw' with hw'; subst hw'; rw [ofValueP_length]; exact minW_fits _ hn.1, h1⟩
theorem ofValueL_spec (xs : List Value) (hn : NormalL xs) : E.wfL (ofValueL xs) ∧ E.valueL (ofValueL xs) = xs ∧ E.bytesL (ofValueL xs) = encList xs := by
  cases xs with
  | nil => exact ⟨trivial, rfl, rfl⟩
  | cons x xs =>
    simp only [NormalL] at hn
    obtain ⟨a1, a2, a3⟩ := ofValue_spec x hn.1
    obtain ⟨b1, b2, b3⟩ := ofValueL_spec xs hn.2
    exact ⟨⟨a1, b1⟩, by simp only [ofValueL, E.valueL, a2, b2], by simp only [ofValueL, E.bytesL, encList, a3, b3]⟩
theorem ofValueP_spec (kvs : List (Value × Value)) (hn : NormalP kvs) :
    E.wfP (ofValueP kvs) ∧ E.valueP (ofValueP kvs) = kvs ∧ E.bytesP (ofValueP kvs) = encPairs kvs := by
  cases kvs with
  | nil => exact ⟨trivial, rfl, rfl⟩
  | cons kv kvs =>
    obtain ⟨k, v⟩ := kv
    simp only [NormalP] at hn
    obtain ⟨a1, a2, a3⟩ := ofValue_spec k hn.1
    obtain ⟨c1, c2, c3⟩ := ofValue_spec v hn.2.1
    obtain ⟨b1, b2, b3⟩ := ofValueP_spec kvs hn.2.2
    exact ⟨⟨a1, c1, b1⟩, by simp only [ofValueP, E.valueP, a2, c2, b2], by simp only [ofValueP, E.bytesP, encPairs, a3, c3, b3]⟩
end

/-- ciborium's deterministic serialisation of a `Normal` value is one of its well-formed encodings. -/
theorem enc_encodes (v : Value) (hn : Normal v) : Encodes v (enc v) := by
  obtain ⟨h1, h2, h3⟩ := ofValue_spec v hn
  exact ⟨ofValue v, h1, h2, h3⟩

/-- so whatever encoding of `v` arrives, it is read exactly as the deterministic one would be. -/
theorem readToValue_as_deterministic (v : Value) (b : Bytes) (h : Encodes v b) (hn : Normal v) (hd : depthOf v ≤ recursionLimit) :
    readToValue b = readToValue (enc v) :=
  readToValue_encoding_independent v b (enc v) h (enc_encodes v hn) hd

end Coset
