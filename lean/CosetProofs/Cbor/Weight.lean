/-
  L6: the parser consumes at least one input byte per node and per string byte of what it returns
  (`size v + |rest| ≤ |input|`): nothing is allocated from a declared length, the result is never larger than the input.
  And: the fuel the entry point supplies is always enough — `parse` never answers "out of fuel" at `fuelFor`,
  so the fuel argument (there for Lean's termination checker only) is invisible at the API.
-/
import CosetProofs.Cbor.ParseAppend
namespace Coset.Cbor
open Coset

theorem pullArg_length (m : Nat) (rest0 rest : Bytes) (a : Option (Nat × Nat)) (h : pullArg m rest0 = some (a, rest)) :
    rest.length ≤ rest0.length := by
  unfold pullArg at h
  repeat' split at h
  all_goals first
    | (simp at h; obtain ⟨-, rfl⟩ := h; simp)
    | simp at h

theorem pull_length (bs rest : Bytes) (hd : Hd) (h : pull bs = some (hd, rest)) : rest.length + 1 ≤ bs.length := by
  cases bs with
  | nil => simp [pull] at h
  | cons b rest0 =>
    simp only [pull] at h
    cases ha : pullArg (b.toNat % 32) rest0 with
    | none => simp [ha] at h
    | some p =>
      obtain ⟨arg, r⟩ := p
      have hl := pullArg_length _ _ _ _ ha
      simp only [ha] at h
      have : rest = r := by
        repeat' split at h
        all_goals first
          | (simp at h; exact h.2.symm)
          | simp at h
      subst this
      simp only [List.length_cons]; omega

theorem size_fromU128 (bs : Bytes) : (fromU128 (beVal bs)).size ≤ bs.length + 2 := by
  unfold fromU128
  split
  · simp [Value.size]
  · have := minBytes_beVal_length bs
    simp only [Value.size]; omega

theorem size_fromNegU128 (bs : Bytes) (v : Value) (h : fromNegU128 (beVal bs) = some v) : v.size ≤ bs.length + 2 := by
  unfold fromNegU128 at h
  split at h
  · simp at h
  · split at h
    · simp at h; subst h; simp [Value.size]
    · simp at h; subst h
      have := minBytes_beVal_length bs
      simp only [Value.size]; omega

theorem smallBytesPeek_length (rest rest2 : Bytes) (len : Nat) (h : smallBytesPeek rest = some (len, rest2)) :
    rest2.length + 1 ≤ rest.length := by
  unfold smallBytesPeek at h
  split at h
  · next hp =>
    split at h
    · simp at h; obtain ⟨-, rfl⟩ := h; exact pull_length _ _ _ hp
    · simp at h
  · simp at h

/-- what the weight bound says of each parser function. -/
def WeightOK (fuel : Nat) : Prop :=
  (∀ d bs v r, parse fuel d bs = .ok (v, r) → v.size + r.length ≤ bs.length) ∧
  (∀ d n bs xs r, parseN fuel d n bs = .ok (xs, r) → Value.sizeL xs + r.length ≤ bs.length) ∧
  (∀ d bs xs r, parseIndef fuel d bs = .ok (xs, r) → Value.sizeL xs + r.length + 1 ≤ bs.length) ∧
  (∀ d n bs xs r, parsePairsN fuel d n bs = .ok (xs, r) → Value.sizeP xs + r.length ≤ bs.length) ∧
  (∀ d bs xs r, parsePairsIndef fuel d bs = .ok (xs, r) → Value.sizeP xs + r.length + 1 ≤ bs.length) ∧
  (∀ t k bs acc b r, chunks fuel t k bs acc = .ok (b, r) → b.length + r.length + 1 ≤ acc.length + bs.length)

theorem chunks_weight (fuel : Nat)
    (ih : ∀ t k bs acc b r, chunks fuel t k bs acc = .ok (b, r) → b.length + r.length + 1 ≤ acc.length + bs.length) :
    ∀ t k bs acc b r, chunks (fuel + 1) t k bs acc = .ok (b, r) → b.length + r.length + 1 ≤ acc.length + bs.length := by
  intro t k bs acc b r h
  rw [chunks] at h
  cases hp : pull bs with
  | none => simp [hp] at h
  | some p =>
    obtain ⟨hd, rest⟩ := p
    have hl := pull_length _ _ _ hp
    simp only [hp] at h
    cases hd with
    | brk =>
      simp only [] at h
      split at h
      · simp at h; obtain ⟨rfl, rfl⟩ := h; omega
      · have := ih _ _ _ _ _ _ h; omega
    | bytes len =>
      simp only [] at h
      split at h
      · simp at h
      · cases len with
        | none => have := ih _ _ _ _ _ _ h; omega
        | some n =>
          simp only [] at h
          split at h
          · simp at h
          · have := ih _ _ _ _ _ _ h
            simp only [List.length_append, List.length_take, List.length_drop] at this; omega
    | text len =>
      simp only [] at h
      split at h
      · simp at h
      · cases len with
        | none => have := ih _ _ _ _ _ _ h; omega
        | some n =>
          simp only [] at h
          split at h
          · simp at h
          · split at h
            · simp at h
            · have := ih _ _ _ _ _ _ h
              simp only [List.length_append, List.length_take, List.length_drop] at this; omega
    | _ => simp at h

theorem weightOK : ∀ fuel, WeightOK fuel := by
  intro fuel
  induction fuel with
  | zero =>
    refine ⟨?_, ?_, ?_, ?_, ?_, ?_⟩
    · intro d bs v r h; simp [parse] at h
    · intro d n bs xs r h; simp [parseN] at h
    · intro d bs xs r h; simp [parseIndef] at h
    · intro d n bs xs r h; simp [parsePairsN] at h
    · intro d bs xs r h; simp [parsePairsIndef] at h
    · intro t k bs acc b r h; simp [chunks] at h
  | succ fuel ih =>
    obtain ⟨ihv, ihn, ihi, ihpn, ihpi, ihc⟩ := ih
    refine ⟨?_, ?_, ?_, ?_, ?_, chunks_weight fuel ihc⟩
    · intro d bs v r h
      rw [parse] at h
      cases hp : pull bs with
      | none => simp [hp] at h
      | some p =>
        obtain ⟨hd, rest⟩ := p
        have hl := pull_length _ _ _ hp
        simp only [hp] at h
        cases hd with
        | pos n => simp at h; obtain ⟨rfl, rfl⟩ := h; simp [Value.size]; omega
        | neg n => simp at h; obtain ⟨rfl, rfl⟩ := h; simp [Value.size]; omega
        | bytes len =>
          cases len with
          | some n =>
            simp only [] at h
            split at h
            · simp at h
            · simp at h; obtain ⟨rfl, rfl⟩ := h
              simp only [Value.size, List.length_take, List.length_drop]; omega
          | none =>
            simp only [] at h
            cases hc : chunks fuel false 1 rest [] with
            | ok p =>
              obtain ⟨b, r'⟩ := p
              simp [hc] at h; obtain ⟨rfl, rfl⟩ := h
              have := ihc _ _ _ _ _ _ hc
              simp only [Value.size, List.length_nil] at this ⊢; omega
            | err => simp [hc] at h
            | oof => simp [hc] at h
        | text len =>
          cases len with
          | some n =>
            simp only [] at h
            split at h
            · simp at h
            · split at h
              · simp at h
              · simp at h; obtain ⟨rfl, rfl⟩ := h
                simp only [Value.size, List.length_take, List.length_drop]; omega
          | none =>
            simp only [] at h
            cases hc : chunks fuel true 1 rest [] with
            | ok p =>
              obtain ⟨b, r'⟩ := p
              simp [hc] at h; obtain ⟨rfl, rfl⟩ := h
              have := ihc _ _ _ _ _ _ hc
              simp only [Value.size, List.length_nil] at this ⊢; omega
            | err => simp [hc] at h
            | oof => simp [hc] at h
        | array len =>
          cases len with
          | some n =>
            simp only [] at h
            split at h
            · simp at h
            · cases hc : parseN fuel (d - 1) n rest with
              | ok p =>
                obtain ⟨xs, r'⟩ := p
                simp [hc] at h; obtain ⟨rfl, rfl⟩ := h
                have := ihn _ _ _ _ _ hc
                simp only [Value.size]; omega
              | err => simp [hc] at h
              | oof => simp [hc] at h
          | none =>
            simp only [] at h
            split at h
            · simp at h
            · cases hc : parseIndef fuel (d - 1) rest with
              | ok p =>
                obtain ⟨xs, r'⟩ := p
                simp [hc] at h; obtain ⟨rfl, rfl⟩ := h
                have := ihi _ _ _ _ hc
                simp only [Value.size]; omega
              | err => simp [hc] at h
              | oof => simp [hc] at h
        | map len =>
          cases len with
          | some n =>
            simp only [] at h
            split at h
            · simp at h
            · cases hc : parsePairsN fuel (d - 1) n rest with
              | ok p =>
                obtain ⟨xs, r'⟩ := p
                simp [hc] at h; obtain ⟨rfl, rfl⟩ := h
                have := ihpn _ _ _ _ _ hc
                simp only [Value.size]; omega
              | err => simp [hc] at h
              | oof => simp [hc] at h
          | none =>
            simp only [] at h
            split at h
            · simp at h
            · cases hc : parsePairsIndef fuel (d - 1) rest with
              | ok p =>
                obtain ⟨xs, r'⟩ := p
                simp [hc] at h; obtain ⟨rfl, rfl⟩ := h
                have := ihpi _ _ _ _ hc
                simp only [Value.size]; omega
              | err => simp [hc] at h
              | oof => simp [hc] at h
        | tag t =>
          simp only [] at h
          cases hpk : (if t = 2 ∨ t = 3 then smallBytesPeek rest else none) with
          | some p =>
            obtain ⟨len, rest2⟩ := p
            have hsp : smallBytesPeek rest = some (len, rest2) := by
              split at hpk
              · exact hpk
              · simp at hpk
            have hl2 := smallBytesPeek_length _ _ _ hsp
            simp only [hpk] at h
            split at h
            · simp at h
            · next hlen =>
              have htl : (rest2.take len).length = len := by simp only [List.length_take]; omega
              split at h
              · simp at h; obtain ⟨rfl, rfl⟩ := h
                have := size_fromU128 (rest2.take len)
                simp only [List.length_drop]; omega
              · cases hf : fromNegU128 (beVal (rest2.take len)) with
                | none => simp [hf] at h
                | some w =>
                  simp [hf] at h; obtain ⟨rfl, rfl⟩ := h
                  have := size_fromNegU128 _ _ hf
                  simp only [List.length_drop]; omega
          | none =>
            simp only [hpk] at h
            split at h
            · simp at h
            · cases hc : parse fuel (d - 1) rest with
              | ok p =>
                obtain ⟨w, r'⟩ := p
                simp [hc] at h; obtain ⟨rfl, rfl⟩ := h
                have := ihv _ _ _ _ hc
                simp only [Value.size]; omega
              | err => simp [hc] at h
              | oof => simp [hc] at h
        | float bits => simp at h; obtain ⟨rfl, rfl⟩ := h; simp [Value.size]; omega
        | simple n =>
          simp only [] at h
          repeat' split at h
          all_goals first
            | (simp at h; obtain ⟨rfl, rfl⟩ := h; simp [Value.size]; omega)
            | simp at h
        | brk => simp at h
    · intro d n bs xs r h
      cases n with
      | zero => simp [parseN] at h; obtain ⟨rfl, rfl⟩ := h; simp [Value.sizeL]
      | succ n =>
        rw [parseN] at h
        cases hv : parse fuel d bs with
        | ok p =>
          obtain ⟨v, r1⟩ := p
          simp only [hv] at h
          cases hc : parseN fuel d n r1 with
          | ok q =>
            obtain ⟨ys, r2⟩ := q
            simp [hc] at h; obtain ⟨rfl, rfl⟩ := h
            have := ihv _ _ _ _ hv; have := ihn _ _ _ _ _ hc
            simp only [Value.sizeL]; omega
          | err => simp [hc] at h
          | oof => simp [hc] at h
        | err => simp [hv] at h
        | oof => simp [hv] at h
    · intro d bs xs r h
      rw [parseIndef] at h
      split at h
      · next hh =>
        simp at h; obtain ⟨rfl, rfl⟩ := h
        cases bs with
        | nil => simp at hh
        | cons b bs => simp [Value.sizeL]
      · cases hv : parse fuel d bs with
        | ok p =>
          obtain ⟨v, r1⟩ := p
          simp only [hv] at h
          cases hc : parseIndef fuel d r1 with
          | ok q =>
            obtain ⟨ys, r2⟩ := q
            simp [hc] at h; obtain ⟨rfl, rfl⟩ := h
            have := ihv _ _ _ _ hv; have := ihi _ _ _ _ hc
            simp only [Value.sizeL]; omega
          | err => simp [hc] at h
          | oof => simp [hc] at h
        | err => simp [hv] at h
        | oof => simp [hv] at h
    · intro d n bs xs r h
      cases n with
      | zero => simp [parsePairsN] at h; obtain ⟨rfl, rfl⟩ := h; simp [Value.sizeP]
      | succ n =>
        rw [parsePairsN] at h
        cases hk : parse fuel d bs with
        | ok p =>
          obtain ⟨k, r1⟩ := p
          simp only [hk] at h
          cases hv : parse fuel d r1 with
          | ok p2 =>
            obtain ⟨v, r2⟩ := p2
            simp only [hv] at h
            cases hc : parsePairsN fuel d n r2 with
            | ok q =>
              obtain ⟨ys, r3⟩ := q
              simp [hc] at h; obtain ⟨rfl, rfl⟩ := h
              have := ihv _ _ _ _ hk; have := ihv _ _ _ _ hv; have := ihpn _ _ _ _ _ hc
              simp only [Value.sizeP]; omega
            | err => simp [hc] at h
            | oof => simp [hc] at h
          | err => simp [hv] at h
          | oof => simp [hv] at h
        | err => simp [hk] at h
        | oof => simp [hk] at h
    · intro d bs xs r h
      rw [parsePairsIndef] at h
      split at h
      · next hh =>
        simp at h; obtain ⟨rfl, rfl⟩ := h
        cases bs with
        | nil => simp at hh
        | cons b bs => simp [Value.sizeP]
      · cases hk : parse fuel d bs with
        | ok p =>
          obtain ⟨k, r1⟩ := p
          simp only [hk] at h
          cases hv : parse fuel d r1 with
          | ok p2 =>
            obtain ⟨v, r2⟩ := p2
            simp only [hv] at h
            cases hc : parsePairsIndef fuel d r2 with
            | ok q =>
              obtain ⟨ys, r3⟩ := q
              simp [hc] at h; obtain ⟨rfl, rfl⟩ := h
              have := ihv _ _ _ _ hk; have := ihv _ _ _ _ hv; have := ihpi _ _ _ _ hc
              simp only [Value.sizeP]; omega
            | err => simp [hc] at h
            | oof => simp [hc] at h
          | err => simp [hv] at h
          | oof => simp [hv] at h
        | err => simp [hk] at h
        | oof => simp [hk] at h

/-- L6. -/
theorem parse_weight (fuel d : Nat) (bs : Bytes) (v : Value) (r : Bytes) (h : parse fuel d bs = .ok (v, r)) :
    v.size + r.length ≤ bs.length := (weightOK fuel).1 d bs v r h

theorem size_pos (v : Value) : 0 < v.size := by cases v <;> simp [Value.size]


/-! ### the fuel of the entry point is always enough -/

/-- fuel that certainly suffices, per parser function (each nested call consumes at least one input byte). -/
def NoOofOK (fuel : Nat) : Prop :=
  (∀ d bs, 2 * bs.length + 2 ≤ fuel → parse fuel d bs ≠ .oof) ∧
  (∀ d n bs, 2 * bs.length + 3 ≤ fuel → parseN fuel d n bs ≠ .oof) ∧
  (∀ d bs, 2 * bs.length + 3 ≤ fuel → parseIndef fuel d bs ≠ .oof) ∧
  (∀ d n bs, 2 * bs.length + 3 ≤ fuel → parsePairsN fuel d n bs ≠ .oof) ∧
  (∀ d bs, 2 * bs.length + 3 ≤ fuel → parsePairsIndef fuel d bs ≠ .oof) ∧
  (∀ t k bs acc, bs.length + 1 ≤ fuel → chunks fuel t k bs acc ≠ .oof)

theorem chunks_no_oof (fuel : Nat)
    (ih : ∀ t k bs acc, bs.length + 1 ≤ fuel → chunks fuel t k bs acc ≠ .oof) :
    ∀ t k bs acc, bs.length + 1 ≤ fuel + 1 → chunks (fuel + 1) t k bs acc ≠ .oof := by
  intro t k bs acc hf h
  rw [chunks] at h
  cases hp : pull bs with
  | none => simp [hp] at h
  | some p =>
    obtain ⟨hd, rest⟩ := p
    have hl := pull_length _ _ _ hp
    simp only [hp] at h
    cases hd with
    | brk =>
      simp only [] at h
      split at h
      · simp at h
      · exact ih _ _ _ _ (by omega) h
    | bytes len =>
      simp only [] at h
      split at h
      · simp at h
      · cases len with
        | none => exact ih _ _ _ _ (by omega) h
        | some n =>
          simp only [] at h
          split at h
          · simp at h
          · exact ih _ _ _ _ (by simp only [List.length_drop]; omega) h
    | text len =>
      simp only [] at h
      split at h
      · simp at h
      · cases len with
        | none => exact ih _ _ _ _ (by omega) h
        | some n =>
          simp only [] at h
          split at h
          · simp at h
          · split at h
            · simp at h
            · exact ih _ _ _ _ (by simp only [List.length_drop]; omega) h
    | _ => simp at h

theorem noOofOK : ∀ fuel, NoOofOK fuel := by
  intro fuel
  induction fuel with
  | zero =>
    refine ⟨?_, ?_, ?_, ?_, ?_, ?_⟩ <;> intros <;> omega
  | succ fuel ih =>
    obtain ⟨ihv, ihn, ihi, ihpn, ihpi, ihc⟩ := ih
    have W := weightOK fuel
    refine ⟨?_, ?_, ?_, ?_, ?_, chunks_no_oof fuel ihc⟩
    · intro d bs hf h
      rw [parse] at h
      cases hp : pull bs with
      | none => simp [hp] at h
      | some p =>
        obtain ⟨hd, rest⟩ := p
        have hl := pull_length _ _ _ hp
        simp only [hp] at h
        cases hd with
        | pos n => simp at h
        | neg n => simp at h
        | bytes len =>
          cases len with
          | some n => simp only [] at h; split at h <;> simp at h
          | none =>
            simp only [] at h
            cases hc : chunks fuel false 1 rest [] with
            | ok p => simp [hc] at h
            | err => simp [hc] at h
            | oof => exact ihc _ _ _ _ (by omega) hc
        | text len =>
          cases len with
          | some n => simp only [] at h; split at h <;> (try split at h) <;> simp at h
          | none =>
            simp only [] at h
            cases hc : chunks fuel true 1 rest [] with
            | ok p => simp [hc] at h
            | err => simp [hc] at h
            | oof => exact ihc _ _ _ _ (by omega) hc
        | array len =>
          cases len with
          | some n =>
            simp only [] at h
            split at h
            · simp at h
            · cases hc : parseN fuel (d - 1) n rest with
              | ok p => simp [hc] at h
              | err => simp [hc] at h
              | oof => exact ihn _ _ _ (by omega) hc
          | none =>
            simp only [] at h
            split at h
            · simp at h
            · cases hc : parseIndef fuel (d - 1) rest with
              | ok p => simp [hc] at h
              | err => simp [hc] at h
              | oof => exact ihi _ _ (by omega) hc
        | map len =>
          cases len with
          | some n =>
            simp only [] at h
            split at h
            · simp at h
            · cases hc : parsePairsN fuel (d - 1) n rest with
              | ok p => simp [hc] at h
              | err => simp [hc] at h
              | oof => exact ihpn _ _ _ (by omega) hc
          | none =>
            simp only [] at h
            split at h
            · simp at h
            · cases hc : parsePairsIndef fuel (d - 1) rest with
              | ok p => simp [hc] at h
              | err => simp [hc] at h
              | oof => exact ihpi _ _ (by omega) hc
        | tag t =>
          simp only [] at h
          cases hpk : (if t = 2 ∨ t = 3 then smallBytesPeek rest else none) with
          | some p =>
            obtain ⟨len, rest2⟩ := p
            simp only [hpk] at h
            split at h
            · simp at h
            · split at h
              · simp at h
              · cases hf2 : fromNegU128 (beVal (rest2.take len)) with
                | none => simp [hf2] at h
                | some w => simp [hf2] at h
          | none =>
            simp only [hpk] at h
            split at h
            · simp at h
            · cases hc : parse fuel (d - 1) rest with
              | ok p => simp [hc] at h
              | err => simp [hc] at h
              | oof => exact ihv _ _ (by omega) hc
        | float bits => simp at h
        | simple n =>
          simp only [] at h
          repeat' split at h
          all_goals simp at h
        | brk => simp at h
    · intro d n bs hf h
      cases n with
      | zero => simp [parseN] at h
      | succ n =>
        rw [parseN] at h
        cases hv : parse fuel d bs with
        | ok p =>
          obtain ⟨v, r1⟩ := p
          simp only [hv] at h
          have hw := W.1 _ _ _ _ hv; have := size_pos v
          cases hc : parseN fuel d n r1 with
          | ok q => simp [hc] at h
          | err => simp [hc] at h
          | oof => exact ihn _ _ _ (by omega) hc
        | err => simp [hv] at h
        | oof => exact ihv _ _ (by omega) hv
    · intro d bs hf h
      rw [parseIndef] at h
      split at h
      · simp at h
      · cases hv : parse fuel d bs with
        | ok p =>
          obtain ⟨v, r1⟩ := p
          simp only [hv] at h
          have hw := W.1 _ _ _ _ hv; have := size_pos v
          cases hc : parseIndef fuel d r1 with
          | ok q => simp [hc] at h
          | err => simp [hc] at h
          | oof => exact ihi _ _ (by omega) hc
        | err => simp [hv] at h
        | oof => exact ihv _ _ (by omega) hv
    · intro d n bs hf h
      cases n with
      | zero => simp [parsePairsN] at h
      | succ n =>
        rw [parsePairsN] at h
        cases hk : parse fuel d bs with
        | ok p =>
          obtain ⟨k, r1⟩ := p
          simp only [hk] at h
          have hw := W.1 _ _ _ _ hk; have := size_pos k
          cases hv : parse fuel d r1 with
          | ok p2 =>
            obtain ⟨v, r2⟩ := p2
            simp only [hv] at h
            have hw2 := W.1 _ _ _ _ hv; have := size_pos v
            cases hc : parsePairsN fuel d n r2 with
            | ok q => simp [hc] at h
            | err => simp [hc] at h
            | oof => exact ihpn _ _ _ (by omega) hc
          | err => simp [hv] at h
          | oof => exact ihv _ _ (by omega) hv
        | err => simp [hk] at h
        | oof => exact ihv _ _ (by omega) hk
    · intro d bs hf h
      rw [parsePairsIndef] at h
      split at h
      · simp at h
      · cases hk : parse fuel d bs with
        | ok p =>
          obtain ⟨k, r1⟩ := p
          simp only [hk] at h
          have hw := W.1 _ _ _ _ hk; have := size_pos k
          cases hv : parse fuel d r1 with
          | ok p2 =>
            obtain ⟨v, r2⟩ := p2
            simp only [hv] at h
            have hw2 := W.1 _ _ _ _ hv; have := size_pos v
            cases hc : parsePairsIndef fuel d r2 with
            | ok q => simp [hc] at h
            | err => simp [hc] at h
            | oof => exact ihpi _ _ (by omega) hc
          | err => simp [hv] at h
          | oof => exact ihv _ _ (by omega) hv
        | err => simp [hk] at h
        | oof => exact ihv _ _ (by omega) hk

/-- the parser never runs out of the fuel its entry point supplies. -/
theorem parse_no_oof (fuel d : Nat) (bs : Bytes) (hf : 2 * bs.length + 2 ≤ fuel) : parse fuel d bs ≠ .oof :=
  (noOofOK fuel).1 d bs hf

theorem fromReader_no_oof (bs : Bytes) : fromReader bs ≠ .oof :=
  parse_no_oof _ _ bs (by unfold fuelFor; omega)

end Coset.Cbor

namespace Coset
open Cbor

/-- `read_to_value` never reports the model-only outcome "out of fuel". -/
theorem readToValue_no_oof (bs : Bytes) : readToValue bs ≠ .err .outOfFuel := by
  unfold readToValue
  cases h : fromReader bs with
  | ok p => obtain ⟨v, r⟩ := p; simp only []; split <;> simp
  | err => simp
  | oof => exact absurd h (fromReader_no_oof bs)

/-- what `read_to_value` accepts is no larger than its input (nodes plus string bytes): nothing is allocated from a declared length. -/
theorem readToValue_size (bs : Bytes) (v : Value) (h : readToValue bs = .ok v) : v.size ≤ bs.length := by
  unfold readToValue at h
  cases hr : fromReader bs with
  | ok p =>
    obtain ⟨w, r⟩ := p
    simp only [hr] at h
    split at h
    · simp at h; subst h
      have := parse_weight _ _ _ _ _ hr; omega
    · simp at h
  | err => simp [hr] at h
  | oof => simp [hr] at h

end Coset
