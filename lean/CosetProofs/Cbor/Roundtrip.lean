/-
  L1: parsing the serializer's output gives back the value (and the untouched rest), for every
  `Normal` value within the parser's recursion budget.
-/
import CosetProofs.Cbor.Head
namespace Coset.Cbor
open Coset

/-- `tag t v` is a bignum tag over a short byte string: the form ciborium's parser folds on sight, without entering the tagged item
    (so without consuming a unit of its recursion budget). -/
def foldedTag (t : Nat) : Value → Bool
  | .bytes b => (t == 2 || t == 3) && decide (b.length ≤ 16)
  | _ => false

mutual
/-- recursion budget a value needs: arrays, maps and tags each consume one unit (a folded bignum tag consumes none). -/
def depthOf : Value → Nat
  | .tag t v => if foldedTag t v then 0 else depthOf v + 1
  | .array xs => depthOfL xs + 1
  | .map kvs => depthOfP kvs + 1
  | _ => 0
def depthOfL : List Value → Nat
  | [] => 0
  | x :: xs => max (depthOf x) (depthOfL xs)
def depthOfP : List (Value × Value) → Nat
  | [] => 0
  | (k, v) :: kvs => max (max (depthOf k) (depthOf v)) (depthOfP kvs)
end

mutual
/-- fuel one call of `parse` needs for the encoding of a value. -/
def nsize : Value → Nat
  | .tag _ v => nsize v + 1
  | .array xs => nsizeL xs + 1
  | .map kvs => nsizeP kvs + 1
  | _ => 1
def nsizeL : List Value → Nat
  | [] => 1
  | x :: xs => nsize x + nsizeL xs + 1
def nsizeP : List (Value × Value) → Nat
  | [] => 1
  | (k, v) :: kvs => nsize k + nsize v + nsizeP kvs + 1
end

/-- `t` is a bignum tag applied to a byte string short enough for ciborium to fold it into an integer. -/
def SmallBignum (t : Nat) (v : Value) : Prop :=
  (t = 2 ∨ t = 3) ∧ ∃ b, v = .bytes b ∧ b.length ≤ 16

theorem foldedTag_iff (t : Nat) (v : Value) : foldedTag t v = true ↔ SmallBignum t v := by
  cases v <;> simp [foldedTag, SmallBignum]

theorem depthOf_tag_of_not_small (t : Nat) (v : Value) (h : ¬ SmallBignum t v) : depthOf (.tag t v) = depthOf v + 1 := by
  have : foldedTag t v = false := by
    cases hf : foldedTag t v with
    | false => rfl
    | true => exact absurd ((foldedTag_iff t v).mp hf) h
  simp [depthOf, this]

theorem depthOf_tag_le (t : Nat) (v : Value) : depthOf (.tag t v) ≤ depthOf v + 1 := by
  simp only [depthOf]; split <;> omega

theorem depthOf_le_of_tag (t : Nat) (v : Value) : depthOf v ≤ depthOf (.tag t v) := by
  simp only [depthOf]
  split
  · next h => obtain ⟨_, b, rfl, _⟩ := (foldedTag_iff t v).mp h; simp [depthOf]
  · omega

/-- a bignum tag in the one form ciborium itself produces and reproduces: the minimal big-endian bytes of a magnitude that does not
    fit 64 bits (and, for tag 3, whose value `-1 - n` fits `i128`).  The parser folds it and `From<u128/i128>` writes it back unchanged. -/
def CanonBig (t : Nat) (v : Value) : Prop :=
  ∃ raw, 2 ^ 64 ≤ raw ∧ (t = 2 → raw < 2 ^ 128) ∧ (t = 3 → raw < 2 ^ 127) ∧ v = .bytes (minBytes raw)

mutual
/-- values the parser can return from the serializer's output: CBOR integer range, valid UTF-8,
    lengths and tags below 2^64, no foldable bignum tag other than a canonical big one. -/
def Normal : Value → Prop
  | .int n => -(2 ^ 64 : Int) ≤ n ∧ n < 2 ^ 64
  | .bytes b => b.length < 2 ^ 64
  | .text b => b.length < 2 ^ 64 ∧ Utf8.valid b = true
  | .float _ => True
  | .bool _ => True
  | .null => True
  | .tag t v => t < 2 ^ 64 ∧ (SmallBignum t v → CanonBig t v) ∧ Normal v
  | .array xs => xs.length < 2 ^ 64 ∧ NormalL xs
  | .map kvs => kvs.length < 2 ^ 64 ∧ NormalP kvs
def NormalL : List Value → Prop
  | [] => True
  | x :: xs => Normal x ∧ NormalL xs
def NormalP : List (Value × Value) → Prop
  | [] => True
  | (k, v) :: kvs => Normal k ∧ Normal v ∧ NormalP kvs
end

theorem pull_simple (b : UInt8) (n : Nat) (h7 : b.toNat / 32 = 7) (hn : b.toNat % 32 = n) (hlt : n < 24) (rest : Bytes) :
    pull (b :: rest) = some (.simple n, rest) := by
  simp [pull, h7, hn, pullArg, hlt]

theorem pull_float (b : UInt8) (minor k n : Nat) (h7 : b.toNat / 32 = 7) (hm : b.toNat % 32 = minor)
    (hk : (minor = 25 ∧ k = 2) ∨ (minor = 26 ∧ k = 4) ∨ (minor = 27 ∧ k = 8)) (hn : n < 256 ^ k) (rest : Bytes) :
    pull (b :: (beN k n ++ rest)) =
      some (.float (if k = 2 then Float.f16to64 n else if k = 4 then Float.f32to64 n else n), rest) := by
  have := pullArg_wide minor k n (by rcases hk with h | h | h <;> simp [h]) hn rest
  simp only [pull, h7, hm, this]
  rcases hk with ⟨_, h⟩ | ⟨_, h⟩ | ⟨_, h⟩ <;> subst h <;> simp

theorem enc_bool_true : enc (.bool true) = [0xf5] := rfl
theorem enc_bool_false : enc (.bool false) = [0xf4] := rfl
theorem enc_null : enc .null = [0xf6] := rfl

/-- the head the parser sees in front of an encoded value; it is a definite byte-string head only for byte strings. -/
theorem pull_enc (v : Value) (hv : Normal v) (s : Bytes) :
    ∃ hd r, pull (enc v ++ s) = some (hd, r) ∧ ∀ len, hd = .bytes (some len) → ∃ b, v = .bytes b ∧ len = b.length := by
  cases v with
  | int n =>
    simp only [Normal] at hv
    by_cases h : 0 ≤ n
    · refine ⟨.pos n.toNat, s, ?_, by simp⟩
      simp only [enc, h, if_true]
      rw [pull_encHead 0 _ (by omega) (by omega)]; rfl
    · refine ⟨.neg (-1 - n).toNat, s, ?_, by simp⟩
      simp only [enc, h, if_false]
      rw [pull_encHead 1 _ (by omega) (by omega)]; rfl
  | bytes b =>
    simp only [Normal] at hv
    refine ⟨.bytes (some b.length), b ++ s, ?_, fun len h => ⟨b, rfl, by simpa using h.symm⟩⟩
    simp only [enc, List.append_assoc]
    rw [pull_encHead 2 _ (by omega) hv]; rfl
  | text b =>
    simp only [Normal] at hv
    refine ⟨.text (some b.length), b ++ s, ?_, by simp⟩
    simp only [enc, List.append_assoc]
    rw [pull_encHead 3 _ (by omega) hv.1]; rfl
  | float bits =>
    have hb := bits.toNat_lt
    simp only [enc, encFloat]
    split
    · exact ⟨_, _, by rw [List.cons_append, pull_float _ 25 2 _ (by decide) (by decide) (by simp) (by omega)], by simp⟩
    · split
      · exact ⟨_, _, by rw [List.cons_append, pull_float _ 26 4 _ (by decide) (by decide) (by simp) (by omega)], by simp⟩
      · exact ⟨_, _, by rw [List.cons_append, pull_float _ 27 8 _ (by decide) (by decide) (by simp) (by omega)], by simp⟩
  | bool b =>
    cases b
    · exact ⟨_, _, by rw [enc_bool_false, List.singleton_append, pull_simple _ 20 (by decide) (by decide) (by decide)], by simp⟩
    · exact ⟨_, _, by rw [enc_bool_true, List.singleton_append, pull_simple _ 21 (by decide) (by decide) (by decide)], by simp⟩
  | null => exact ⟨_, _, by rw [enc_null, List.singleton_append, pull_simple _ 22 (by decide) (by decide) (by decide)], by simp⟩
  | tag t w =>
    simp only [Normal] at hv
    refine ⟨.tag t, enc w ++ s, ?_, by simp⟩
    simp only [enc, List.append_assoc]
    rw [pull_encHead 6 _ (by omega) hv.1]; rfl
  | array xs =>
    simp only [Normal] at hv
    refine ⟨.array (some xs.length), encList xs ++ s, ?_, by simp⟩
    simp only [enc, List.append_assoc]
    rw [pull_encHead 4 _ (by omega) hv.1]; rfl
  | map kvs =>
    simp only [Normal] at hv
    refine ⟨.map (some kvs.length), encPairs kvs ++ s, ?_, by simp⟩
    simp only [enc, List.append_assoc]
    rw [pull_encHead 5 _ (by omega) hv.1]; rfl

theorem pull_enc_not_small_bytes (v : Value) (hv : Normal v) (s : Bytes)
    (hnb : ¬ ∃ b, v = .bytes b ∧ b.length ≤ 16) :
    smallBytesPeek (enc v ++ s) = none := by
  obtain ⟨hd, r, h, hk⟩ := pull_enc v hv s
  rw [smallBytesPeek, h]
  cases hd with
  | bytes len =>
    cases len with
    | none => rfl
    | some len =>
      obtain ⟨b, hb, hl⟩ := hk len rfl
      have : ¬ len ≤ 16 := fun hle => hnb ⟨b, hb, by omega⟩
      simp [this]
  | _ => rfl

/-- L1, stated for all three mutually recursive layers at once. -/
theorem parse_enc_aux : ∀ fuel,
    (∀ v d s, Normal v → depthOf v ≤ d → nsize v ≤ fuel → parse fuel d (enc v ++ s) = .ok (v, s)) ∧
    (∀ xs d s, NormalL xs → depthOfL xs ≤ d → nsizeL xs ≤ fuel → parseN fuel d xs.length (encList xs ++ s) = .ok (xs, s)) ∧
    (∀ kvs d s, NormalP kvs → depthOfP kvs ≤ d → nsizeP kvs ≤ fuel → parsePairsN fuel d kvs.length (encPairs kvs ++ s) = .ok (kvs, s)) := by
  intro fuel
  induction fuel with
  | zero =>
    refine ⟨?_, ?_, ?_⟩
    · intro v d s _ _ h; cases v <;> simp [nsize] at h
    · intro xs d s _ _ h; cases xs <;> simp [nsizeL] at h
    · intro kvs d s _ _ h; cases kvs <;> simp [nsizeP] at h
  | succ fuel ih =>
    obtain ⟨ihv, ihl, ihp⟩ := ih
    refine ⟨?_, ?_, ?_⟩
    · intro v d s hn hd hs
      cases v with
      | int n =>
        simp only [Normal] at hn
        simp only [enc]
        split
        · next h =>
          rw [parse, pull_encHead 0 _ (by omega) (by omega)]
          simp only [hdOf]
          rw [Int.toNat_of_nonneg h]
        · next h =>
          rw [parse, pull_encHead 1 _ (by omega) (by omega)]
          simp only [hdOf]
          rw [Int.toNat_of_nonneg (by omega)]
          congr 2; congr 1; omega
      | bytes b =>
        simp only [Normal] at hn
        simp only [enc, List.append_assoc]
        rw [parse, pull_encHead 2 _ (by omega) hn]
        simp [hdOf]
      | text b =>
        simp only [Normal] at hn
        simp only [enc, List.append_assoc]
        rw [parse, pull_encHead 3 _ (by omega) hn.1]
        simp [hdOf, hn.2]
      | float bits =>
        have hb := bits.toNat_lt
        simp only [enc, encFloat]
        split
        · next h =>
          rw [List.cons_append, parse, pull_float _ 25 2 _ (by decide) (by decide) (by simp) (by omega)]
          simp [h]
        · split
          · next h =>
            rw [List.cons_append, parse, pull_float _ 26 4 _ (by decide) (by decide) (by simp) (by omega)]
            simp [h]
          · rw [List.cons_append, parse, pull_float _ 27 8 _ (by decide) (by decide) (by simp) (by omega)]
            simp
      | bool b =>
        cases b
        · rw [enc_bool_false, List.singleton_append, parse, pull_simple _ 20 (by decide) (by decide) (by decide)]
          simp
        · rw [enc_bool_true, List.singleton_append, parse, pull_simple _ 21 (by decide) (by decide) (by decide)]
          simp
      | null =>
        rw [enc_null, List.singleton_append, parse, pull_simple _ 22 (by decide) (by decide) (by decide)]
        simp
      | tag t w =>
        simp only [Normal] at hn
        obtain ⟨ht, hsb, hw⟩ := hn
        simp only [nsize] at hs
        simp only [enc, List.append_assoc]
        rw [parse, pull_encHead 6 _ (by omega) ht]
        simp only [hdOf]
        have hdn : ¬ SmallBignum t w → d ≠ 0 ∧ parse fuel (d - 1) (enc w ++ s) = .ok (w, s) := by
          intro hns
          rw [depthOf_tag_of_not_small t w hns] at hd
          exact ⟨by omega, ihv w (d - 1) s hw (by omega) (by omega)⟩
        by_cases h23 : t = 2 ∨ t = 3
        · by_cases hsm : ∃ b, w = .bytes b ∧ b.length ≤ 16
          · -- a canonical big bignum: folded by the parser, rebuilt identically by `From<u128>` / `From<i128>`
            obtain ⟨raw, h64, h2, h3, hw'⟩ := hsb ⟨h23, hsm⟩
            subst hw'
            have h128 : raw < 2 ^ 128 := by
              rcases h23 with h | h
              · exact h2 h
              · have := h3 h; omega
            have hlen := minBytes_length_le raw h128
            have hpk : smallBytesPeek (enc (.bytes (minBytes raw)) ++ s) = some ((minBytes raw).length, minBytes raw ++ s) := by
              simp only [enc, List.append_assoc, smallBytesPeek]
              rw [pull_encHead 2 _ (by omega) (by omega)]
              simp [hdOf, hlen]
            simp only [h23, if_true, hpk]
            have hnl : ¬ (minBytes raw ++ s).length < (minBytes raw).length := by simp
            simp only [hnl, if_false, List.take_left', List.drop_left', beVal_minBytes raw h128]
            rcases h23 with h | h
            · subst h; simp [fromU128, show ¬ raw < 2 ^ 64 by omega]
            · subst h
              have := h3 rfl
              simp [fromNegU128, show ¬ raw ≥ 2 ^ 127 by omega, show ¬ raw < 2 ^ 64 by omega]
          · have hp := pull_enc_not_small_bytes w hw s hsm
            obtain ⟨hd0, ih⟩ := hdn (fun h => hsm h.2)
            simp [h23, hp, hd0, ih]
        · obtain ⟨hd0, ih⟩ := hdn (fun h => h23 h.1)
          simp [h23, hd0, ih]
      | array xs =>
        simp only [Normal] at hn
        simp only [depthOf] at hd
        simp only [nsize] at hs
        simp only [enc, List.append_assoc]
        rw [parse, pull_encHead 4 _ (by omega) hn.1]
        simp only [hdOf]
        have hd0 : d ≠ 0 := by omega
        simp only [hd0, if_false]
        rw [ihl xs (d - 1) s hn.2 (by omega) (by omega)]
      | map kvs =>
        simp only [Normal] at hn
        simp only [depthOf] at hd
        simp only [nsize] at hs
        simp only [enc, List.append_assoc]
        rw [parse, pull_encHead 5 _ (by omega) hn.1]
        simp only [hdOf]
        have hd0 : d ≠ 0 := by omega
        simp only [hd0, if_false]
        rw [ihp kvs (d - 1) s hn.2 (by omega) (by omega)]
    · intro xs d s hn hd hs
      cases xs with
      | nil => simp [parseN, encList]
      | cons x xs =>
        simp only [NormalL] at hn
        simp only [depthOfL] at hd
        simp only [nsizeL] at hs
        simp only [encList, List.append_assoc, List.length_cons]
        rw [parseN]
        simp [ihv x d _ hn.1 (by omega) (by omega), ihl xs d s hn.2 (by omega) (by omega)]
    · intro kvs d s hn hd hs
      cases kvs with
      | nil => simp [parsePairsN, encPairs]
      | cons kv kvs =>
        obtain ⟨k, v⟩ := kv
        simp only [NormalP] at hn
        simp only [depthOfP] at hd
        simp only [nsizeP] at hs
        simp only [encPairs, List.append_assoc, List.length_cons]
        rw [parsePairsN]
        simp [ihv k d _ hn.1 (by omega) (by omega), ihv v d _ hn.2.1 (by omega) (by omega),
          ihp kvs d s hn.2.2 (by omega) (by omega)]

theorem parse_enc (v : Value) (fuel d : Nat) (s : Bytes) (hn : Normal v) (hd : depthOf v ≤ d) (hf : nsize v ≤ fuel) :
    parse fuel d (enc v ++ s) = .ok (v, s) := (parse_enc_aux fuel).1 v d s hn hd hf

end Coset.Cbor

namespace Coset.Cbor
open Coset

theorem encHead_length_pos (m n : Nat) : 0 < (encHead m n).length := by
  unfold encHead; split <;> (try split) <;> (try split) <;> (try split) <;> simp

theorem encFloat_length_pos (b : Nat) : 0 < (encFloat b).length := by
  unfold encFloat; simp only []; split <;> (try split) <;> simp

mutual
theorem nsize_le (v : Value) : nsize v + 1 ≤ 3 * (enc v).length := by
  cases v with
  | int n => simp only [nsize, enc]; split <;> (have := encHead_length_pos 0 n.toNat; have := encHead_length_pos 1 (-1 - n).toNat; omega)
  | bytes b => have := encHead_length_pos 2 b.length; simp only [nsize, enc, List.length_append]; omega
  | text b => have := encHead_length_pos 3 b.length; simp only [nsize, enc, List.length_append]; omega
  | float f => have := encFloat_length_pos f.toNat; simp only [nsize, enc]; omega
  | bool b => simp [nsize, enc]
  | null => simp [nsize, enc]
  | tag t w => have := encHead_length_pos 6 t; have := nsize_le w; simp only [nsize, enc, List.length_append]; omega
  | array xs => have := encHead_length_pos 4 xs.length; have := nsizeL_le xs; simp only [nsize, enc, List.length_append]; omega
  | map kvs => have := encHead_length_pos 5 kvs.length; have := nsizeP_le kvs; simp only [nsize, enc, List.length_append]; omega
theorem nsizeL_le (xs : List Value) : nsizeL xs ≤ 3 * (encList xs).length + 1 := by
  cases xs with
  | nil => simp [nsizeL, encList]
  | cons x xs => have := nsize_le x; have := nsizeL_le xs; simp only [nsizeL, encList, List.length_append]; omega
theorem nsizeP_le (kvs : List (Value × Value)) : nsizeP kvs ≤ 3 * (encPairs kvs).length + 1 := by
  cases kvs with
  | nil => simp [nsizeP, encPairs]
  | cons kv kvs =>
    obtain ⟨k, v⟩ := kv
    have := nsize_le k; have := nsize_le v; have := nsizeP_le kvs
    simp only [nsizeP, encPairs, List.length_append]; omega
end

/-- L1 at the API: `read_to_value (to_vec-style bytes of v) = v`. -/
theorem readToValue_enc (v : Value) (hn : Normal v) (hd : depthOf v ≤ recursionLimit) :
    readToValue (enc v) = .ok v := by
  have h := parse_enc v (fuelFor (enc v)) recursionLimit [] hn hd (by have := nsize_le v; unfold fuelFor; omega)
  simp only [List.append_nil] at h
  simp [readToValue, fromReader, h]

end Coset.Cbor
