/-
  L7: what the parser returns.  Every value `parse` yields has integers in CBOR's range, valid UTF-8 text, tag numbers below 2^64,
  and nests no deeper than the recursion budget it was given; with L6 (its size is bounded by the input) every length in it is below
  2^64.  So a parsed value is `Normal` — one the serializer represents faithfully — as soon as it contains no *short* bignum tag
  other than the canonical big form the parser itself produces (`NoSB`): the one exception, known finding D3.
-/
import CosetProofs.Cbor.Roundtrip
import CosetProofs.Cbor.Weight
import CosetProofs.Cbor.Utf8Lemmas
namespace Coset.Cbor
open Coset

mutual
/-- the part of `Normal` the parser guarantees by construction. -/
def PNormal : Value → Prop
  | .int n => -(2 ^ 64 : Int) ≤ n ∧ n < 2 ^ 64
  | .text b => Utf8.valid b = true
  | .tag t v => t < 2 ^ 64 ∧ PNormal v
  | .array xs => PNormalL xs
  | .map kvs => PNormalP kvs
  | _ => True
def PNormalL : List Value → Prop
  | [] => True
  | x :: xs => PNormal x ∧ PNormalL xs
def PNormalP : List (Value × Value) → Prop
  | [] => True
  | (k, v) :: kvs => PNormal k ∧ PNormal v ∧ PNormalP kvs
end

mutual
/-- no bignum tag over a short byte string, except in the canonical big form (`CanonBig`). -/
def NoSB : Value → Prop
  | .tag t v => (SmallBignum t v → CanonBig t v) ∧ NoSB v
  | .array xs => NoSBL xs
  | .map kvs => NoSBP kvs
  | _ => True
def NoSBL : List Value → Prop
  | [] => True
  | x :: xs => NoSB x ∧ NoSBL xs
def NoSBP : List (Value × Value) → Prop
  | [] => True
  | (k, v) :: kvs => NoSB k ∧ NoSB v ∧ NoSBP kvs
end

theorem pullArg_bound (m : Nat) (rest0 rest : Bytes) (n w : Nat) (h : pullArg m rest0 = some (some (n, w), rest)) : n < 2 ^ 64 := by
  unfold pullArg at h
  have hb : ∀ k, k ≤ 8 → beVal (rest0.take k) < 2 ^ 64 := by
    intro k hk
    have h1 := beVal_lt (rest0.take k)
    have h2 : (rest0.take k).length ≤ 8 := by simp only [List.length_take]; omega
    have h3 : (256 : Nat) ^ (rest0.take k).length ≤ 256 ^ 8 := Nat.pow_le_pow_right (by decide) h2
    have : (256 : Nat) ^ 8 = 2 ^ 64 := by decide
    omega
  repeat' split at h
  all_goals first
    | (simp at h; obtain ⟨⟨rfl, -⟩, -⟩ := h; first | omega | exact hb _ (by decide))
    | simp at h

theorem pull_bound (bs rest : Bytes) (hd : Hd) (h : pull bs = some (hd, rest)) :
    (∀ n, hd = .pos n → n < 2 ^ 64) ∧ (∀ n, hd = .neg n → n < 2 ^ 64) ∧ (∀ n, hd = .tag n → n < 2 ^ 64) := by
  cases bs with
  | nil => simp [pull] at h
  | cons b rest0 =>
    simp only [pull] at h
    cases ha : pullArg (b.toNat % 32) rest0 with
    | none => simp [ha] at h
    | some p =>
      obtain ⟨arg, r⟩ := p
      simp only [ha] at h
      cases arg with
      | none =>
        repeat' split at h
        all_goals first
          | (simp at h; done)
          | (simp at h; obtain ⟨rfl, -⟩ := h; simp_all)
      | some nw =>
        obtain ⟨n, w⟩ := nw
        have hn := pullArg_bound _ _ _ _ _ ha
        repeat' split at h
        all_goals first
          | (simp at h; done)
          | (simp at h; obtain ⟨rfl, -⟩ := h; simp_all; done)
          | (simp at h; obtain ⟨rfl, -⟩ := h; simp_all; omega)

theorem PNormal_fromU128 (raw : Nat) (h : raw < 2 ^ 128) : PNormal (fromU128 raw) := by
  unfold fromU128; split
  · simp only [PNormal]; omega
  · simp [PNormal]

theorem PNormal_fromNegU128 (raw : Nat) (v : Value) (h : fromNegU128 raw = some v) : PNormal v := by
  unfold fromNegU128 at h
  split at h
  · simp at h
  · split at h
    · simp at h; subst h; simp only [PNormal]; omega
    · simp at h; subst h; simp [PNormal]

theorem depthOf_fromU128 (raw : Nat) (h : raw < 2 ^ 128) : depthOf (fromU128 raw) = 0 := by
  unfold fromU128; split
  · simp [depthOf]
  · have := minBytes_length_le raw h
    simp [depthOf, foldedTag, this]

theorem depthOf_fromNegU128 (raw : Nat) (v : Value) (h : fromNegU128 raw = some v) : depthOf v = 0 := by
  unfold fromNegU128 at h
  split at h
  · simp at h
  · next h127 =>
    split at h
    · simp at h; subst h; simp [depthOf]
    · simp at h; subst h
      have := minBytes_length_le raw (by omega)
      simp [depthOf, foldedTag, this]

/-- what L7 says of each parser function. -/
def OutOK (fuel : Nat) : Prop :=
  (∀ d bs v r, parse fuel d bs = .ok (v, r) → PNormal v ∧ depthOf v ≤ d) ∧
  (∀ d n bs xs r, parseN fuel d n bs = .ok (xs, r) → PNormalL xs ∧ depthOfL xs ≤ d) ∧
  (∀ d bs xs r, parseIndef fuel d bs = .ok (xs, r) → PNormalL xs ∧ depthOfL xs ≤ d) ∧
  (∀ d n bs xs r, parsePairsN fuel d n bs = .ok (xs, r) → PNormalP xs ∧ depthOfP xs ≤ d) ∧
  (∀ d bs xs r, parsePairsIndef fuel d bs = .ok (xs, r) → PNormalP xs ∧ depthOfP xs ≤ d) ∧
  (∀ k bs acc b r, chunks fuel true k bs acc = .ok (b, r) → Utf8.valid acc = true → Utf8.valid b = true)

theorem chunks_out (fuel : Nat)
    (ih : ∀ k bs acc b r, chunks fuel true k bs acc = .ok (b, r) → Utf8.valid acc = true → Utf8.valid b = true) :
    ∀ k bs acc b r, chunks (fuel + 1) true k bs acc = .ok (b, r) → Utf8.valid acc = true → Utf8.valid b = true := by
  intro k bs acc b r h hacc
  rw [chunks] at h
  cases hp : pull bs with
  | none => simp [hp] at h
  | some p =>
    obtain ⟨hd, rest⟩ := p
    simp only [hp] at h
    cases hd with
    | brk =>
      simp only [] at h
      split at h
      · simp at h; obtain ⟨rfl, rfl⟩ := h; exact hacc
      · exact ih _ _ _ _ _ h hacc
    | bytes len => simp at h
    | text len =>
      simp only [Bool.not_true, Bool.false_eq_true, if_false] at h
      cases len with
      | none => exact ih _ _ _ _ _ h hacc
      | some n =>
        simp only [] at h
        split at h
        · simp at h
        · split at h
          · simp at h
          · next hv =>
            refine ih _ _ _ _ _ h (Utf8.valid_append _ _ hacc ?_)
            simpa using hv
    | _ => simp at h

theorem size_lt_of (x : Nat) : x < 2 ^ 64 → True := fun _ => trivial

theorem outOK : ∀ fuel, OutOK fuel := by
  intro fuel
  induction fuel with
  | zero =>
    refine ⟨?_, ?_, ?_, ?_, ?_, ?_⟩
    · intro d bs v r h; simp [parse] at h
    · intro d n bs xs r h; simp [parseN] at h
    · intro d bs xs r h; simp [parseIndef] at h
    · intro d n bs xs r h; simp [parsePairsN] at h
    · intro d bs xs r h; simp [parsePairsIndef] at h
    · intro k bs acc b r h; simp [chunks] at h
  | succ fuel ih =>
    obtain ⟨ihv, ihn, ihi, ihpn, ihpi, ihc⟩ := ih
    refine ⟨?_, ?_, ?_, ?_, ?_, chunks_out fuel ihc⟩
    · intro d bs v r h
      rw [parse] at h
      cases hp : pull bs with
      | none => simp [hp] at h
      | some p =>
        obtain ⟨hd, rest⟩ := p
        have hb := pull_bound _ _ _ hp
        simp only [hp] at h
        cases hd with
        | pos n =>
          simp at h; obtain ⟨rfl, rfl⟩ := h
          have := hb.1 n rfl
          simp only [PNormal, depthOf]; omega
        | neg n =>
          simp at h; obtain ⟨rfl, rfl⟩ := h
          have := hb.2.1 n rfl
          simp only [PNormal, depthOf]; omega
        | bytes len =>
          cases len with
          | some n =>
            simp only [] at h
            split at h
            · simp at h
            · simp at h; obtain ⟨rfl, rfl⟩ := h; simp [PNormal, depthOf]
          | none =>
            simp only [] at h
            cases hc : chunks fuel false 1 rest [] with
            | ok p => obtain ⟨b, r'⟩ := p; simp [hc] at h; obtain ⟨rfl, rfl⟩ := h; simp [PNormal, depthOf]
            | err => simp [hc] at h
            | oof => simp [hc] at h
        | text len =>
          cases len with
          | some n =>
            simp only [] at h
            split at h
            · simp at h
            · split at h
              · simp at h
              · next hv => simp at h; obtain ⟨rfl, rfl⟩ := h; simp only [PNormal, depthOf]; exact ⟨by simpa using hv, Nat.zero_le _⟩
          | none =>
            simp only [] at h
            cases hc : chunks fuel true 1 rest [] with
            | ok p =>
              obtain ⟨b, r'⟩ := p; simp [hc] at h; obtain ⟨rfl, rfl⟩ := h
              simp only [PNormal, depthOf]; exact ⟨ihc _ _ _ _ _ hc rfl, Nat.zero_le _⟩
            | err => simp [hc] at h
            | oof => simp [hc] at h
        | array len =>
          cases len with
          | some n =>
            simp only [] at h
            split at h
            · simp at h
            · cases hc : parseN fuel (d - 1) n rest with
              | ok p =>
                obtain ⟨xs, r'⟩ := p; simp [hc] at h; obtain ⟨rfl, rfl⟩ := h
                have := ihn _ _ _ _ _ hc
                simp only [PNormal, depthOf]; exact ⟨this.1, by omega⟩
              | err => simp [hc] at h
              | oof => simp [hc] at h
          | none =>
            simp only [] at h
            split at h
            · simp at h
            · cases hc : parseIndef fuel (d - 1) rest with
              | ok p =>
                obtain ⟨xs, r'⟩ := p; simp [hc] at h; obtain ⟨rfl, rfl⟩ := h
                have := ihi _ _ _ _ hc
                simp only [PNormal, depthOf]; exact ⟨this.1, by omega⟩
              | err => simp [hc] at h
              | oof => simp [hc] at h
        | map len =>
          cases len with
          | some n =>
            simp only [] at h
            split at h
            · simp at h
            · cases hc : parsePairsN fuel (d - 1) n rest with
              | ok p =>
                obtain ⟨xs, r'⟩ := p; simp [hc] at h; obtain ⟨rfl, rfl⟩ := h
                have := ihpn _ _ _ _ _ hc
                simp only [PNormal, depthOf]; exact ⟨this.1, by omega⟩
              | err => simp [hc] at h
              | oof => simp [hc] at h
          | none =>
            simp only [] at h
            split at h
            · simp at h
            · cases hc : parsePairsIndef fuel (d - 1) rest with
              | ok p =>
                obtain ⟨xs, r'⟩ := p; simp [hc] at h; obtain ⟨rfl, rfl⟩ := h
                have := ihpi _ _ _ _ hc
                simp only [PNormal, depthOf]; exact ⟨this.1, by omega⟩
              | err => simp [hc] at h
              | oof => simp [hc] at h
        | tag t =>
          have ht := hb.2.2 t rfl
          simp only [] at h
          cases hpk : (if t = 2 ∨ t = 3 then smallBytesPeek rest else none) with
          | some p =>
            obtain ⟨len, rest2⟩ := p
            have hsp : smallBytesPeek rest = some (len, rest2) := by
              split at hpk
              · exact hpk
              · simp at hpk
            have hlen16 : len ≤ 16 := by
              unfold smallBytesPeek at hsp
              split at hsp
              · split at hsp
                · next hl => simp at hsp; omega
                · simp at hsp
              · simp at hsp
            simp only [hpk] at h
            split at h
            · simp at h
            · have hraw : beVal (rest2.take len) < 2 ^ 128 := by
                have h1 := beVal_lt (rest2.take len)
                have h2 : (rest2.take len).length ≤ 16 := by simp only [List.length_take]; omega
                have h3 : (256 : Nat) ^ (rest2.take len).length ≤ 256 ^ 16 := Nat.pow_le_pow_right (by decide) h2
                have : (256 : Nat) ^ 16 = 2 ^ 128 := by decide
                omega
              split at h
              · simp at h; obtain ⟨rfl, rfl⟩ := h
                exact ⟨PNormal_fromU128 _ hraw, by rw [depthOf_fromU128 _ hraw]; omega⟩
              · cases hf : fromNegU128 (beVal (rest2.take len)) with
                | none => simp [hf] at h
                | some w =>
                  simp [hf] at h; obtain ⟨rfl, rfl⟩ := h
                  exact ⟨PNormal_fromNegU128 _ _ hf, by rw [depthOf_fromNegU128 _ _ hf]; omega⟩
          | none =>
            simp only [hpk] at h
            split at h
            · simp at h
            · cases hc : parse fuel (d - 1) rest with
              | ok p =>
                obtain ⟨w, r'⟩ := p; simp [hc] at h; obtain ⟨rfl, rfl⟩ := h
                have := ihv _ _ _ _ hc
                have hle := depthOf_tag_le t w
                simp only [PNormal]; exact ⟨⟨ht, this.1⟩, by omega⟩
              | err => simp [hc] at h
              | oof => simp [hc] at h
        | float bits => simp at h; obtain ⟨rfl, rfl⟩ := h; simp [PNormal, depthOf]
        | simple n =>
          simp only [] at h
          repeat' split at h
          all_goals first
            | (simp at h; obtain ⟨rfl, rfl⟩ := h; simp [PNormal, depthOf])
            | simp at h
        | brk => simp at h
    · intro d n bs xs r h
      cases n with
      | zero => simp [parseN] at h; obtain ⟨rfl, rfl⟩ := h; simp [PNormalL, depthOfL]
      | succ n =>
        rw [parseN] at h
        cases hv : parse fuel d bs with
        | ok p =>
          obtain ⟨v, r1⟩ := p
          simp only [hv] at h
          cases hc : parseN fuel d n r1 with
          | ok q =>
            obtain ⟨ys, r2⟩ := q
            simp [hc] at h; obtain ⟨rfl, rfl⟩ := h
            have h1 := ihv _ _ _ _ hv; have h2 := ihn _ _ _ _ _ hc
            simp only [PNormalL, depthOfL]; exact ⟨⟨h1.1, h2.1⟩, by omega⟩
          | err => simp [hc] at h
          | oof => simp [hc] at h
        | err => simp [hv] at h
        | oof => simp [hv] at h
    · intro d bs xs r h
      rw [parseIndef] at h
      split at h
      · simp at h; obtain ⟨rfl, rfl⟩ := h; simp [PNormalL, depthOfL]
      · cases hv : parse fuel d bs with
        | ok p =>
          obtain ⟨v, r1⟩ := p
          simp only [hv] at h
          cases hc : parseIndef fuel d r1 with
          | ok q =>
            obtain ⟨ys, r2⟩ := q
            simp [hc] at h; obtain ⟨rfl, rfl⟩ := h
            have h1 := ihv _ _ _ _ hv; have h2 := ihi _ _ _ _ hc
            simp only [PNormalL, depthOfL]; exact ⟨⟨h1.1, h2.1⟩, by omega⟩
          | err => simp [hc] at h
          | oof => simp [hc] at h
        | err => simp [hv] at h
        | oof => simp [hv] at h
    · intro d n bs xs r h
      cases n with
      | zero => simp [parsePairsN] at h; obtain ⟨rfl, rfl⟩ := h; simp [PNormalP, depthOfP]
      | succ n =>
        rw [parsePairsN] at h
        cases hk : parse fuel d bs with
        | ok p =>
          obtain ⟨k, r1⟩ := p
          simp only [hk] at h
          cases hv : parse fuel d r1 with
          | ok p2 =>
            obtain ⟨v, r2⟩ := p2
            simp only [hv] at h
            cases hc : parsePairsN fuel d n r2 with
            | ok q =>
              obtain ⟨ys, r3⟩ := q
              simp [hc] at h; obtain ⟨rfl, rfl⟩ := h
              have h1 := ihv _ _ _ _ hk; have h2 := ihv _ _ _ _ hv; have h3 := ihpn _ _ _ _ _ hc
              simp only [PNormalP, depthOfP]; exact ⟨⟨h1.1, h2.1, h3.1⟩, by omega⟩
            | err => simp [hc] at h
            | oof => simp [hc] at h
          | err => simp [hv] at h
          | oof => simp [hv] at h
        | err => simp [hk] at h
        | oof => simp [hk] at h
    · intro d bs xs r h
      rw [parsePairsIndef] at h
      split at h
      · simp at h; obtain ⟨rfl, rfl⟩ := h; simp [PNormalP, depthOfP]
      · cases hk : parse fuel d bs with
        | ok p =>
          obtain ⟨k, r1⟩ := p
          simp only [hk] at h
          cases hv : parse fuel d r1 with
          | ok p2 =>
            obtain ⟨v, r2⟩ := p2
            simp only [hv] at h
            cases hc : parsePairsIndef fuel d r2 with
            | ok q =>
              obtain ⟨ys, r3⟩ := q
              simp [hc] at h; obtain ⟨rfl, rfl⟩ := h
              have h1 := ihv _ _ _ _ hk; have h2 := ihv _ _ _ _ hv; have h3 := ihpi _ _ _ _ hc
              simp only [PNormalP, depthOfP]; exact ⟨⟨h1.1, h2.1, h3.1⟩, by omega⟩
            | err => simp [hc] at h
            | oof => simp [hc] at h
          | err => simp [hv] at h
          | oof => simp [hv] at h
        | err => simp [hk] at h
        | oof => simp [hk] at h

/-- L7. -/
theorem parse_output (fuel d : Nat) (bs : Bytes) (v : Value) (r : Bytes) (h : parse fuel d bs = .ok (v, r)) :
    PNormal v ∧ depthOf v ≤ d := (outOK fuel).1 d bs v r h

/-! ### from the parser's guarantees to `Normal` -/

theorem length_le_sizeL (xs : List Value) : xs.length ≤ Value.sizeL xs := by
  induction xs with
  | nil => simp [Value.sizeL]
  | cons x xs ih => have := size_pos x; simp only [List.length_cons, Value.sizeL]; omega

theorem length_le_sizeP (kvs : List (Value × Value)) : kvs.length ≤ Value.sizeP kvs := by
  induction kvs with
  | nil => simp [Value.sizeP]
  | cons kv kvs ih => obtain ⟨k, v⟩ := kv; have := size_pos k; simp only [List.length_cons, Value.sizeP]; omega

mutual
theorem normal_of (v : Value) (hp : PNormal v) (hs : NoSB v) (hz : v.size < 2 ^ 64) : Normal v := by
  cases v with
  | int n => simpa [Normal, PNormal] using hp
  | bytes b => simp only [Value.size] at hz; simp only [Normal]; omega
  | text b => simp only [Value.size] at hz; simp only [PNormal] at hp; simp only [Normal]; exact ⟨by omega, hp⟩
  | float f => simp [Normal]
  | bool b => simp [Normal]
  | null => simp [Normal]
  | tag t w =>
    simp only [PNormal] at hp; simp only [NoSB] at hs; simp only [Value.size] at hz
    simp only [Normal]; exact ⟨hp.1, hs.1, normal_of w hp.2 hs.2 (by omega)⟩
  | array xs =>
    simp only [PNormal] at hp; simp only [NoSB] at hs; simp only [Value.size] at hz
    have := length_le_sizeL xs
    simp only [Normal]; exact ⟨by omega, normalL_of xs hp hs (by omega)⟩
  | map kvs =>
    simp only [PNormal] at hp; simp only [NoSB] at hs; simp only [Value.size] at hz
    have := length_le_sizeP kvs
    simp only [Normal]; exact ⟨by omega, normalP_of kvs hp hs (by omega)⟩
theorem normalL_of (xs : List Value) (hp : PNormalL xs) (hs : NoSBL xs) (hz : Value.sizeL xs < 2 ^ 64) : NormalL xs := by
  cases xs with
  | nil => simp [NormalL]
  | cons x xs =>
    simp only [PNormalL] at hp; simp only [NoSBL] at hs; simp only [Value.sizeL] at hz
    simp only [NormalL]; exact ⟨normal_of x hp.1 hs.1 (by omega), normalL_of xs hp.2 hs.2 (by omega)⟩
theorem normalP_of (kvs : List (Value × Value)) (hp : PNormalP kvs) (hs : NoSBP kvs) (hz : Value.sizeP kvs < 2 ^ 64) : NormalP kvs := by
  cases kvs with
  | nil => simp [NormalP]
  | cons kv kvs =>
    obtain ⟨k, v⟩ := kv
    simp only [PNormalP] at hp; simp only [NoSBP] at hs; simp only [Value.sizeP] at hz
    simp only [NormalP]; exact ⟨normal_of k hp.1 hs.1 (by omega), normal_of v hp.2.1 hs.2.1 (by omega), normalP_of kvs hp.2.2 hs.2.2 (by omega)⟩
end

end Coset.Cbor

namespace Coset
open Cbor

/-- every value `read_to_value` accepts from an input shorter than 2^64 bytes (any Rust slice is) that carries no short bignum tag
    other than the canonical big form is `Normal` and within the recursion budget: the serializer's output for it parses back to it. -/
theorem readToValue_normal (bs : Bytes) (v : Value) (h : readToValue bs = .ok v) (hl : bs.length < 2 ^ 64) (hs : NoSB v) :
    Normal v ∧ depthOf v ≤ recursionLimit := by
  have hz := readToValue_size bs v h
  unfold readToValue at h
  cases hr : fromReader bs with
  | ok p =>
    obtain ⟨w, r⟩ := p
    simp only [hr] at h
    split at h
    · simp at h; subst h
      have := parse_output _ _ _ _ _ hr
      exact ⟨normal_of w this.1 hs (by omega), this.2⟩
    · simp at h
  | err => simp [hr] at h
  | oof => simp [hr] at h

/-- byte-level fixed point of the CBOR layer itself (`impl CborSerializable for Value`): an accepted input without the D3 form
    re-encodes to bytes that decode to the same value. -/
theorem readToValue_enc_of_parsed (bs : Bytes) (v : Value) (h : readToValue bs = .ok v) (hl : bs.length < 2 ^ 64) (hs : NoSB v) :
    readToValue (enc v) = .ok v := by
  obtain ⟨hn, hd⟩ := readToValue_normal bs v h hl hs
  exact readToValue_enc v hn hd

end Coset
