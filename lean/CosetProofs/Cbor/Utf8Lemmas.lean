/-
  UTF-8 validity is closed under concatenation (the segments of an indefinite-length text string are validated one by one).
-/
import CosetModel.Utf8
namespace Coset.Utf8
theorem valid_append_aux : ∀ (n : Nat) (a b : Bytes), a.length ≤ n → valid a = true → valid b = true → valid (a ++ b) = true := by
  intro n
  induction n with
  | zero => intro a b hl ha hb; cases a with
    | nil => simpa using hb
    | cons x xs => simp at hl
  | succ n ih =>
    intro a b hl ha hb
    cases a with
    | nil => simpa using hb
    | cons b0 rest =>
      rw [valid.eq_def] at ha; simp only [] at ha
      rw [List.cons_append, valid.eq_def]; simp only []
      simp only [List.length_cons] at hl
      split at ha
      · rename_i hc; rw [if_pos hc]; exact ih rest b (by omega) ha hb
      · rename_i hn0; rw [if_neg hn0]
        split at ha
        · rename_i hc; rw [if_pos hc]
          cases rest with
          | nil => simp at ha
          | cons b1 r0 =>
            simp only [List.cons_append, List.length_cons, Bool.and_eq_true] at ha hl ⊢
            exact ⟨ha.1, ih r0 b (by omega) ha.2 hb⟩
        · rename_i hn1; rw [if_neg hn1]
          split at ha
          · rename_i hc; rw [if_pos hc]
            cases rest with
            | nil => simp at ha
            | cons b1 r0 =>
              cases r0 with
              | nil => simp at ha
              | cons b2 r1 =>
                simp only [List.cons_append, List.length_cons, Bool.and_eq_true] at ha hl ⊢
                exact ⟨ha.1, ih r1 b (by omega) ha.2 hb⟩
          · rename_i hn2; rw [if_neg hn2]
            split at ha
            · rename_i hc; rw [if_pos hc]
              cases rest with
              | nil => simp at ha
              | cons b1 r0 =>
                cases r0 with
                | nil => simp at ha
                | cons b2 r1 =>
                  simp only [List.cons_append, List.length_cons, Bool.and_eq_true] at ha hl ⊢
                  exact ⟨ha.1, ih r1 b (by omega) ha.2 hb⟩
            · rename_i hn3; rw [if_neg hn3]
              split at ha
              · rename_i hc; rw [if_pos hc]
                cases rest with
                | nil => simp at ha
                | cons b1 r0 =>
                  cases r0 with
                  | nil => simp at ha
                  | cons b2 r1 =>
                    simp only [List.cons_append, List.length_cons, Bool.and_eq_true] at ha hl ⊢
                    exact ⟨ha.1, ih r1 b (by omega) ha.2 hb⟩
              · rename_i hn4; rw [if_neg hn4]
                split at ha
                · rename_i hc; rw [if_pos hc]
                  cases rest with
                  | nil => simp at ha
                  | cons b1 r0 =>
                    cases r0 with
                    | nil => simp at ha
                    | cons b2 r1 =>
                      cases r1 with
                      | nil => simp at ha
                      | cons b3 r2 =>
                        simp only [List.cons_append, List.length_cons, Bool.and_eq_true] at ha hl ⊢
                        exact ⟨ha.1, ih r2 b (by omega) ha.2 hb⟩
                · rename_i hn5; rw [if_neg hn5]
                  split at ha
                  · rename_i hc; rw [if_pos hc]
                    cases rest with
                    | nil => simp at ha
                    | cons b1 r0 =>
                      cases r0 with
                      | nil => simp at ha
                      | cons b2 r1 =>
                        cases r1 with
                        | nil => simp at ha
                        | cons b3 r2 =>
                          simp only [List.cons_append, List.length_cons, Bool.and_eq_true] at ha hl ⊢
                          exact ⟨ha.1, ih r2 b (by omega) ha.2 hb⟩
                  · rename_i hn6; rw [if_neg hn6]
                    split at ha
                    · rename_i hc; rw [if_pos hc]
                      cases rest with
                      | nil => simp at ha
                      | cons b1 r0 =>
                        cases r0 with
                        | nil => simp at ha
                        | cons b2 r1 =>
                          cases r1 with
                          | nil => simp at ha
                          | cons b3 r2 =>
                            simp only [List.cons_append, List.length_cons, Bool.and_eq_true] at ha hl ⊢
                            exact ⟨ha.1, ih r2 b (by omega) ha.2 hb⟩
                    · simp at ha

theorem valid_append (a b : Bytes) (ha : valid a = true) (hb : valid b = true) : valid (a ++ b) = true :=
  valid_append_aux a.length a b (Nat.le_refl _) ha hb
end Coset.Utf8
