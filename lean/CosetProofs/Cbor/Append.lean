/-
  L3: the parser reads exactly one item — what follows the item is returned untouched, whatever it is —
  and more fuel never changes a result.
-/
import CosetProofs.Cbor.Roundtrip
namespace Coset.Cbor
open Coset

theorem take_app (r s : Bytes) (k : Nat) (h : ¬ r.length < k) : (r ++ s).take k = r.take k :=
  List.take_append_of_le_length (by omega)
theorem drop_app (r s : Bytes) (k : Nat) (h : ¬ r.length < k) : (r ++ s).drop k = r.drop k ++ s :=
  List.drop_append_of_le_length (by omega)
theorem len_app (r s : Bytes) (k : Nat) (h : ¬ r.length < k) : ¬ (r ++ s).length < k := by
  simp only [List.length_append]; omega

theorem pullArg_append (m : Nat) (r r' s : Bytes) (a : Option (Nat × Nat))
    (h : pullArg m r = some (a, r')) : pullArg m (r ++ s) = some (a, r' ++ s) := by
  unfold pullArg at h ⊢
  by_cases h1 : m < 24
  · simp only [h1, if_true] at h ⊢; simp at h; obtain ⟨rfl, rfl⟩ := h; rfl
  · simp only [h1, if_false] at h ⊢
    by_cases h2 : m = 24
    · simp only [h2, if_true] at h ⊢
      by_cases hl : r.length < 1
      · simp [hl] at h
      · simp only [hl, if_false] at h; simp at h; obtain ⟨rfl, rfl⟩ := h
        rw [if_neg (len_app r s 1 hl), take_app r s 1 hl, drop_app r s 1 hl]; simp
    · simp only [h2, if_false] at h ⊢
      by_cases h3 : m = 25
      · simp only [h3, if_true] at h ⊢
        by_cases hl : r.length < 2
        · simp [hl] at h
        · simp only [hl, if_false] at h; simp at h; obtain ⟨rfl, rfl⟩ := h
          rw [if_neg (len_app r s 2 hl), take_app r s 2 hl, drop_app r s 2 hl]
      · simp only [h3, if_false] at h ⊢
        by_cases h4 : m = 26
        · simp only [h4, if_true] at h ⊢
          by_cases hl : r.length < 4
          · simp [hl] at h
          · simp only [hl, if_false] at h; simp at h; obtain ⟨rfl, rfl⟩ := h
            rw [if_neg (len_app r s 4 hl), take_app r s 4 hl, drop_app r s 4 hl]
        · simp only [h4, if_false] at h ⊢
          by_cases h5 : m = 27
          · simp only [h5, if_true] at h ⊢
            by_cases hl : r.length < 8
            · simp [hl] at h
            · simp only [hl, if_false] at h; simp at h; obtain ⟨rfl, rfl⟩ := h
              rw [if_neg (len_app r s 8 hl), take_app r s 8 hl, drop_app r s 8 hl]
          · simp only [h5, if_false] at h ⊢
            by_cases h6 : m = 31
            · simp only [h6, if_true] at h ⊢; simp at h; obtain ⟨rfl, rfl⟩ := h; rfl
            · simp [h6] at h

theorem pull_append (bs r s : Bytes) (hd : Hd) (h : pull bs = some (hd, r)) : pull (bs ++ s) = some (hd, r ++ s) := by
  cases bs with
  | nil => simp [pull] at h
  | cons b tail =>
    simp only [List.cons_append, pull] at h ⊢
    cases hp : pullArg (b.toNat % 32) tail with
    | none => simp [hp] at h
    | some p =>
      obtain ⟨a, r0⟩ := p
      rw [pullArg_append _ _ _ s _ hp]
      simp only [hp] at h
      simp only []
      split at h
      all_goals first
        | (simp at h; obtain ⟨rfl, rfl⟩ := h; rfl)
        | (simp at h)
        | (split at h <;> (try split at h) <;> (try split at h) <;> simp at h <;> obtain ⟨rfl, rfl⟩ := h <;> simp_all)

theorem smallBytesPeek_append_some (rest s r2 : Bytes) (len : Nat) (h : smallBytesPeek rest = some (len, r2)) :
    smallBytesPeek (rest ++ s) = some (len, r2 ++ s) := by
  unfold smallBytesPeek at h ⊢
  cases hp : pull rest with
  | none => simp [hp] at h
  | some p =>
    obtain ⟨hd, r⟩ := p
    rw [pull_append _ _ s _ hp]
    simp only [hp] at h
    cases hd with
    | bytes l =>
      cases l with
      | none => simp at h
      | some l =>
        simp only [] at h ⊢
        by_cases hl : l ≤ 16
        · simp only [hl, if_true] at h ⊢; simp at h; obtain ⟨rfl, rfl⟩ := h; rfl
        · simp [hl] at h
    | _ => simp at h

theorem smallBytesPeek_append_none (rest s r : Bytes) (hd : Hd) (hp : pull rest = some (hd, r))
    (h : smallBytesPeek rest = none) : smallBytesPeek (rest ++ s) = none := by
  unfold smallBytesPeek at h ⊢
  rw [pull_append _ _ s _ hp]
  simp only [hp] at h
  cases hd with
  | bytes l =>
    cases l with
    | none => rfl
    | some l =>
      simp only [] at h ⊢
      by_cases hl : l ≤ 16
      · simp [hl] at h
      · simp [hl]
  | _ => rfl

end Coset.Cbor
