/-
  The fuel argument of the parser model is irrelevant once it exceeds `2·|input| + 2`: the result — value, error, everything — is the
  same at any larger fuel.  (With `parse_no_oof` this makes the fuel invisible: it exists for Lean's termination checker only.)
-/
import CosetProofs.Cbor.Weight
namespace Coset.Cbor
open Coset

def FuelEq (fuel : Nat) : Prop :=
  (∀ d bs, 2 * bs.length + 2 ≤ fuel → parse fuel d bs = parse (fuel + 1) d bs) ∧
  (∀ d n bs, 2 * bs.length + 3 ≤ fuel → parseN fuel d n bs = parseN (fuel + 1) d n bs) ∧
  (∀ d bs, 2 * bs.length + 3 ≤ fuel → parseIndef fuel d bs = parseIndef (fuel + 1) d bs) ∧
  (∀ d n bs, 2 * bs.length + 3 ≤ fuel → parsePairsN fuel d n bs = parsePairsN (fuel + 1) d n bs) ∧
  (∀ d bs, 2 * bs.length + 3 ≤ fuel → parsePairsIndef fuel d bs = parsePairsIndef (fuel + 1) d bs) ∧
  (∀ t k bs acc, bs.length + 1 ≤ fuel → chunks fuel t k bs acc = chunks (fuel + 1) t k bs acc)

theorem chunks_fuelEq (fuel : Nat)
    (ih : ∀ t k bs acc, bs.length + 1 ≤ fuel → chunks fuel t k bs acc = chunks (fuel + 1) t k bs acc) :
    ∀ t k bs acc, bs.length + 1 ≤ fuel + 1 → chunks (fuel + 1) t k bs acc = chunks (fuel + 2) t k bs acc := by
  intro t k bs acc hf
  rw [chunks, chunks]
  cases hp : pull bs with
  | none => rfl
  | some p =>
    obtain ⟨hd, rest⟩ := p
    have hl := pull_length _ _ _ hp
    cases hd with
    | brk =>
      simp only []
      split
      · rfl
      · exact ih _ _ _ _ (by omega)
    | bytes len =>
      simp only []
      split
      · rfl
      · cases len with
        | none => exact ih _ _ _ _ (by omega)
        | some n =>
          simp only []
          split
          · rfl
          · exact ih _ _ _ _ (by simp only [List.length_drop]; omega)
    | text len =>
      simp only []
      split
      · rfl
      · cases len with
        | none => exact ih _ _ _ _ (by omega)
        | some n =>
          simp only []
          split
          · rfl
          · split
            · rfl
            · exact ih _ _ _ _ (by simp only [List.length_drop]; omega)
    | _ => rfl

theorem fuelEq : ∀ fuel, FuelEq fuel := by
  intro fuel
  induction fuel with
  | zero => refine ⟨?_, ?_, ?_, ?_, ?_, ?_⟩ <;> intros <;> omega
  | succ fuel ih =>
    obtain ⟨ihv, ihn, ihi, ihpn, ihpi, ihc⟩ := ih
    have W := weightOK (fuel + 1)
    refine ⟨?_, ?_, ?_, ?_, ?_, chunks_fuelEq fuel ihc⟩
    · intro d bs hf
      rw [parse, parse]
      cases hp : pull bs with
      | none => rfl
      | some p =>
        obtain ⟨hd, rest⟩ := p
        have hl := pull_length _ _ _ hp
        cases hd with
        | bytes len =>
          cases len with
          | some n => rfl
          | none => simp only []; rw [ihc _ _ _ _ (by omega)]
        | text len =>
          cases len with
          | some n => rfl
          | none => simp only []; rw [ihc _ _ _ _ (by omega)]
        | array len =>
          cases len with
          | some n => simp only []; rw [ihn _ _ _ (by omega)]
          | none => simp only []; rw [ihi _ _ (by omega)]
        | map len =>
          cases len with
          | some n => simp only []; rw [ihpn _ _ _ (by omega)]
          | none => simp only []; rw [ihpi _ _ (by omega)]
        | tag t =>
          simp only []
          cases hpk : (if t = 2 ∨ t = 3 then smallBytesPeek rest else none) with
          | some p => rfl
          | none => simp only []; rw [ihv _ _ (by omega)]
        | _ => rfl
    · intro d n bs hf
      cases n with
      | zero => simp [parseN]
      | succ n =>
        rw [parseN, parseN, ihv d bs (by omega)]
        cases hv : parse (fuel + 1) d bs with
        | ok p =>
          obtain ⟨v, r1⟩ := p
          have hw := W.1 _ _ _ _ hv; have := size_pos v
          simp only []
          rw [ihn d n r1 (by omega)]
        | err => rfl
        | oof => rfl
    · intro d bs hf
      rw [parseIndef, parseIndef]
      split
      · rfl
      · rw [ihv d bs (by omega)]
        cases hv : parse (fuel + 1) d bs with
        | ok p =>
          obtain ⟨v, r1⟩ := p
          have hw := W.1 _ _ _ _ hv; have := size_pos v
          simp only []
          rw [ihi d r1 (by omega)]
        | err => rfl
        | oof => rfl
    · intro d n bs hf
      cases n with
      | zero => simp [parsePairsN]
      | succ n =>
        rw [parsePairsN, parsePairsN, ihv d bs (by omega)]
        cases hk : parse (fuel + 1) d bs with
        | ok p =>
          obtain ⟨k, r1⟩ := p
          have hw := W.1 _ _ _ _ hk; have := size_pos k
          simp only []
          rw [ihv d r1 (by omega)]
          cases hv : parse (fuel + 1) d r1 with
          | ok p2 =>
            obtain ⟨v, r2⟩ := p2
            have hw2 := W.1 _ _ _ _ hv; have := size_pos v
            simp only []
            rw [ihpn d n r2 (by omega)]
          | err => rfl
          | oof => rfl
        | err => rfl
        | oof => rfl
    · intro d bs hf
      rw [parsePairsIndef, parsePairsIndef]
      split
      · rfl
      · rw [ihv d bs (by omega)]
        cases hk : parse (fuel + 1) d bs with
        | ok p =>
          obtain ⟨k, r1⟩ := p
          have hw := W.1 _ _ _ _ hk; have := size_pos k
          simp only []
          rw [ihv d r1 (by omega)]
          cases hv : parse (fuel + 1) d r1 with
          | ok p2 =>
            obtain ⟨v, r2⟩ := p2
            have hw2 := W.1 _ _ _ _ hv; have := size_pos v
            simp only []
            rw [ihpi d r2 (by omega)]
          | err => rfl
          | oof => rfl
        | err => rfl
        | oof => rfl

/-- the result is the same at every fuel above `2·|bs| + 2`. -/
theorem parse_fuel_irrelevant (d : Nat) (bs : Bytes) : ∀ (f f' : Nat), 2 * bs.length + 2 ≤ f → f ≤ f' → parse f d bs = parse f' d bs := by
  intro f f' hf hle
  obtain ⟨k, rfl⟩ : ∃ k, f' = f + k := ⟨f' - f, by omega⟩
  clear hle
  induction k with
  | zero => rfl
  | succ k ih => rw [ih]; exact (fuelEq (f + k)).1 d bs (by omega)

/-- `from_reader` as a function of the input alone: any sufficient fuel gives its result. -/
theorem fromReader_eq_parse (bs : Bytes) (f : Nat) (hf : 2 * bs.length + 2 ≤ f) : fromReader bs = parse f recursionLimit bs := by
  unfold fromReader
  by_cases h : fuelFor bs ≤ f
  · exact parse_fuel_irrelevant _ bs _ _ (by unfold fuelFor; omega) h
  · exact (parse_fuel_irrelevant _ bs _ _ hf (by omega)).symm

end Coset.Cbor
