/-
  L0: the head parser inverts the head encoder (every major type, every argument < 2^64).
-/
import CosetModel.Parse
namespace Coset.Cbor

theorem beVal_append_single (xs : Bytes) (b : UInt8) : beVal (xs ++ [b]) = beVal xs * 256 + b.toNat := by
  simp [beVal, List.foldl_append]

theorem beVal_beN (k n : Nat) (h : n < 256 ^ k) : beVal (beN k n) = n := by
  induction k generalizing n with
  | zero => simp at h; subst h; simp [beN, beVal]
  | succ k ih =>
    rw [beN, beVal_append_single, ih (n / 256) (by rw [Nat.div_lt_iff_lt_mul (by decide)]; rw [Nat.pow_succ] at h; exact h)]
    simp [UInt8.toNat_ofNat']
    omega

@[simp] theorem beN_length (k n : Nat) : (beN k n).length = k := by
  induction k generalizing n with
  | zero => simp [beN]
  | succ k ih => simp [beN, ih]

/-- the head a given major type and argument decode to. -/
def hdOf (m n : Nat) : Hd :=
  match m with
  | 0 => .pos n | 1 => .neg n | 2 => .bytes (some n) | 3 => .text (some n)
  | 4 => .array (some n) | 5 => .map (some n) | _ => .tag n

theorem pullArg_lt24 (n : Nat) (h : n < 24) (rest : Bytes) : pullArg n rest = some (some (n, 0), rest) := by
  simp [pullArg, h]

theorem pullArg_wide (minor k n : Nat) (hk : (minor = 24 ∧ k = 1) ∨ (minor = 25 ∧ k = 2) ∨ (minor = 26 ∧ k = 4) ∨ (minor = 27 ∧ k = 8))
    (hn : n < 256 ^ k) (rest : Bytes) : pullArg minor (beN k n ++ rest) = some (some (n, k), rest) := by
  have ht : (beN k n ++ rest).take k = beN k n := List.take_left' (beN_length k n)
  have hd : (beN k n ++ rest).drop k = rest := List.drop_left' (beN_length k n)
  have hl : ¬ (beN k n ++ rest).length < k := by simp
  have hv := beVal_beN k n hn
  rcases hk with ⟨h1, h2⟩ | ⟨h1, h2⟩ | ⟨h1, h2⟩ | ⟨h1, h2⟩ <;> subst h1 <;> subst h2 <;>
    simp only [pullArg] <;> simp only [ht, hd, hv, hl] <;> simp

theorem pull_of_arg (b : UInt8) (m minor : Nat) (hm : m < 7) (hb1 : b.toNat / 32 = m) (hb2 : b.toNat % 32 = minor)
    (tail rest : Bytes) (n w : Nat) (h : pullArg minor tail = some (some (n, w), rest)) :
    pull (b :: tail) = some (hdOf m n, rest) := by
  simp only [pull, hb1, hb2, h]
  have : m = 0 ∨ m = 1 ∨ m = 2 ∨ m = 3 ∨ m = 4 ∨ m = 5 ∨ m = 6 := by omega
  rcases this with h | h | h | h | h | h | h <;> subst h <;> simp [hdOf]

theorem pull_encHead (m n : Nat) (hm : m < 7) (hn : n < 2 ^ 64) (rest : Bytes) :
    pull (encHead m n ++ rest) = some (hdOf m n, rest) := by
  unfold encHead
  split
  · next h =>
    exact pull_of_arg _ m n hm (by simp [UInt8.toNat_ofNat'] <;> omega) (by simp [UInt8.toNat_ofNat'] <;> omega) _ _ n 0 (pullArg_lt24 n h rest)
  · split
    · next h0 h =>
      exact pull_of_arg _ m 24 hm (by simp [UInt8.toNat_ofNat'] <;> omega) (by simp [UInt8.toNat_ofNat'] <;> omega) _ _ n 1
        (pullArg_wide 24 1 n (by simp) (by omega) rest)
    · split
      · next h0 h00 h =>
        exact pull_of_arg _ m 25 hm (by simp [UInt8.toNat_ofNat'] <;> omega) (by simp [UInt8.toNat_ofNat'] <;> omega) _ _ n 2
          (pullArg_wide 25 2 n (by simp) (by omega) rest)
      · split
        · next h0 h00 h000 h =>
          exact pull_of_arg _ m 26 hm (by simp [UInt8.toNat_ofNat'] <;> omega) (by simp [UInt8.toNat_ofNat'] <;> omega) _ _ n 4
            (pullArg_wide 26 4 n (by simp) (by omega) rest)
        · exact pull_of_arg _ m 27 hm (by simp [UInt8.toNat_ofNat'] <;> omega) (by simp [UInt8.toNat_ofNat'] <;> omega) _ _ n 8
            (pullArg_wide 27 8 n (by simp) (by omega) rest)


/-! ### minimal big-endian representations (ciborium's bignum conversions) -/

theorem minBytesF_length (f : Nat) : ∀ (n k : Nat), n < 256 ^ k → (minBytesF f n).length ≤ k := by
  induction f with
  | zero => intro n k _; simp [minBytesF]
  | succ f ih =>
    intro n k h
    simp only [minBytesF]
    split
    · simp
    · next hn =>
      cases k with
      | zero => simp at h; omega
      | succ k =>
        have : n / 256 < 256 ^ k := by
          rw [Nat.div_lt_iff_lt_mul (by decide)]; rw [Nat.pow_succ] at h; exact h
        have := ih (n / 256) k this
        simp only [List.length_append, List.length_singleton]; omega

theorem foldl_be_lt (bs : Bytes) : ∀ a : Nat, bs.foldl (fun acc b => acc * 256 + b.toNat) a < (a + 1) * 256 ^ bs.length := by
  induction bs with
  | nil => intro a; simp
  | cons b bs ih =>
    intro a
    simp only [List.foldl_cons, List.length_cons]
    have h1 := ih (a * 256 + b.toNat)
    have hb := b.toNat_lt
    have h2 : (a * 256 + b.toNat + 1) * 256 ^ bs.length ≤ ((a + 1) * 256) * 256 ^ bs.length :=
      Nat.mul_le_mul_right _ (by omega)
    rw [Nat.pow_succ, Nat.mul_comm (256 ^ bs.length) 256, ← Nat.mul_assoc]
    omega

theorem beVal_lt (bs : Bytes) : beVal bs < 256 ^ bs.length := by
  have := foldl_be_lt bs 0
  simpa [beVal] using this

theorem minBytes_beVal_length (bs : Bytes) : (minBytes (beVal bs)).length ≤ bs.length :=
  minBytesF_length 16 _ _ (beVal_lt bs)


theorem beVal_minBytesF (f : Nat) : ∀ n, n < 256 ^ f → beVal (minBytesF f n) = n := by
  induction f with
  | zero => intro n h; simp at h; subst h; simp [minBytesF, beVal]
  | succ f ih =>
    intro n h
    simp only [minBytesF]
    split
    · next h0 => subst h0; simp [beVal]
    · rw [beVal_append_single, ih (n / 256) (by rw [Nat.div_lt_iff_lt_mul (by decide)]; rw [Nat.pow_succ] at h; exact h)]
      simp only [UInt8.toNat_ofNat']
      omega

theorem beVal_minBytes (n : Nat) (h : n < 2 ^ 128) : beVal (minBytes n) = n :=
  beVal_minBytesF 16 n (by have : (256 : Nat) ^ 16 = 2 ^ 128 := by decide
                           omega)

theorem minBytes_length_le (n : Nat) (h : n < 2 ^ 128) : (minBytes n).length ≤ 16 :=
  minBytesF_length 16 n 16 (by have : (256 : Nat) ^ 16 = 2 ^ 128 := by decide
                               omega)

end Coset.Cbor
