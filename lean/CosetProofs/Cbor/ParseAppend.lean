/-
  L3 (main statement): a successful parse is unaffected by appended bytes and by extra fuel.
-/
import CosetProofs.Cbor.Append
namespace Coset.Cbor
open Coset

/-- what "appending `s` and raising the fuel keeps the result" means for each parser function. -/
def AppendOK (fuel : Nat) : Prop :=
  (∀ d bs v r, parse fuel d bs = .ok (v, r) → ∀ s f' d', fuel ≤ f' → d ≤ d' → parse f' d' (bs ++ s) = .ok (v, r ++ s)) ∧
  (∀ d n bs xs r, parseN fuel d n bs = .ok (xs, r) → ∀ s f' d', fuel ≤ f' → d ≤ d' → parseN f' d' n (bs ++ s) = .ok (xs, r ++ s)) ∧
  (∀ d bs xs r, parseIndef fuel d bs = .ok (xs, r) → ∀ s f' d', fuel ≤ f' → d ≤ d' → parseIndef f' d' (bs ++ s) = .ok (xs, r ++ s)) ∧
  (∀ d n bs xs r, parsePairsN fuel d n bs = .ok (xs, r) → ∀ s f' d', fuel ≤ f' → d ≤ d' → parsePairsN f' d' n (bs ++ s) = .ok (xs, r ++ s)) ∧
  (∀ d bs xs r, parsePairsIndef fuel d bs = .ok (xs, r) → ∀ s f' d', fuel ≤ f' → d ≤ d' → parsePairsIndef f' d' (bs ++ s) = .ok (xs, r ++ s)) ∧
  (∀ t k bs acc b r, chunks fuel t k bs acc = .ok (b, r) → ∀ s f', fuel ≤ f' → chunks f' t k (bs ++ s) acc = .ok (b, r ++ s))

theorem chunks_append (fuel : Nat)
    (ih : ∀ t k bs acc b r, chunks fuel t k bs acc = .ok (b, r) → ∀ s f', fuel ≤ f' → chunks f' t k (bs ++ s) acc = .ok (b, r ++ s)) :
    ∀ t k bs acc b r, chunks (fuel + 1) t k bs acc = .ok (b, r) → ∀ s f', fuel + 1 ≤ f' → chunks f' t k (bs ++ s) acc = .ok (b, r ++ s) := by
  intro t k bs acc b r h s f' hle
  obtain ⟨f, rfl⟩ : ∃ f, f' = f + 1 := ⟨f' - 1, by omega⟩
  rw [chunks] at h ⊢
  cases hp : pull bs with
  | none => simp [hp] at h
  | some p =>
    obtain ⟨hd, rest⟩ := p
    rw [pull_append _ _ s _ hp]
    simp only [hp] at h
    cases hd with
    | brk =>
      simp only [] at h ⊢
      by_cases hk : k ≤ 1
      · simp only [hk, if_true] at h ⊢; simp at h; obtain ⟨rfl, rfl⟩ := h; rfl
      · simp only [hk, if_false] at h ⊢; exact ih _ _ _ _ _ _ h s f (by omega)
    | bytes len =>
      simp only [] at h ⊢
      cases t with
      | true => simp at h
      | false =>
        simp only [Bool.false_eq_true, if_false] at h ⊢
        cases len with
        | none => exact ih _ _ _ _ _ _ h s f (by omega)
        | some n =>
          simp only [] at h ⊢
          by_cases hl : rest.length < n
          · simp [hl] at h
          · simp only [hl, if_false] at h
            rw [if_neg (len_app rest s n hl), take_app rest s n hl, drop_app rest s n hl]
            exact ih _ _ _ _ _ _ h s f (by omega)
    | text len =>
      simp only [] at h ⊢
      cases t with
      | false => simp at h
      | true =>
        simp only [Bool.not_true, Bool.false_eq_true, if_false] at h ⊢
        cases len with
        | none => exact ih _ _ _ _ _ _ h s f (by omega)
        | some n =>
          simp only [] at h ⊢
          by_cases hl : rest.length < n
          · simp [hl] at h
          · simp only [hl, if_false] at h
            rw [if_neg (len_app rest s n hl), take_app rest s n hl, drop_app rest s n hl]
            by_cases hu : Utf8.valid (rest.take n) = true
            · simp only [hu, Bool.not_true, Bool.false_eq_true, if_false] at h ⊢
              exact ih _ _ _ _ _ _ h s f (by omega)
            · simp [hu] at h
    | _ => simp at h

end Coset.Cbor

namespace Coset.Cbor
open Coset

theorem parseN_append (fuel : Nat) (ih : AppendOK fuel) :
    ∀ d n bs xs r, parseN (fuel + 1) d n bs = .ok (xs, r) → ∀ s f' d', fuel + 1 ≤ f' → d ≤ d' → parseN f' d' n (bs ++ s) = .ok (xs, r ++ s) := by
  intro d n bs xs r h s f' d' hle hdd
  obtain ⟨f, rfl⟩ : ∃ f, f' = f + 1 := ⟨f' - 1, by omega⟩
  cases n with
  | zero => simp [parseN] at h ⊢; obtain ⟨rfl, rfl⟩ := h; simp
  | succ n =>
    rw [parseN] at h ⊢
    cases h1 : parse fuel d bs with
    | err => simp [h1] at h
    | oof => simp [h1] at h
    | ok p =>
      obtain ⟨v, r1⟩ := p
      simp only [h1] at h
      rw [ih.1 _ _ _ _ h1 s f d' (by omega) hdd]
      simp only []
      cases h2 : parseN fuel d n r1 with
      | err => simp [h2] at h
      | oof => simp [h2] at h
      | ok q =>
        obtain ⟨ys, r2⟩ := q
        simp only [h2] at h
        rw [ih.2.1 _ _ _ _ _ h2 s f d' (by omega) hdd]
        simp at h ⊢; obtain ⟨rfl, rfl⟩ := h; simp

theorem parsePairsN_append (fuel : Nat) (ih : AppendOK fuel) :
    ∀ d n bs xs r, parsePairsN (fuel + 1) d n bs = .ok (xs, r) → ∀ s f' d', fuel + 1 ≤ f' → d ≤ d' → parsePairsN f' d' n (bs ++ s) = .ok (xs, r ++ s) := by
  intro d n bs xs r h s f' d' hle hdd
  obtain ⟨f, rfl⟩ : ∃ f, f' = f + 1 := ⟨f' - 1, by omega⟩
  cases n with
  | zero => simp [parsePairsN] at h ⊢; obtain ⟨rfl, rfl⟩ := h; simp
  | succ n =>
    rw [parsePairsN] at h ⊢
    cases h1 : parse fuel d bs with
    | err => simp [h1] at h
    | oof => simp [h1] at h
    | ok p =>
      obtain ⟨k, r1⟩ := p
      simp only [h1] at h
      rw [ih.1 _ _ _ _ h1 s f d' (by omega) hdd]
      simp only []
      cases h2 : parse fuel d r1 with
      | err => simp [h2] at h
      | oof => simp [h2] at h
      | ok p2 =>
        obtain ⟨v, r2⟩ := p2
        simp only [h2] at h
        rw [ih.1 _ _ _ _ h2 s f d' (by omega) hdd]
        simp only []
        cases h3 : parsePairsN fuel d n r2 with
        | err => simp [h3] at h
        | oof => simp [h3] at h
        | ok q =>
          obtain ⟨ys, r3⟩ := q
          simp only [h3] at h
          rw [ih.2.2.2.1 _ _ _ _ _ h3 s f d' (by omega) hdd]
          simp at h ⊢; obtain ⟨rfl, rfl⟩ := h; simp

/-- `pull` succeeds on the input of a successful `parse`. -/
theorem pull_of_parse_ok (fuel d : Nat) (bs : Bytes) (v : Value) (r : Bytes) (h : parse fuel d bs = .ok (v, r)) :
    ∃ hd rest, pull bs = some (hd, rest) := by
  cases fuel with
  | zero => simp [parse] at h
  | succ fuel =>
    rw [parse] at h
    cases hp : pull bs with
    | none => simp [hp] at h
    | some p => exact ⟨p.1, p.2, rfl⟩

theorem ne_nil_of_parse_ok (fuel d : Nat) (bs : Bytes) (v : Value) (r : Bytes) (h : parse fuel d bs = .ok (v, r)) : bs ≠ [] := by
  obtain ⟨hd, rest, hp⟩ := pull_of_parse_ok _ _ _ _ _ h
  intro hb; subst hb; simp [pull] at hp

theorem head_append (bs s : Bytes) (h : bs ≠ []) : (bs ++ s).head? = bs.head? := by
  cases bs with
  | nil => exact absurd rfl h
  | cons b t => rfl

theorem parseIndef_append (fuel : Nat) (ih : AppendOK fuel) :
    ∀ d bs xs r, parseIndef (fuel + 1) d bs = .ok (xs, r) → ∀ s f' d', fuel + 1 ≤ f' → d ≤ d' → parseIndef f' d' (bs ++ s) = .ok (xs, r ++ s) := by
  intro d bs xs r h s f' d' hle hdd
  obtain ⟨f, rfl⟩ : ∃ f, f' = f + 1 := ⟨f' - 1, by omega⟩
  rw [parseIndef] at h ⊢
  by_cases hb : bs.head? = some 0xff
  · have hne : bs ≠ [] := by intro h0; subst h0; simp at hb
    simp only [hb, if_true] at h
    rw [head_append bs s hne]
    simp only [hb, if_true]
    simp at h; obtain ⟨rfl, rfl⟩ := h
    cases bs with
    | nil => exact absurd rfl hne
    | cons b t => rfl
  · simp only [hb, if_false] at h
    cases h1 : parse fuel d bs with
    | err => simp [h1] at h
    | oof => simp [h1] at h
    | ok p =>
      obtain ⟨v, r1⟩ := p
      have hne := ne_nil_of_parse_ok _ _ _ _ _ h1
      rw [head_append bs s hne]
      simp only [hb, if_false]
      simp only [h1] at h
      rw [ih.1 _ _ _ _ h1 s f d' (by omega) hdd]
      simp only []
      cases h2 : parseIndef fuel d r1 with
      | err => simp [h2] at h
      | oof => simp [h2] at h
      | ok q =>
        obtain ⟨ys, r2⟩ := q
        simp only [h2] at h
        rw [ih.2.2.1 _ _ _ _ h2 s f d' (by omega) hdd]
        simp at h ⊢; obtain ⟨rfl, rfl⟩ := h; simp

theorem parsePairsIndef_append (fuel : Nat) (ih : AppendOK fuel) :
    ∀ d bs xs r, parsePairsIndef (fuel + 1) d bs = .ok (xs, r) → ∀ s f' d', fuel + 1 ≤ f' → d ≤ d' → parsePairsIndef f' d' (bs ++ s) = .ok (xs, r ++ s) := by
  intro d bs xs r h s f' d' hle hdd
  obtain ⟨f, rfl⟩ : ∃ f, f' = f + 1 := ⟨f' - 1, by omega⟩
  rw [parsePairsIndef] at h ⊢
  by_cases hb : bs.head? = some 0xff
  · have hne : bs ≠ [] := by intro h0; subst h0; simp at hb
    simp only [hb, if_true] at h
    rw [head_append bs s hne]
    simp only [hb, if_true]
    simp at h; obtain ⟨rfl, rfl⟩ := h
    cases bs with
    | nil => exact absurd rfl hne
    | cons b t => rfl
  · simp only [hb, if_false] at h
    cases h1 : parse fuel d bs with
    | err => simp [h1] at h
    | oof => simp [h1] at h
    | ok p =>
      obtain ⟨k, r1⟩ := p
      have hne := ne_nil_of_parse_ok _ _ _ _ _ h1
      rw [head_append bs s hne]
      simp only [hb, if_false]
      simp only [h1] at h
      rw [ih.1 _ _ _ _ h1 s f d' (by omega) hdd]
      simp only []
      cases h2 : parse fuel d r1 with
      | err => simp [h2] at h
      | oof => simp [h2] at h
      | ok p2 =>
        obtain ⟨v, r2⟩ := p2
        simp only [h2] at h
        rw [ih.1 _ _ _ _ h2 s f d' (by omega) hdd]
        simp only []
        cases h3 : parsePairsIndef fuel d r2 with
        | err => simp [h3] at h
        | oof => simp [h3] at h
        | ok q =>
          obtain ⟨ys, r3⟩ := q
          simp only [h3] at h
          rw [ih.2.2.2.2.1 _ _ _ _ h3 s f d' (by omega) hdd]
          simp at h ⊢; obtain ⟨rfl, rfl⟩ := h; simp

end Coset.Cbor

namespace Coset.Cbor
open Coset

theorem parse_append_step (fuel : Nat) (ih : AppendOK fuel) :
    ∀ d bs v r, parse (fuel + 1) d bs = .ok (v, r) → ∀ s f' d', fuel + 1 ≤ f' → d ≤ d' → parse f' d' (bs ++ s) = .ok (v, r ++ s) := by
  intro d bs v r h s f' d' hle hdd
  obtain ⟨f, rfl⟩ : ∃ f, f' = f + 1 := ⟨f' - 1, by omega⟩
  have hf : fuel ≤ f := by omega
  rw [parse] at h ⊢
  cases hp : pull bs with
  | none => simp [hp] at h
  | some p =>
    obtain ⟨hd, rest⟩ := p
    rw [pull_append _ _ s _ hp]
    simp only [hp] at h
    cases hd with
    | pos n => simp at h ⊢; obtain ⟨rfl, rfl⟩ := h; simp
    | neg n => simp at h ⊢; obtain ⟨rfl, rfl⟩ := h; simp
    | float b => simp at h ⊢; obtain ⟨rfl, rfl⟩ := h; simp
    | brk => simp at h
    | simple n =>
      simp only [] at h ⊢
      by_cases h20 : n = 20
      · simp [h20] at h ⊢; obtain ⟨rfl, rfl⟩ := h; simp
      · by_cases h21 : n = 21
        · simp [h21] at h ⊢; obtain ⟨rfl, rfl⟩ := h; simp
        · by_cases h22 : n = 22 ∨ n = 23
          · simp [h20, h21, h22] at h ⊢; obtain ⟨rfl, rfl⟩ := h; simp
          · simp [h20, h21, h22] at h
    | bytes len =>
      cases len with
      | some n =>
        simp only [] at h ⊢
        by_cases hl : rest.length < n
        · simp [hl] at h
        · simp only [hl, if_false] at h
          rw [if_neg (len_app rest s n hl), take_app rest s n hl, drop_app rest s n hl]
          simp at h ⊢; obtain ⟨rfl, rfl⟩ := h; simp
      | none =>
        simp only [] at h ⊢
        cases hc : chunks fuel false 1 rest [] with
        | err => simp [hc] at h
        | oof => simp [hc] at h
        | ok q =>
          obtain ⟨b, r1⟩ := q
          simp only [hc] at h
          rw [ih.2.2.2.2.2 _ _ _ _ _ _ hc s f hf]
          simp at h ⊢; obtain ⟨rfl, rfl⟩ := h; simp
    | text len =>
      cases len with
      | some n =>
        simp only [] at h ⊢
        by_cases hl : rest.length < n
        · simp [hl] at h
        · simp only [hl, if_false] at h
          rw [if_neg (len_app rest s n hl), take_app rest s n hl, drop_app rest s n hl]
          by_cases hu : Utf8.valid (rest.take n) = true
          · simp [hu] at h ⊢; obtain ⟨rfl, rfl⟩ := h; simp
          · simp [hu] at h
      | none =>
        simp only [] at h ⊢
        cases hc : chunks fuel true 1 rest [] with
        | err => simp [hc] at h
        | oof => simp [hc] at h
        | ok q =>
          obtain ⟨b, r1⟩ := q
          simp only [hc] at h
          rw [ih.2.2.2.2.2 _ _ _ _ _ _ hc s f hf]
          simp at h ⊢; obtain ⟨rfl, rfl⟩ := h; simp
    | array len =>
      cases len with
      | some n =>
        simp only [] at h ⊢
        by_cases hd0 : d = 0
        · simp [hd0] at h
        · have hd0' : d' ≠ 0 := by omega
          simp only [hd0, if_false] at h
          simp only [hd0', if_false]
          cases hc : parseN fuel (d - 1) n rest with
          | err => simp [hc] at h
          | oof => simp [hc] at h
          | ok q =>
            obtain ⟨xs, r1⟩ := q
            simp only [hc] at h
            rw [ih.2.1 _ _ _ _ _ hc s f (d' - 1) hf (by omega)]
            simp at h ⊢; obtain ⟨rfl, rfl⟩ := h; simp
      | none =>
        simp only [] at h ⊢
        by_cases hd0 : d = 0
        · simp [hd0] at h
        · have hd0' : d' ≠ 0 := by omega
          simp only [hd0, if_false] at h
          simp only [hd0', if_false]
          cases hc : parseIndef fuel (d - 1) rest with
          | err => simp [hc] at h
          | oof => simp [hc] at h
          | ok q =>
            obtain ⟨xs, r1⟩ := q
            simp only [hc] at h
            rw [ih.2.2.1 _ _ _ _ hc s f (d' - 1) hf (by omega)]
            simp at h ⊢; obtain ⟨rfl, rfl⟩ := h; simp
    | map len =>
      cases len with
      | some n =>
        simp only [] at h ⊢
        by_cases hd0 : d = 0
        · simp [hd0] at h
        · have hd0' : d' ≠ 0 := by omega
          simp only [hd0, if_false] at h
          simp only [hd0', if_false]
          cases hc : parsePairsN fuel (d - 1) n rest with
          | err => simp [hc] at h
          | oof => simp [hc] at h
          | ok q =>
            obtain ⟨xs, r1⟩ := q
            simp only [hc] at h
            rw [ih.2.2.2.1 _ _ _ _ _ hc s f (d' - 1) hf (by omega)]
            simp at h ⊢; obtain ⟨rfl, rfl⟩ := h; simp
      | none =>
        simp only [] at h ⊢
        by_cases hd0 : d = 0
        · simp [hd0] at h
        · have hd0' : d' ≠ 0 := by omega
          simp only [hd0, if_false] at h
          simp only [hd0', if_false]
          cases hc : parsePairsIndef fuel (d - 1) rest with
          | err => simp [hc] at h
          | oof => simp [hc] at h
          | ok q =>
            obtain ⟨xs, r1⟩ := q
            simp only [hc] at h
            rw [ih.2.2.2.2.1 _ _ _ _ hc s f (d' - 1) hf (by omega)]
            simp at h ⊢; obtain ⟨rfl, rfl⟩ := h; simp
    | tag t =>
      simp only [] at h ⊢
      cases hpk : (if t = 2 ∨ t = 3 then smallBytesPeek rest else none) with
      | some q =>
        obtain ⟨len, rest2⟩ := q
        have h23 : t = 2 ∨ t = 3 := by
          by_cases h23 : t = 2 ∨ t = 3
          · exact h23
          · simp [h23] at hpk
        simp only [h23, if_true] at hpk
        simp only [h23, if_true, hpk] at h
        rw [if_pos h23, smallBytesPeek_append_some _ s _ _ hpk]
        simp only []
        by_cases hl : rest2.length < len
        · simp [hl] at h
        · simp only [hl, if_false] at h
          rw [if_neg (len_app rest2 s len hl), take_app rest2 s len hl, drop_app rest2 s len hl]
          by_cases ht2 : t = 2
          · simp [ht2] at h ⊢; obtain ⟨rfl, rfl⟩ := h; simp
          · simp only [ht2, if_false] at h ⊢
            cases hn : fromNegU128 (beVal (rest2.take len)) with
            | none => simp [hn] at h
            | some w => simp [hn] at h ⊢; obtain ⟨rfl, rfl⟩ := h; simp
      | none =>
        simp only [hpk] at h
        by_cases hd0 : d = 0
        · simp [hd0] at h
        · simp only [hd0, if_false] at h
          cases hc : parse fuel (d - 1) rest with
          | err => simp [hc] at h
          | oof => simp [hc] at h
          | ok q =>
            obtain ⟨w, r1⟩ := q
            simp only [hc] at h
            obtain ⟨hd2, rest3, hp2⟩ := pull_of_parse_ok _ _ _ _ _ hc
            have hpk' : (if t = 2 ∨ t = 3 then smallBytesPeek (rest ++ s) else none) = none := by
              by_cases h23 : t = 2 ∨ t = 3
              · simp only [h23, if_true] at hpk ⊢
                exact smallBytesPeek_append_none _ s _ _ hp2 hpk
              · simp [h23]
            rw [hpk']
            have hd0' : d' ≠ 0 := by omega
            simp only [hd0', if_false]
            rw [ih.1 _ _ _ _ hc s f (d' - 1) hf (by omega)]
            simp at h ⊢; obtain ⟨rfl, rfl⟩ := h; simp

theorem appendOK : ∀ fuel, AppendOK fuel := by
  intro fuel
  induction fuel with
  | zero =>
    refine ⟨?_, ?_, ?_, ?_, ?_, ?_⟩
    · intro d bs v r h; simp [parse] at h
    · intro d n bs xs r h; simp [parseN] at h
    · intro d bs xs r h; simp [parseIndef] at h
    · intro d n bs xs r h; simp [parsePairsN] at h
    · intro d bs xs r h; simp [parsePairsIndef] at h
    · intro t k bs acc b r h; simp [chunks] at h
  | succ fuel ih =>
    exact ⟨parse_append_step fuel ih, parseN_append fuel ih, parseIndef_append fuel ih, parsePairsN_append fuel ih,
           parsePairsIndef_append fuel ih, chunks_append fuel ih.2.2.2.2.2⟩

/-- L3: what follows a parsed item does not influence it; more fuel does not change it. -/
theorem parse_append (fuel f' d d' : Nat) (bs s : Bytes) (v : Value) (r : Bytes)
    (h : parse fuel d bs = .ok (v, r)) (hf : fuel ≤ f') (hd : d ≤ d') : parse f' d' (bs ++ s) = .ok (v, r ++ s) :=
  (appendOK fuel).1 d bs v r h s f' d' hf hd

theorem fromReader_append (bs s : Bytes) (v : Value) (r : Bytes) (h : fromReader bs = .ok (v, r)) :
    fromReader (bs ++ s) = .ok (v, r ++ s) := by
  unfold fromReader at h ⊢
  exact parse_append _ _ _ _ _ _ _ _ h (by unfold fuelFor; simp only [List.length_append]; omega) (Nat.le_refl _)

end Coset.Cbor
