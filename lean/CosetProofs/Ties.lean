/-
  Ties T for the parts of the code that are *text* rather than tables: the inventories the extractor regenerates from /repo/src on
  every run (`CosetGen`) must equal the ones of the tree the model was transcribed from (`CosetRef/PinnedFacts.lean`).  A new
  `unwrap` / index / subtraction in non-test code, a changed `as` / `try_into`, a `CborSerializable` impl that overrides a provided
  method, a changed body of `from_slice` / `to_vec` / `read_to_value`, a changed builder macro or guard, a changed routing of context
  constants, a field dropped from `Header::is_empty`: each is *found but different*, and breaks the kernel-checked equality below —
  the theorems about the model then no longer speak about this source, whether or not any test input notices.
-/
import CosetGen.Iana
import CosetGen.Facts
import CosetGen.Inventory
import CosetRef.PinnedFacts
namespace Coset.Ties

/-- F8: the syntactic panic sites (unwrap / expect / panic! / assert! / unreachable! / remove / index / len-subtraction …) per function. -/
theorem panic_sites : Gen.panicSites = Pinned.panicSites := by rfl
/-- F8: the integer conversion sites (`try_into`, `try_from`, `as iN/uN`, `Value::from` / `.into()`) per function. -/
theorem narrowing_sites : Gen.narrowingSites = Pinned.narrowingSites := by rfl
/-- F9: every `impl (Tagged)CborSerializable` is empty apart from `TAG`; the provided method bodies and `read_to_value` are unchanged. -/
theorem serializable_impls : Gen.serializableImpls = Pinned.serializableImpls := by rfl
theorem default_bodies : Gen.defaultBodies = Pinned.defaultBodies := by rfl
/-- F10: which builder macro generates which method, the macro bodies, the hand-written builder methods (guards included). -/
theorem builder_uses : Gen.builderUses = Pinned.builderUses := by rfl
theorem builder_macros : Gen.builderMacros = Pinned.builderMacros := by rfl
theorem builder_methods : Gen.builderMethods = Pinned.builderMethods := by rfl
/-- F3: which context constant each helper hands to which structure function; the recipient-context guard sets. -/
theorem context_routing : Gen.contextRouting = Pinned.contextRouting := by rfl
theorem recipient_guards : Gen.recipientGuards = Pinned.recipientGuards := by rfl
/-- F7: the fields of `struct Header` and the tests `Header::is_empty` makes (all eight, one each). -/
theorem header_fields : Gen.headerFields = Pinned.headerFields := by rfl
theorem header_is_empty_tests : Gen.headerIsEmptyTests = Pinned.headerIsEmptyTests := by rfl
/-- F6: which field each positional `remove(i)` feeds, and the order in which `to_cbor_value` emits the fields. -/
def genRemoveFields := [Gen.CoseSignature_removeFields, Gen.CoseSign_removeFields, Gen.CoseSign1_removeFields, Gen.CoseMac_removeFields, Gen.CoseMac0_removeFields, Gen.CoseRecipient_removeFields, Gen.CoseEncrypt_removeFields, Gen.CoseEncrypt0_removeFields, Gen.PartyInfo_removeFields, Gen.SuppPubInfo_removeFields, Gen.CoseKdfContext_removeFields]
def pinnedRemoveFields := [Pinned.CoseSignature_removeFields, Pinned.CoseSign_removeFields, Pinned.CoseSign1_removeFields, Pinned.CoseMac_removeFields, Pinned.CoseMac0_removeFields, Pinned.CoseRecipient_removeFields, Pinned.CoseEncrypt_removeFields, Pinned.CoseEncrypt0_removeFields, Pinned.PartyInfo_removeFields, Pinned.SuppPubInfo_removeFields, Pinned.CoseKdfContext_removeFields]
theorem remove_fields : genRemoveFields = pinnedRemoveFields := by rfl
def genEmitOrders := [Gen.CoseSignature_emitOrder, Gen.CoseSign_emitOrder, Gen.CoseSign1_emitOrder, Gen.CoseMac_emitOrder, Gen.CoseMac0_emitOrder, Gen.CoseRecipient_emitOrder, Gen.CoseEncrypt_emitOrder, Gen.CoseEncrypt0_emitOrder, Gen.PartyInfo_emitOrder, Gen.SuppPubInfo_emitOrder, Gen.CoseKdfContext_emitOrder]
def pinnedEmitOrders := [Pinned.CoseSignature_emitOrder, Pinned.CoseSign_emitOrder, Pinned.CoseSign1_emitOrder, Pinned.CoseMac_emitOrder, Pinned.CoseMac0_emitOrder, Pinned.CoseRecipient_emitOrder, Pinned.CoseEncrypt_emitOrder, Pinned.CoseEncrypt0_emitOrder, Pinned.PartyInfo_emitOrder, Pinned.SuppPubInfo_emitOrder, Pinned.CoseKdfContext_emitOrder]
theorem emit_order : genEmitOrders = pinnedEmitOrders := by rfl
/-- F1: the `iana_registry!` macro itself (the tables are checked row by row in C17). -/
theorem iana_macro : Gen.ianaMacroHash = Pinned.ianaMacroHash := by rfl

end Coset.Ties
