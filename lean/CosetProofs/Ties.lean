/-
  Ties T for the parts of the code that are *text* rather than tables: the inventories the extractor regenerates from /repo/src on
  every run (`CosetGen`) must equal the ones of the tree the model was transcribed from (`CosetRef/PinnedFacts.lean`).  A new
  `unwrap` / index / subtraction in non-test code, a changed `as` / `try_into`, a `CborSerializable` impl that overrides a provided
  method, a changed body of `from_slice` / `to_vec` / `read_to_value`, a changed builder macro or guard, a changed routing of context
  constants, a field dropped from `Header::is_empty`: each is *found but different*, and breaks the kernel-checked equality below —
  the theorems about the model then no longer speak about this source, whether or not any test input notices.

  Each fact lives in its own module under `CosetProofs/Ties/`; a property file imports only the facts it rests on, so a textual
  change to one inventory breaks the obligations of the properties that own it and no others.  This file only gathers them.
-/
import CosetProofs.Ties.PanicSites
import CosetProofs.Ties.NarrowingSites
import CosetProofs.Ties.Serializable
import CosetProofs.Ties.Builders
import CosetProofs.Ties.ContextRouting
import CosetProofs.Ties.RecipientGuards
import CosetProofs.Ties.HeaderFields
import CosetProofs.Ties.RemoveFields
import CosetProofs.Ties.EmitOrder
import CosetProofs.Ties.IanaMacro
import CosetProofs.Ties.Budget.Header
import CosetProofs.Ties.Budget.Sign
import CosetProofs.Ties.Budget.Mac
import CosetProofs.Ties.Budget.Encrypt
import CosetProofs.Ties.Budget.Key
import CosetProofs.Ties.Budget.Cwt
import CosetProofs.Ties.Budget.Context
import CosetProofs.Ties.Budget.Common
import CosetProofs.Ties.Budget.Util
import CosetProofs.Ties.Budget.Iana
import CosetProofs.Ties.Compare.Header
import CosetProofs.Ties.Compare.Sign
import CosetProofs.Ties.Compare.Mac
import CosetProofs.Ties.Compare.Encrypt
import CosetProofs.Ties.Compare.Key
import CosetProofs.Ties.Compare.Cwt
import CosetProofs.Ties.Compare.Context
import CosetProofs.Ties.Compare.Common
import CosetProofs.Ties.Compare.Util
import CosetProofs.Ties.Compare.Iana
