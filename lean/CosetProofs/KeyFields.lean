/-
  Field-by-field meaning of the COSE_Key decoding loop.
-/
import CosetProofs.KeyLoop
import CosetProofs.HeaderFields
import CosetSpec.Key
namespace Coset
open Coset.Spec

/-- generic "one label, one field" lemma for any fold over label/value pairs. -/
theorem fold_field_gen {σ α : Type} (step : σ → Label × Value → Res σ) (proj : σ → α) (L : Label)
    (R : Value → σ → α → Prop)
    (frame : ∀ l v s s1, l ≠ L → step s (l, v) = .ok s1 → proj s1 = proj s)
    (set : ∀ v s s1, step s (L, v) = .ok s1 → R v s (proj s1)) :
    ∀ (ps : List (Label × Value)) (s0 s : σ), (ps.map (·.1)).Nodup → foldRes step ps s0 = .ok s →
      match lookupL L ps with
      | some v => ∃ smid, R v smid (proj s) ∧ proj smid = proj s0
      | none => proj s = proj s0 := by
  intro ps
  induction ps with
  | nil => intro s0 s _ hf; simp [foldRes] at hf; subst hf; simp [lookupL]
  | cons p ps ih =>
    intro s0 s hnd hf
    obtain ⟨l, v⟩ := p
    simp only [foldRes] at hf
    cases hs : step s0 (l, v) with
    | err e => simp [hs] at hf
    | panic q => simp [hs] at hf
    | ok s1 =>
      simp only [hs] at hf
      simp only [List.map_cons, List.nodup_cons] at hnd
      have ih' := ih s1 s hnd.2 hf
      rw [lookupL_cons]
      by_cases hl : l = L
      · subst hl
        simp only [if_true]
        have hnone := lookupL_none_of_not_mem l ps hnd.1
        rw [hnone] at ih'
        refine ⟨s0, ?_, rfl⟩
        simp only [] at ih'
        rw [ih']
        exact set v s0 s1 hs
      · simp only [hl, if_false]
        have hfr := frame l v s0 s1 hl hs
        cases hlk : lookupL L ps with
        | none => rw [hlk] at ih'; simp only [] at ih' ⊢; rw [ih', hfr]
        | some w =>
          rw [hlk] at ih'; simp only [] at ih' ⊢
          obtain ⟨smid, hr, hp⟩ := ih'
          exact ⟨smid, hr, by rw [hp, hfr]⟩

theorem key_labels : kKTY = .int 1 ∧ kKID = .int 2 ∧ kALG = .int 3 ∧ kKEY_OPS = .int 4 ∧ kBASE_IV = .int 5 := by decide

/-- everything `keyDispatch` can do when it succeeds. -/
inductive KeyCase (l : Label) (v : Value) (k k1 : CoseKey) : Prop where
  | kty (hl : l = .int 1) (t : RegLabel) (ht : RegLabel.fromValue Reg.keyType v = .ok t) (he : k1 = { k with kty := t })
  | kid (hl : l = .int 2) (b : Bytes) (hv : v = .bytes b) (hne : b ≠ []) (he : k1 = { k with keyId := b })
  | alg (hl : l = .int 3) (a : RegLabelPriv) (ha : RegLabelPriv.fromValue Reg.algorithm v = .ok a) (he : k1 = { k with alg := some a })
  | ops (hl : l = .int 4) (a : List Value) (s : List RegLabel) (hv : v = .array a) (ho : keyOpsLoop a k.keyOps = .ok s) (hne : s ≠ [])
      (he : k1 = { k with keyOps := s })
  | biv (hl : l = .int 5) (b : Bytes) (hv : v = .bytes b) (hne : b ≠ []) (he : k1 = { k with baseIv := b })
  | other (hl : l ∉ keyLabels5) (he : k1 = { k with params := k.params ++ [(l, v)] })

theorem keyStep_cases (l : Label) (v : Value) (k k1 : CoseKey) (hs : keyStep k (l, v) = .ok k1) : KeyCase l v k k1 := by
  obtain ⟨e1, e2, e3, e4, e5⟩ := key_labels
  simp only [keyStep, keyDispatch] at hs
  rw [e1, e2, e3, e4, e5] at hs
  by_cases c1 : l = .int 1
  · simp only [c1, if_true] at hs
    cases ht : RegLabel.fromValue Reg.keyType v with
    | ok t => simp [ht] at hs; exact .kty c1 t ht hs.symm
    | err e => simp [ht] at hs
    | panic p => simp [ht] at hs
  · simp only [c1, if_false] at hs
    by_cases c2 : l = .int 2
    · simp only [c2, if_true] at hs
      cases hb : tryAsNonemptyBytes v with
      | ok b => simp [hb] at hs; obtain ⟨hv, hne⟩ := nonemptyBytes_ok v b hb; exact .kid c2 b hv hne hs.symm
      | err e => simp [hb] at hs
      | panic p => simp [hb] at hs
    · simp only [c2, if_false] at hs
      by_cases c3 : l = .int 3
      · simp only [c3, if_true] at hs
        cases ha : RegLabelPriv.fromValue Reg.algorithm v with
        | ok a => simp [ha] at hs; exact .alg c3 a ha hs.symm
        | err e => simp [ha] at hs
        | panic p => simp [ha] at hs
      · simp only [c3, if_false] at hs
        by_cases c4 : l = .int 4
        · simp only [c4, if_true] at hs
          cases v with
          | array a =>
            simp only [tryAsArray] at hs
            cases ho : keyOpsLoop a k.keyOps with
            | ok s =>
              simp only [ho] at hs
              by_cases he : s.isEmpty = true
              · simp [he] at hs
              · simp only [he, Bool.false_eq_true, if_false] at hs; simp at hs
                exact .ops c4 a s rfl ho (by intro h0; subst h0; simp at he) hs.symm
            | err e => simp [ho] at hs
            | panic p => simp [ho] at hs
          | _ => simp [tryAsArray, typeError] at hs
        · simp only [c4, if_false] at hs
          by_cases c5 : l = .int 5
          · simp only [c5, if_true] at hs
            cases hb : tryAsNonemptyBytes v with
            | ok b => simp [hb] at hs; obtain ⟨hv, hne⟩ := nonemptyBytes_ok v b hb; exact .biv c5 b hv hne hs.symm
            | err e => simp [hb] at hs
            | panic p => simp [hb] at hs
          · simp only [c5, if_false] at hs
            simp at hs
            exact .other (by simp [keyLabels5, c1, c2, c3, c4, c5]) hs.symm

macro "key_tac" hs:ident : tactic => `(tactic|
  (have hc := keyStep_cases _ _ _ _ $hs
   cases hc <;> simp_all [keyLabels5]))

theorem fold_keyOf (ps : List (Label × Value)) (k0 k : CoseKey) (hnd : (ps.map (·.1)).Nodup)
    (hf : foldRes keyStep ps k0 = .ok k) : KeyOf keyOpsLoop ps k0 k := by
  have A := fold_field_gen keyStep CoseKey.kty (.int 1) (fun v _ x => ∃ t, RegLabel.fromValue Reg.keyType v = .ok t ∧ x = t)
    (fun l v s s1 hl hs => by key_tac hs) (fun v s s1 hs => by key_tac hs) ps k0 k hnd hf
  have B := fold_field_gen keyStep CoseKey.keyId (.int 2) (fun v _ x => ∃ b, v = .bytes b ∧ b ≠ [] ∧ x = b)
    (fun l v s s1 hl hs => by key_tac hs) (fun v s s1 hs => by key_tac hs) ps k0 k hnd hf
  have C := fold_field_gen keyStep CoseKey.alg (.int 3) (fun v _ x => ∃ a, RegLabelPriv.fromValue Reg.algorithm v = .ok a ∧ x = some a)
    (fun l v s s1 hl hs => by key_tac hs) (fun v s s1 hs => by key_tac hs) ps k0 k hnd hf
  have D := fold_field_gen keyStep CoseKey.keyOps (.int 4)
    (fun v sm x => ∃ a s, v = .array a ∧ keyOpsLoop a sm.keyOps = .ok s ∧ s ≠ [] ∧ x = s)
    (fun l v s s1 hl hs => by key_tac hs) (fun v s s1 hs => by key_tac hs) ps k0 k hnd hf
  have E := fold_field_gen keyStep CoseKey.baseIv (.int 5) (fun v _ x => ∃ b, v = .bytes b ∧ b ≠ [] ∧ x = b)
    (fun l v s s1 hl hs => by key_tac hs) (fun v s s1 hs => by key_tac hs) ps k0 k hnd hf
  have F : ∀ (ps : List (Label × Value)) (k0 k : CoseKey), foldRes keyStep ps k0 = .ok k →
      k.params = k0.params ++ ps.filter (fun p => p.1 ∉ keyLabels5) := by
    intro ps
    induction ps with
    | nil => intro k0 k hf; simp [foldRes] at hf; subst hf; simp
    | cons p ps ih =>
      intro k0 k hf
      obtain ⟨l, v⟩ := p
      simp only [foldRes] at hf
      cases hs : keyStep k0 (l, v) with
      | err e => simp [hs] at hf
      | panic q => simp [hs] at hf
      | ok k1 =>
        simp only [hs] at hf
        rw [ih k1 k hf]
        have hc := keyStep_cases _ _ _ _ hs
        cases hc <;> simp_all [keyLabels5]
  refine ⟨?_, ?_, ?_, ?_, ?_, F ps k0 k hf⟩
  · cases hl : lookupL (.int 1) ps <;> simp only [hl] at A ⊢
    · exact A
    · obtain ⟨_, hr, _⟩ := A; exact hr
  · cases hl : lookupL (.int 2) ps <;> simp only [hl] at B ⊢
    · exact B
    · obtain ⟨_, hr, _⟩ := B; exact hr
  · cases hl : lookupL (.int 3) ps <;> simp only [hl] at C ⊢
    · exact C
    · obtain ⟨_, hr, _⟩ := C; exact hr
  · cases hl : lookupL (.int 4) ps <;> simp only [hl] at D ⊢
    · exact D
    · obtain ⟨sm, ⟨a, s, h1, h2, h3, h4⟩, hp⟩ := D; exact ⟨a, s, h1, by rw [← hp]; exact h2, h3, h4⟩
  · cases hl : lookupL (.int 5) ps <;> simp only [hl] at E ⊢
    · exact E
    · obtain ⟨_, hr, _⟩ := E; exact hr

end Coset
