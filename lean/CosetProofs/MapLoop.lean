/-
  The shape shared by the three map decoders (header, key, claims set): for each pair — turn the key into a label,
  refuse it if seen before, dispatch.  Generic decomposition into "keys are labels, labels distinct, fold succeeds".
-/
import CosetProofs.HeaderLoop
namespace Coset

/-- the common loop. -/
def genLoop {L σ : Type} (keyFrom : Value → Res L) (cmpL : L → L → Res Ordering) (step : σ → L × Value → Res σ) :
    List (Value × Value) → σ → List L → Res σ
  | [], s, _ => .ok s
  | (k, v) :: m, s, seen =>
    match keyFrom k with
    | .ok l =>
      match setContains cmpL seen l with
      | .ok true => .err .duplicateMapKey
      | .ok false =>
        match step s (l, v) with
        | .ok s' => genLoop keyFrom cmpL step m s' (seen ++ [l])
        | .err e => .err e
        | .panic p => .panic p
      | .err e => .err e
      | .panic p => .panic p
    | .err e => .err e
    | .panic p => .panic p

def FreshG {L : Type} (seen ls : List L) : Prop := ls.Nodup ∧ ∀ l ∈ ls, l ∉ seen

theorem genLoop_ok_iff {L σ : Type} [DecidableEq L] (keyFrom : Value → Res L) (cmpL : L → L → Res Ordering) (step : σ → L × Value → Res σ)
    (Good : L → Prop) (hk : ∀ k l, keyFrom k = .ok l → Good l)
    (hc : ∀ seen l, (∀ x ∈ seen, Good x) → Good l → setContains cmpL seen l = .ok (decide (l ∈ seen)))
    (m : List (Value × Value)) :
    ∀ (s s' : σ) (seen : List L), (∀ x ∈ seen, Good x) →
    (genLoop keyFrom cmpL step m s seen = .ok s' ↔
      ∃ ls, mapRes keyFrom (m.map (·.1)) = .ok ls ∧ FreshG seen ls ∧ foldRes step (ls.zip (m.map (·.2))) s = .ok s') := by
  induction m with
  | nil =>
    intro s s' seen _
    simp [genLoop, mapRes, FreshG, foldRes]
  | cons kv m ih =>
    intro s s' seen hg
    obtain ⟨k, v⟩ := kv
    simp only [genLoop, List.map_cons, mapRes_cons_ok]
    cases hkk : keyFrom k with
    | err e => simp
    | panic p => simp
    | ok label =>
      have hgl := hk k label hkk
      simp only [hc seen label hg hgl]
      have hg' : ∀ x ∈ seen ++ [label], Good x := by
        intro x hx; rcases List.mem_append.mp hx with h | h
        · exact hg x h
        · simp at h; subst h; exact hgl
      by_cases hin : label ∈ seen
      · simp only [hin, decide_true]
        constructor
        · intro hf; simp at hf
        · rintro ⟨ls, ⟨y, ys', hy, _, rfl⟩, hfr, _⟩
          simp at hy; subst hy
          exact absurd hin (hfr.2 _ (by simp))
      · simp only [hin, decide_false]
        constructor
        · intro hl
          cases hd : step s (label, v) with
          | err e => simp [hd] at hl
          | panic p => simp [hd] at hl
          | ok s1 =>
            simp only [hd] at hl
            obtain ⟨ls, hls, hfr, hfold⟩ := (ih s1 s' (seen ++ [label]) hg').mp hl
            refine ⟨label :: ls, ⟨label, ls, rfl, hls, rfl⟩, ?_, ?_⟩
            · refine ⟨List.nodup_cons.mpr ⟨?_, hfr.1⟩, ?_⟩
              · intro hmem; exact (hfr.2 label hmem) (by simp)
              · intro l hl2
                rcases List.mem_cons.mp hl2 with rfl | hl3
                · exact hin
                · intro hs; exact (hfr.2 l hl3) (by simp [hs])
            · simp only [List.zip_cons_cons, foldRes, hd]
              exact hfold
        · rintro ⟨ls, ⟨y, ys', hy, hys, rfl⟩, hfr, hfold⟩
          simp at hy; subst hy
          simp only [List.zip_cons_cons, foldRes] at hfold
          cases hd : step s (label, v) with
          | err e => simp [hd] at hfold
          | panic p => simp [hd] at hfold
          | ok s1 =>
            simp only [hd] at hfold ⊢
            apply (ih s1 s' (seen ++ [label]) hg').mpr
            refine ⟨ys', hys, ⟨(List.nodup_cons.mp hfr.1).2, ?_⟩, hfold⟩
            intro l hl hs
            rcases List.mem_append.mp hs with h1' | h2'
            · exact hfr.2 l (by simp [hl]) h1'
            · simp at h2'; subst h2'; exact (List.nodup_cons.mp hfr.1).1 hl

/-- a repeated label met while everything before it was acceptable: `DuplicateMapKey`, whatever its value. -/
theorem genLoop_dup {L σ : Type} [DecidableEq L] (keyFrom : Value → Res L) (cmpL : L → L → Res Ordering) (step : σ → L × Value → Res σ)
    (Good : L → Prop) (hk : ∀ k l, keyFrom k = .ok l → Good l)
    (hc : ∀ seen l, (∀ x ∈ seen, Good x) → Good l → setContains cmpL seen l = .ok (decide (l ∈ seen)))
    (p : List (Value × Value)) : ∀ (s sp : σ) (seen lp : List L) (k x : Value) (l : L) (q : List (Value × Value)),
    (∀ y ∈ seen, Good y) → mapRes keyFrom (p.map (·.1)) = .ok lp → FreshG seen lp → foldRes step (lp.zip (p.map (·.2))) s = .ok sp →
    keyFrom k = .ok l → l ∈ seen ++ lp → genLoop keyFrom cmpL step (p ++ (k, x) :: q) s seen = .err .duplicateMapKey := by
  induction p with
  | nil =>
    intro s sp seen lp k x l q hg hlp _ _ hkl hmem
    simp [mapRes] at hlp; subst hlp
    have hmem' : l ∈ seen := by simpa using hmem
    simp [genLoop, hkl, hc seen l hg (hk k l hkl), hmem']
  | cons kv p ih =>
    intro s sp seen lp k x l q hg hlp hfr hfold hkl hmem
    obtain ⟨k0, v0⟩ := kv
    simp only [List.map_cons, mapRes_cons_ok] at hlp
    obtain ⟨l0, lp', hk0, hlp', rfl⟩ := hlp
    have hg0 := hk k0 l0 hk0
    have hnin : l0 ∉ seen := hfr.2 l0 (by simp)
    simp only [List.cons_append, genLoop, hk0, hc seen l0 hg hg0, hnin, decide_false]
    simp only [List.map_cons, List.zip_cons_cons, foldRes] at hfold
    cases hd : step s (l0, v0) with
    | err e => simp [hd] at hfold
    | panic pp => simp [hd] at hfold
    | ok s1 =>
      simp only [hd] at hfold ⊢
      have hg' : ∀ y ∈ seen ++ [l0], Good y := by
        intro y hy; rcases List.mem_append.mp hy with h | h
        · exact hg y h
        · simp at h; subst h; exact hg0
      refine ih s1 sp (seen ++ [l0]) lp' k x l q hg' hlp' ⟨(List.nodup_cons.mp hfr.1).2, ?_⟩ hfold hkl ?_
      · intro y hy hs
        rcases List.mem_append.mp hs with h1' | h2'
        · exact hfr.2 y (by simp [hy]) h1'
        · simp at h2'; subst h2'; exact (List.nodup_cons.mp hfr.1).1 hy
      · simp only [List.mem_append, List.mem_cons] at hmem ⊢
        rcases hmem with h | h | h
        · exact Or.inl (Or.inl h)
        · exact Or.inl (Or.inr (by simp [h]))
        · exact Or.inr h

/-- the header loop is an instance. -/
theorem headerLoop_eq_gen (d : Nat) (sf : Value → Res CoseSignature) (m : List (Value × Value)) :
    ∀ (h : Header) (seen : List Label), headerLoop d sf m h seen = genLoop Label.fromValue Label.cmp (headerStep d sf) m h seen := by
  induction m with
  | nil => intro h seen; rfl
  | cons kv m ih =>
    intro h seen
    obtain ⟨k, v⟩ := kv
    simp only [headerLoop, genLoop, headerStep]
    cases Label.fromValue k with
    | ok l =>
      simp only []
      cases setContains Label.cmp seen l with
      | ok b =>
        cases b with
        | true => rfl
        | false =>
          simp only []
          cases headerDispatch d sf l v h with
          | ok h1 =>
            simp only []
            by_cases hb : (!h1.iv.isEmpty && !h1.partialIv.isEmpty) = true
            · simp [hb]
            · simp only [hb, Bool.false_eq_true, if_false]; exact ih h1 _
          | err e => rfl
          | panic p => rfl
      | err e => rfl
      | panic p => rfl
    | err e => rfl
    | panic p => rfl

end Coset
