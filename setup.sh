#!/bin/sh
# MANIFEST.setup_cmd: build everything from files on disk, offline.
set -e
cd "$(dirname "$0")"
export CARGO_NET_OFFLINE=true
mkdir -p .cache evidence replays
python3 vlib/extract.py >/dev/null
[ -f harness/Cargo.lock ] || cp /repo/Cargo.lock harness/Cargo.lock
(cd harness && cargo build --offline --quiet)
(cd lean && lake build CosetModel driver CosetProofs)
echo setup done
